(* C14 - delegating derives expose the selected field itself: the property theorems.
   Model: Verif.C14.Model (mirrors utils.rs State/get_meta_info, deref.rs, deref_mut.rs, index.rs, index_mut.rs,
   into_iterator.rs, as/mod.rs, src/as.rs).  Spec predicates (designated, blocked, as_selected, identity_cond,
   expected) are defined in Verif.C14.Proofs. *)

From Coq Require Import List NArith Bool Arith.
Import ListNotations.
Require Import Verif.C14.Model Verif.C14.Proofs.

(* Whenever a field is selected (whatever the struct-level attribute), it is the one the attributes
   designate: the only positively marked field, or - none being marked - the only field not ignored. *)
Theorem C14_selection_sound : forall (se : option bool) (ms : list (option bool)) (i : nat),
  select_idx se ms = Some i -> designated ms i.
Proof. exact Proofs.selection_sound. Qed.
Print Assumptions C14_selection_sound.

(* The converse holds exactly outside one shape: the first attributed field is an `ignore`, another field
   is marked positively and a third carries no attribute.  On that shape the macro rejects the struct. *)
Theorem C14_selection_partial : forall (ms : list (option bool)) (i : nat),
  select_idx None ms = Some i <-> designated ms i /\ ~ blocked ms.
Proof. exact Proofs.selection_iff. Qed.
Print Assumptions C14_selection_partial.

(* ... so the unrestricted `<->` is false of the faithful model: `(#[x(ignore)] A, #[x] A, A)`.
   The witness is a REJECTION: [select_idx] answers None, i.e. the macro emits its one-field diagnostic
   (C14_diagnostic) and no impl at all; it never selects a wrong field (C14_selection_sound). *)
Theorem C14_selection_refuted : exists (ms : list (option bool)) (i : nat),
  designated ms i /\ select_idx None ms = None.
Proof. exact Proofs.selection_complete_refuted. Qed.
Print Assumptions C14_selection_refuted.

(* A struct-level attribute re-enables unattributed fields: `#[x(forward)] struct S(#[x] A, A)`.
   Again a rejection (diagnostic, no impl emitted), not a wrong selection. *)
Theorem C14_selection_struct_attr_refuted : exists (ms : list (option bool)) (i : nat),
  designated ms i /\ select_idx None ms = Some i /\ select_idx (Some true) ms = None.
Proof. exact Proofs.selection_struct_attr_refuted. Qed.
Print Assumptions C14_selection_struct_attr_refuted.

(* What the code does, restated: exactly one field is enabled under the computed default. *)
Theorem C14_selection_exactly_one : forall (se : option bool) (ms : list (option bool)) (i : nat),
  select_idx se ms = Some i <->
  enabled_at (marks_default se ms) ms i /\ forall j, enabled_at (marks_default se ms) ms j -> j = i.
Proof. exact Proofs.select_idx_exactly_one. Qed.
Print Assumptions C14_selection_exactly_one.

(* The marks are read off the attribute syntax: no attribute / `ignore` in the list / anything else. *)
Theorem C14_mark_of_attribute : forall (allowed : list akind) (attrs : list attr) (mi : meta_info),
  get_meta_info allowed attrs = inr mi ->
  mi_enabled mi = match attrs with
                  | [] => None
                  | [AList ps] => if existsb is_ignore ps then Some false else Some true
                  | _ => Some true
                  end.
Proof. exact Proofs.get_meta_info_mark. Qed.
Print Assumptions C14_mark_of_attribute.

(* [select] on attribute syntax is [select_idx] on the marks; otherwise the one-field diagnostic. *)
Theorem C14_select_spec : forall (allowed : list akind) (sattrs : list attr) (fattrs : list (list attr))
                                 (sm : meta_info) (metas : list meta_info),
  get_meta_info allowed sattrs = inr sm ->
  collect_metas allowed fattrs = inr metas ->
  match select_idx (mi_enabled sm) (marks metas) with
  | Some i => exists info, select allowed sattrs fattrs = inr (i, info)
                           /\ nth_error (full_infos sm metas) i = Some info
  | None => select allowed sattrs fattrs = inl DOneField
  end.
Proof. exact Proofs.select_spec. Qed.
Print Assumptions C14_select_spec.

Theorem C14_diagnostic : forall (d : dkind) (sattrs : list attr) (fields : list (ty * list attr))
                                (sm : meta_info) (metas : list meta_info),
  get_meta_info (allowed_of d) sattrs = inr sm ->
  collect_metas (allowed_of d) (map snd fields) = inr metas ->
  select_idx (mi_enabled sm) (marks metas) = None ->
  derive_state d sattrs fields = inl DOneField.
Proof. exact Proofs.derive_state_diag. Qed.
Print Assumptions C14_diagnostic.

(* Without `forward`: `&self.i` / `&mut self.i`, the address of the selected field's own storage. *)
Theorem C14_direct : forall (A : Type) (field_impl : trait -> refkind -> ty -> arg -> bool -> A) (norm : ty -> ty)
                            (m : bool) (info : full_info) (i : nat) (fty : ty),
  fi_forward info = false ->
  im_field (deref_impl m info i fty) = i
  /\ im_body (deref_impl m info i fty) = addr m (EField i)
  /\ eval A field_impl norm (im_body (deref_impl m info i fty)) = Some (RArg (AAddr m i))
  /\ (m = false -> im_assoc (deref_impl m info i fty) = [AsTy fty]).
Proof. exact Proofs.deref_direct. Qed.
Print Assumptions C14_direct.

(* ... and a write through the mutable form lands in that field and in no other. *)
Theorem C14_direct_writes_through : forall (A : Type) (field_impl : trait -> refkind -> ty -> arg -> bool -> A)
                                           (norm : ty -> ty) (V : Type)
                                           (info : full_info) (i : nat) (fty : ty) (st : list V) (v : V),
  fi_forward info = false -> i < length st ->
  exists st', write A V st (eval A field_impl norm (im_body (deref_impl true info i fty))) v = Some st'
              /\ nth_error st' i = Some v
              /\ (forall j, j <> i -> nth_error st' j = nth_error st j)
              /\ read A V st' (eval A field_impl norm (im_body (deref_impl false info i fty))) = Some v.
Proof. exact Proofs.deref_mut_writes_through. Qed.
Print Assumptions C14_direct_writes_through.

(* With `forward`: precisely the field type's own impl applied to the field's address. *)
Theorem C14_forward : forall (A : Type) (field_impl : trait -> refkind -> ty -> arg -> bool -> A) (norm : ty -> ty)
                             (m : bool) (info : full_info) (i : nat) (fty : ty),
  fi_forward info = true ->
  im_field (deref_impl m info i fty) = i
  /\ eval A field_impl norm (im_body (deref_impl m info i fty))
     = Some (RImpl (field_impl (if m then TrDerefMut else TrDeref) RNo fty (AAddr m i) false)).
Proof. exact Proofs.deref_forward. Qed.
Print Assumptions C14_forward.

Theorem C14_index : forall (A : Type) (field_impl : trait -> refkind -> ty -> arg -> bool -> A) (norm : ty -> ty)
                           (m : bool) (i : nat) (fty : ty),
  im_field (index_impl m i fty) = i
  /\ eval A field_impl norm (im_body (index_impl m i fty))
     = Some (RImpl (field_impl (if m then TrIndexMut else TrIndex) RNo fty (AAddr m i) true)).
Proof. exact Proofs.index_forward. Qed.
Print Assumptions C14_index.

(* End to end for Deref, DerefMut, Index, IndexMut, IntoIterator: every emitted impl delegates to the
   designated field, and evaluates to that field's address or to the field type's own impl on it. *)
Theorem C14_delegates_to_selected : forall (A : Type) (field_impl : trait -> refkind -> ty -> arg -> bool -> A)
                                           (norm : ty -> ty) (d : dkind) (sattrs : list attr)
                                           (fields : list (ty * list attr)) (ims : list impl),
  derive_state d sattrs fields = inr ims ->
  exists sm metas i info,
    get_meta_info (allowed_of d) sattrs = inr sm
    /\ collect_metas (allowed_of d) (map snd fields) = inr metas
    /\ designated (marks metas) i
    /\ nth_error (full_infos sm metas) i = Some info
    /\ forall im, In im ims ->
         im_field im = i
         /\ eval A field_impl norm (im_body im) = Some (expected A field_impl d info (field_ty fields i) i im).
Proof. exact Proofs.derive_state_delegates. Qed.
Print Assumptions C14_delegates_to_selected.

(* IntoIterator: one impl per requested reference kind, each calling the field type's own `into_iter`
   on `f`, `&f`, `&mut f` of the same field. *)
Theorem C14_iter_impl_set : forall (sattrs : list attr) (fields : list (ty * list attr)) (ims : list impl),
  derive_state DIntoIter sattrs fields = inr ims ->
  exists i info, select allowed_iter sattrs (map snd fields) = inr (i, info)
    /\ map im_self ims = ref_types info
    /\ forall im, In im ims -> im = iter_impl (im_self im) i (field_ty fields i).
Proof. exact Proofs.iter_impl_set. Qed.
Print Assumptions C14_iter_impl_set.

Theorem C14_iter_forms : forall (A : Type) (field_impl : trait -> refkind -> ty -> arg -> bool -> A) (norm : ty -> ty)
                                (rk : refkind) (i : nat) (fty : ty),
  im_field (iter_impl rk i fty) = i /\ im_self (iter_impl rk i fty) = rk
  /\ eval A field_impl norm (im_body (iter_impl rk i fty))
     = Some (RImpl (field_impl TrIntoIter rk fty (arg_of rk i) false)).
Proof. exact Proofs.iter_forward. Qed.
Print Assumptions C14_iter_forms.

Theorem C14_iter_same_elements : forall (A : Type) (field_impl : trait -> refkind -> ty -> arg -> bool -> A)
                                        (norm : ty -> ty) (E : Type) (elems : A -> list E) (i : nat) (fty : ty),
  (forall rk, elems (field_impl TrIntoIter rk fty (arg_of rk i) false)
              = elems (field_impl TrIntoIter RNo fty (APlace i) false)) ->
  forall rk1 rk2 x1 x2,
    eval A field_impl norm (im_body (iter_impl rk1 i fty)) = Some (RImpl x1) ->
    eval A field_impl norm (im_body (iter_impl rk2 i fty)) = Some (RImpl x2) ->
    elems x1 = elems x2.
Proof. exact Proofs.iter_same_elements. Qed.
Print Assumptions C14_iter_same_elements.

(* AsRef / AsMut to a listed type that IS the field's type (equal after alias resolution; generics not
   involved, or spelled identically): the field itself, not a forwarded call. *)
Theorem C14_asref_identity : forall (A : Type) (field_impl : trait -> refkind -> ty -> arg -> bool -> A)
                                    (norm : ty -> ty) (g : generics) (m : bool) (i : nat) (fty rty : ty),
  ty_eqb (norm fty) (norm rty) = true ->
  (ty_eqb fty rty = true \/ (any_in g fty = false /\ any_in g rty = false)) ->
  eval A field_impl norm (im_body (as_impl g m i fty (TgTy rty))) = Some (RArg (AAddr m i)).
Proof. exact Proofs.as_identity. Qed.
Print Assumptions C14_asref_identity.

Theorem C14_asref_default_identity : forall (A : Type) (field_impl : trait -> refkind -> ty -> arg -> bool -> A)
                                            (norm : ty -> ty) (g : generics) (m : bool) (i : nat) (fty : ty) (t : target),
  In t (as_targets None fty) ->
  eval A field_impl norm (im_body (as_impl g m i fty t)) = Some (RArg (AAddr m i)).
Proof. exact Proofs.as_default_identity. Qed.
Print Assumptions C14_asref_default_identity.

(* `forward` and every listed type that is another type: precisely the field's own impl on `&[mut] self.i`. *)
Theorem C14_asref_forward : forall (A : Type) (field_impl : trait -> refkind -> ty -> arg -> bool -> A)
                                   (norm : ty -> ty) (g : generics) (m : bool) (i : nat) (fty : ty) (t : target),
  identity_cond norm g fty t = false ->
  eval A field_impl norm (im_body (as_impl g m i fty t))
  = Some (RImpl (field_impl (TrAs m t) RNo fty (AAddr m i) false)).
Proof. exact Proofs.as_forward. Qed.
Print Assumptions C14_asref_forward.

(* The impl set of AsRef / AsMut. *)
Theorem C14_asref_impl_set : forall (g : generics) (m : bool) (sattrs : list sattr_as)
                                    (fields : list (ty * list fattr_as)) (ims : list impl),
  derive_as g m sattrs fields = inr ims ->
  forall im, In im ims <->
    exists i fty c t, as_selected sattrs fields i fty c /\ In t (as_targets c fty) /\ im = as_impl g m i fty t.
Proof. exact Proofs.derive_as_impl_set. Qed.
Print Assumptions C14_asref_impl_set.

(* Every AsRef / AsMut impl exposes its own field: the field itself or the field's own impl, never a neighbour. *)
Theorem C14_asref_delegates : forall (A : Type) (field_impl : trait -> refkind -> ty -> arg -> bool -> A)
                                     (norm : ty -> ty) (g : generics) (m : bool) (sattrs : list sattr_as)
                                     (fields : list (ty * list fattr_as)) (ims : list impl),
  derive_as g m sattrs fields = inr ims ->
  forall im, In im ims ->
    exists i fty c t, as_selected sattrs fields i fty c /\ In t (as_targets c fty)
      /\ im_field im = i /\ im_trait im = TrAs m t
      /\ eval A field_impl norm (im_body im)
         = Some (if identity_cond norm g fty t then RArg (AAddr m i)
                 else RImpl (field_impl (TrAs m t) RNo fty (AAddr m i) false)).
Proof. exact Proofs.derive_as_delegates. Qed.
Print Assumptions C14_asref_delegates.

(* Token equality of types is equality (so it implies equality after alias resolution). *)
Theorem C14_token_equality : forall (a b : ty), ty_eqb a b = true <-> a = b.
Proof. exact Proofs.ty_eqb_spec. Qed.
Print Assumptions C14_token_equality.

(* ================================================================================================ *)
(* Growth round                                                                                       *)
From Coq Require Import Permutation.

(* "operate on exactly the one field": all impls of a State-based derive share ONE field; one impl, or one per
   requested reference kind for IntoIterator. *)
Theorem C14_unique_field : forall (d : dkind) (sattrs : list attr) (fields : list (ty * list attr)) (ims : list impl),
  derive_state d sattrs fields = inr ims ->
  exists i info, select (allowed_of d) sattrs (map snd fields) = inr (i, info)
    /\ (forall im, In im ims -> im_field im = i)
    /\ (d <> DIntoIter -> length ims = 1)
    /\ (d = DIntoIter -> map im_self ims = ref_types info).
Proof. exact Proofs.derive_state_unique_field. Qed.
Print Assumptions C14_unique_field.

(* enums and unions never get an impl (a diagnostic, whatever their attributes) *)
Theorem C14_non_struct_rejected : forall (d : dkind) (sg : sgenerics) (it : item),
  (forall s f, it <> IStruct s f) -> exists e, derive_state_item d sg it = inl e.
Proof. exact Proofs.non_struct_rejected. Qed.
Print Assumptions C14_non_struct_rejected.

Theorem C14_non_struct_rejected_as : forall (sg : sgenerics) (m : bool) (it : item_as),
  (forall s f, it <> AStruct s f) -> derive_as_item sg m it = inl DSyn.
Proof. exact Proofs.non_struct_rejected_as. Qed.
Print Assumptions C14_non_struct_rejected_as.

(* the header-carrying derives are refinements of the plain ones (all earlier theorems transfer) *)
Theorem C14_headers_refine_state : forall (d : dkind) (sg : sgenerics) (sattrs : list attr) (fields : list (ty * list attr)),
  derive_state d sattrs fields
  = match derive_state_h d sg sattrs fields with inl e => inl e | inr l => inr (map fst l) end.
Proof. exact Proofs.derive_state_h_refines. Qed.
Print Assumptions C14_headers_refine_state.

Theorem C14_headers_refine_as : forall (sg : sgenerics) (m : bool) (sattrs : list sattr_as) (fields : list (ty * list fattr_as)),
  derive_as (generics_of sg) m sattrs fields
  = match derive_as_h sg m sattrs fields with inl e => inl e | inr l => inr (map fst l) end.
Proof. exact Proofs.derive_as_h_refines. Qed.
Print Assumptions C14_headers_refine_as.

(* body shape and where-clause: the added predicates are EXACTLY the forwarded calls of the body (a direct
   `&self.f` body adds none), and the struct's own predicates are all kept, in order *)
Theorem C14_where_backs_calls_state : forall (d : dkind) (sg : sgenerics) (info : full_info) (i : nat) (fty : ty)
                                             (im : impl) (h : header),
  In (im, h) (state_himpls d sg info i fty) ->
  bounds_of (h_where h) = calls (im_body im) /\ origs_of (h_where h) = sg_where sg.
Proof. exact Proofs.state_header_where. Qed.
Print Assumptions C14_where_backs_calls_state.

(* AsRef/AsMut: Forwarded has its `FieldTy: AsRef<R>` predicate; Direct and Specialized have none (whether
   the specialised call type-checks at an instantiation is rustc's: left to the run-time oracle) *)
Theorem C14_where_backs_calls_as : forall (sg : sgenerics) (m : bool) (i : nat) (fty : ty) (t : target),
  let '(im, h) := as_himpl sg m i fty t in
  bounds_of (h_where h) = calls (im_body im) /\ origs_of (h_where h) = sg_where sg.
Proof. exact Proofs.as_header_where. Qed.
Print Assumptions C14_where_backs_calls_as.

(* generic parameters of the impl: the struct's own (regrouped, lifetimes printed first) plus exactly the
   documented extra: `__IdxT`, `'__deriveMoreLifetime` for the reference forms, `__AsT: ?Sized` for `forward` *)
Theorem C14_params_state : forall (d : dkind) (sg : sgenerics) (info : full_info) (i : nat) (fty : ty) (im : impl) (h : header),
  In (im, h) (state_himpls d sg info i fty) ->
  Permutation (h_params h) (extra_params_state d (im_self im) ++ orig_params sg).
Proof. exact Proofs.state_header_params. Qed.
Print Assumptions C14_params_state.

Theorem C14_params_as : forall (sg : sgenerics) (m : bool) (i : nat) (fty : ty) (t : target),
  Permutation (h_params (snd (as_himpl sg m i fty t)))
              (extra_params_as (as_kind_of (generics_of sg) fty t) t ++ orig_params sg).
Proof. exact Proofs.as_header_params. Qed.
Print Assumptions C14_params_as.

(* ImplKind as a total decision on (blanket?, field type, listed type, GenericsSearch) *)
Theorem C14_impl_kind_spec : forall (g : generics) (b : bool) (f r : ty),
  (as_impl_kind g b f r = Direct <-> b = false /\ f = r)
  /\ (as_impl_kind g b f r = Forwarded <-> b = true \/ (f <> r /\ (any_in g f = true \/ any_in g r = true)))
  /\ (as_impl_kind g b f r = Specialized <-> b = false /\ f <> r /\ any_in g f = false /\ any_in g r = false).
Proof. exact Proofs.impl_kind_spec. Qed.
Print Assumptions C14_impl_kind_spec.

(* order independence: the impl (kind, body, header) generated for a listed type is a function of that type
   alone - in any other list containing it the same impl appears; permuting a list permutes the impls *)
Theorem C14_kind_order_independent : forall (sg : sgenerics) (m : bool) (i : nat) (fty : ty) (l1 l2 : list ty) (t : ty) (hi : himpl),
  In hi (map (as_himpl sg m i fty) (as_targets (Some (CTypes l1)) fty)) ->
  im_trait (fst hi) = TrAs m (TgTy t) ->
  In t l2 ->
  hi = as_himpl sg m i fty (TgTy t)
  /\ In hi (map (as_himpl sg m i fty) (as_targets (Some (CTypes l2)) fty)).
Proof. exact Proofs.kind_order_independent. Qed.
Print Assumptions C14_kind_order_independent.

Theorem C14_kind_order_independent_perm : forall (sg : sgenerics) (m : bool) (i : nat) (fty : ty) (l1 l2 : list ty),
  Permutation l1 l2 ->
  Permutation (map (as_himpl sg m i fty) (as_targets (Some (CTypes l1)) fty))
              (map (as_himpl sg m i fty) (as_targets (Some (CTypes l2)) fty)).
Proof. exact Proofs.kind_order_independent_perm. Qed.
Print Assumptions C14_kind_order_independent_perm.

(* listed types spread over several attributes are one list (field level, any position; struct level) *)
Theorem C14_split_field_attrs : forall (sg : sgenerics) (m : bool) (sattrs : list sattr_as)
                                       (pre post : list (ty * list fattr_as)) (t : ty) (l : list ty) (ls : list (list ty)),
  derive_as_h sg m sattrs (pre ++ (t, map FTypes (l :: ls)) :: post)
  = derive_as_h sg m sattrs (pre ++ (t, [FTypes (l ++ concat ls)]) :: post).
Proof. exact Proofs.split_field_attrs. Qed.
Print Assumptions C14_split_field_attrs.

Theorem C14_split_struct_attrs : forall (sg : sgenerics) (m : bool) (fields : list (ty * list fattr_as))
                                        (l : list ty) (ls : list (list ty)),
  derive_as_h sg m (map STypes (l :: ls)) fields = derive_as_h sg m [STypes (l ++ concat ls)] fields.
Proof. exact Proofs.split_struct_attrs. Qed.
Print Assumptions C14_split_struct_attrs.

(* GenericsSearch (types, consts, lifetimes, `T::Assoc`): nothing is generic without parameters; monotone in
   the parameter sets; the shapes it reacts to *)
Theorem C14_any_in_no_generics : forall (t : ty) (h : bool), any_in' no_generics h t = false.
Proof. exact Proofs.any_in'_no_generics. Qed.
Print Assumptions C14_any_in_no_generics.

Theorem C14_any_in_mono : forall (g g' : generics),
  sub_mem (g_types g) (g_types g') -> sub_mem (g_lifetimes g) (g_lifetimes g') -> sub_mem (g_consts g) (g_consts g') ->
  forall t h, any_in' g h t = true -> any_in' g' h t = true.
Proof. exact Proofs.any_in'_mono. Qed.
Print Assumptions C14_any_in_mono.

Theorem C14_any_in_shapes : forall (g : generics),
  (forall n, any_in g (TId n) = memN n (g_types g) || memN n (g_consts g))
  /\ (forall s r, any_in g (TQual (s :: r)) = memN s (g_types g))
  /\ (forall f a, any_in g (TApp f a) = any_in' g true f || any_in g a)
  /\ (forall l m t, any_in g (TRef (Some l) m t) = memN l (g_lifetimes g) || any_in g t)
  /\ (forall m t, any_in g (TRef None m t) = any_in g t)
  /\ (forall t c, any_in g (TArray t (LenId c)) = any_in g t || memN c (g_consts g))
  /\ (forall n, any_in' g true (TId n) = false).
Proof. exact Proofs.any_in_shapes. Qed.
Print Assumptions C14_any_in_shapes.

(* full-strength identity for structs without generic parameters: ANY listed type that is the field's type for
   rustc (alias, parenthesised, qualified ...) yields the field itself; and no impl is Forwarded unless `forward` *)
Theorem C14_no_generics_identity : forall (A : Type) (field_impl : trait -> refkind -> ty -> arg -> bool -> A)
                                          (norm : ty -> ty) (w : list N) (m : bool) (i : nat) (fty rty : ty),
  ty_eqb (norm fty) (norm rty) = true ->
  eval A field_impl norm (im_body (fst (as_himpl {| sg_params := []; sg_where := w |} m i fty (TgTy rty))))
  = Some (RArg (AAddr m i)).
Proof. exact Proofs.no_generics_identity. Qed.
Print Assumptions C14_no_generics_identity.

Theorem C14_no_generics_never_forwarded : forall (fty rty : ty), as_impl_kind no_generics false fty rty <> Forwarded.
Proof. exact Proofs.no_generics_never_forwarded. Qed.
Print Assumptions C14_no_generics_never_forwarded.

(* AsMut: writes through the identity form are visible in the selected field and nowhere else *)
Theorem C14_asmut_writes_through : forall (A : Type) (field_impl : trait -> refkind -> ty -> arg -> bool -> A)
                                          (norm : ty -> ty) (V : Type) (g : generics) (i : nat) (fty : ty) (t : target)
                                          (st : list V) (v : V),
  identity_cond norm g fty t = true -> i < length st ->
  exists st', write A V st (eval A field_impl norm (im_body (as_impl g true i fty t))) v = Some st'
              /\ nth_error st' i = Some v
              /\ (forall j, j <> i -> nth_error st' j = nth_error st j)
              /\ read A V st' (eval A field_impl norm (im_body (as_impl g false i fty t))) = Some v.
Proof. exact Proofs.asmut_writes_through. Qed.
Print Assumptions C14_asmut_writes_through.

(* IntoIterator: which forms exist, read off the field's and the struct's attribute (MetaInfo::into_full):
   `ref` / `ref_mut` iff requested; `owned` iff requested or the (code's) default, which is characterised below *)
Theorem C14_iter_forms_of_attrs : forall (sattrs : list attr) (fattrs : list (list attr)) (i : nat) (info : full_info) (fa : list attr),
  select allowed_iter sattrs fattrs = inr (i, info) ->
  nth_error fattrs i = Some fa ->
  exists metas, collect_metas allowed_iter fattrs = inr metas
    /\ fi_ref info = lists PRef fa || lists PRef sattrs
    /\ fi_ref_mut info = lists PRefMut fa || lists PRefMut sattrs
    /\ fi_owned info = lists POwned fa || lists POwned sattrs || default_owned metas.
Proof. exact Proofs.iter_forms_of_attrs. Qed.
Print Assumptions C14_iter_forms_of_attrs.

Theorem C14_default_owned_spec : forall (allowed : list akind) (fattrs : list (list attr)) (metas : list meta_info),
  collect_metas allowed fattrs = inr metas ->
  default_owned metas
  = match find (fun a => negb (is_nil a)) fattrs with
    | None => true
    | Some a => (negb (lists POwned a) && negb (lists PRef a)) || negb (lists PRefMut a)
    end.
Proof. exact Proofs.default_owned_spec. Qed.
Print Assumptions C14_default_owned_spec.
