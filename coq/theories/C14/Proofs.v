(* C14 - proofs about the model in Model.v (all field lists, all attribute lists, all types). *)

From Coq Require Import List NArith Bool Arith Lia.
Import ListNotations.
Require Import Verif.C14.Model.

(* ------------------------------------------------------------------------------------------------ *)
(** * Token equality of types is equality                                                             *)

Lemma listN_eqb_spec : forall a b, listN_eqb a b = true <-> a = b.
Proof.
  induction a as [|x a IH]; destruct b as [|y b]; cbn [listN_eqb]; split; intro H; try congruence; try discriminate.
  - apply andb_true_iff in H. destruct H as [H1 H2]. apply N.eqb_eq in H1. apply IH in H2. congruence.
  - injection H as -> ->. apply andb_true_iff. split. apply N.eqb_refl. apply IH. reflexivity.
Qed.

Lemma optN_eqb_spec : forall a b, optN_eqb a b = true <-> a = b.
Proof.
  destruct a as [x|]; destruct b as [y|]; cbn [optN_eqb]; split; intro H; try congruence; try discriminate.
  - apply N.eqb_eq in H. congruence.
  - injection H as ->. apply N.eqb_refl.
Qed.

Lemma alen_eqb_spec : forall a b, alen_eqb a b = true <-> a = b.
Proof.
  destruct a as [x|x]; destruct b as [y|y]; cbn [alen_eqb]; split; intro H; try congruence; try discriminate.
  - apply N.eqb_eq in H. congruence.
  - injection H as ->. apply N.eqb_refl.
  - apply N.eqb_eq in H. congruence.
  - injection H as ->. apply N.eqb_refl.
Qed.

Lemma ty_eqb_spec : forall a b, ty_eqb a b = true <-> a = b.
Proof.
  induction a as [n|s|f IHf a IHa|lt m t IHt|t IHt|t IHt n|t IHt]; destruct b; cbn [ty_eqb];
    split; intro H; try congruence; try discriminate.
  - apply N.eqb_eq in H. congruence.
  - injection H as ->. apply N.eqb_refl.
  - apply listN_eqb_spec in H. congruence.
  - injection H as ->. apply listN_eqb_spec. reflexivity.
  - apply andb_true_iff in H. destruct H as [H1 H2]. apply IHf in H1. apply IHa in H2. congruence.
  - injection H as -> ->. apply andb_true_iff. split; [apply IHf|apply IHa]; reflexivity.
  - apply andb_true_iff in H. destruct H as [H12 H3]. apply andb_true_iff in H12. destruct H12 as [H1 H2].
    apply optN_eqb_spec in H1. apply Bool.eqb_prop in H2. apply IHt in H3. congruence.
  - injection H as -> -> ->. rewrite !andb_true_iff. repeat split.
    + apply optN_eqb_spec. reflexivity.
    + apply Bool.eqb_reflx.
    + apply IHt. reflexivity.
  - apply IHt in H. congruence.
  - injection H as ->. apply IHt. reflexivity.
  - apply andb_true_iff in H. destruct H as [H1 H2]. apply IHt in H1. apply alen_eqb_spec in H2. congruence.
  - injection H as -> ->. apply andb_true_iff. split; [apply IHt|apply alen_eqb_spec]; reflexivity.
  - apply IHt in H. congruence.
  - injection H as ->. apply IHt. reflexivity.
Qed.

Lemma ty_eqb_refl : forall a, ty_eqb a a = true.
Proof. intro a. apply ty_eqb_spec. reflexivity. Qed.

(* token equality implies equality after alias resolution, whatever [norm] is *)
Lemma token_eq_norm_eq : forall (norm : ty -> ty) a b, ty_eqb a b = true -> ty_eqb (norm a) (norm b) = true.
Proof. intros norm a b H. apply ty_eqb_spec in H. subst. apply ty_eqb_refl. Qed.

(* ------------------------------------------------------------------------------------------------ *)
(** * Selection through the `enabled` marks                                                           *)

Definition marks (metas : list meta_info) : list (option bool) := map mi_enabled metas.

Definition positive (ms : list (option bool)) (j : nat) : Prop := nth_error ms j = Some (Some true).
Definition ignored (ms : list (option bool)) (j : nat) : Prop := nth_error ms j = Some (Some false).
Definition unmarked (ms : list (option bool)) (j : nat) : Prop := nth_error ms j = Some None.

(* the field the attributes designate, as the property text and the docs say it:
   exactly one field carries a positive attribute and it is [i]; or no field carries a positive
   attribute, exactly one is not ignored, and it is [i] *)
Definition designated (ms : list (option bool)) (i : nat) : Prop :=
  (positive ms i /\ forall j, positive ms j -> j = i)
  \/ ((forall j, ~ positive ms j) /\ unmarked ms i /\ forall j, unmarked ms j -> j = i).

(* the shape on which the implementation refuses a designated field: the FIRST attributed field is an
   `ignore` (so unattributed fields stay enabled), yet another field is marked positively and a third one
   carries no attribute *)
Definition first_marked_is_ignore (ms : list (option bool)) : Prop :=
  exists k, ignored ms k /\ forall j, j < k -> unmarked ms j.

Definition blocked (ms : list (option bool)) : Prop :=
  first_marked_is_ignore ms /\ (exists p, positive ms p) /\ (exists u, unmarked ms u).

Definition enabled_at (d : bool) (ms : list (option bool)) (j : nat) : Prop :=
  exists m, nth_error ms j = Some m /\ unwrap_or m d = true.

Lemma mef_spec : forall ms k d x,
  In x (marks_enabled_from k d ms) <-> exists j, x = k + j /\ enabled_at d ms j.
Proof.
  induction ms as [|m ms IH]; intros k d x; cbn [marks_enabled_from].
  - split; [intros []|]. intros [j [_ [m [H _]]]]. destruct j; discriminate.
  - destruct (unwrap_or m d) eqn:E.
    + cbn [In]. rewrite IH. split.
      * intros [<-|[j [-> [m' [H1 H2]]]]].
        -- exists 0. split; [lia|]. exists m. split; [reflexivity|exact E].
        -- exists (S j). split; [lia|]. exists m'. split; assumption.
      * intros [j [-> [m' [H1 H2]]]]. destruct j as [|j].
        -- left. lia.
        -- right. exists j. split; [lia|]. exists m'. split; assumption.
    + rewrite IH. split.
      * intros [j [-> [m' [H1 H2]]]]. exists (S j). split; [lia|]. exists m'. split; assumption.
      * intros [j [-> [m' [H1 H2]]]]. destruct j as [|j].
        -- cbn in H1. injection H1 as <-. congruence.
        -- exists j. split; [lia|]. exists m'. split; assumption.
Qed.

Lemma mef_ge : forall ms k d x, In x (marks_enabled_from k d ms) -> k <= x.
Proof. intros ms k d x H. apply mef_spec in H. destruct H as [j [-> _]]. lia. Qed.

Lemma mef_nodup : forall ms k d, NoDup (marks_enabled_from k d ms).
Proof.
  induction ms as [|m ms IH]; intros k d; cbn [marks_enabled_from].
  - constructor.
  - destruct (unwrap_or m d).
    + constructor; [|apply IH]. intro H. apply mef_ge in H. lia.
    + apply IH.
Qed.

Lemma singleton_iff : forall (l : list nat) i,
  NoDup l -> (l = [i] <-> In i l /\ forall j, In j l -> j = i).
Proof.
  intros l i ND. split.
  - intros ->. split; [left; reflexivity|]. intros j [<-|[]]. reflexivity.
  - intros [Hin Hall]. destruct l as [|a l]; [destruct Hin|].
    assert (a = i) by (apply Hall; left; reflexivity). subst a.
    destruct l as [|b l]; [reflexivity|].
    assert (b = i) by (apply Hall; right; left; reflexivity). subst b.
    inversion ND as [|? ? Hn _]. exfalso. apply Hn. left. reflexivity.
Qed.

(* what the code does, restated: exactly one field is enabled under the computed default *)
Lemma select_idx_exactly_one : forall se ms i,
  select_idx se ms = Some i <->
  enabled_at (marks_default se ms) ms i /\ forall j, enabled_at (marks_default se ms) ms j -> j = i.
Proof.
  intros se ms i. unfold select_idx.
  set (d := marks_default se ms).
  assert (S1 : marks_enabled_from 0 d ms = [i] <->
               enabled_at d ms i /\ forall j, enabled_at d ms j -> j = i).
  { rewrite (singleton_iff _ i (mef_nodup ms 0 d)). split.
    - intros [Hin Hall]. split.
      + apply mef_spec in Hin. destruct Hin as [j [-> H]]. exact H.
      + intros j Hj. apply Hall. apply mef_spec. exists j. split; [reflexivity|exact Hj].
    - intros [Hi Hall]. split.
      + apply mef_spec. exists i. split; [reflexivity|exact Hi].
      + intros j Hj. apply mef_spec in Hj. destruct Hj as [j' [-> H]]. apply Hall. exact H. }
  destruct (marks_enabled_from 0 d ms) as [|a [|b l]] eqn:E.
  - split; [discriminate|]. intro H. apply S1 in H. discriminate.
  - split.
    + intro H. injection H as ->. apply S1. reflexivity.
    + intro H. apply S1 in H. congruence.
  - split; [discriminate|]. intro H. apply S1 in H. discriminate.
Qed.

(* the first element satisfying a predicate *)
Lemma find_first : forall (X : Type) (p : X -> bool) (l : list X) x,
  find p l = Some x ->
  exists k, nth_error l k = Some x /\ p x = true /\
            forall j, j < k -> exists y, nth_error l j = Some y /\ p y = false.
Proof.
  induction l as [|a l IH]; intros x H; cbn [find] in H; [discriminate|].
  destruct (p a) eqn:E.
  - injection H as <-. exists 0. repeat split; [exact E|]. intros j Hj. lia.
  - apply IH in H. destruct H as [k [H1 [H2 H3]]]. exists (S k). repeat split; [exact H1|exact H2|].
    intros j Hj. destruct j as [|j].
    + exists a. split; [reflexivity|exact E].
    + apply H3. lia.
Qed.

Lemma find_none_nth : forall (X : Type) (p : X -> bool) (l : list X) j y,
  find p l = None -> nth_error l j = Some y -> p y = false.
Proof.
  intros X p l j y H1 H2. apply nth_error_In in H2. exact (find_none p l H1 y H2).
Qed.

Definition is_marked (m : option bool) : bool := negb (is_none m).

(* default = false exactly when the first attributed field is marked positively (no struct attribute) *)
Lemma marks_default_false : forall ms,
  marks_default None ms = false <-> exists k, positive ms k /\ forall j, j < k -> unmarked ms j.
Proof.
  intro ms. unfold marks_default. cbn [unwrap_or].
  destruct (find (fun m => negb (is_none m)) ms) as [m|] eqn:F.
  - apply find_first in F. destruct F as [k [H1 [H2 H3]]].
    destruct m as [b|]; [|discriminate]. cbn [unwrap_or].
    split.
    + intro Hb. destruct b; [|discriminate]. exists k. split; [exact H1|].
      intros j Hj. destruct (H3 j Hj) as [y [Hy1 Hy2]]. destruct y; [discriminate|exact Hy1].
    + intros [k' [Hp Hu]]. unfold positive in Hp.
      destruct (Nat.lt_trichotomy k k') as [L|[->|L]].
      * apply Hu in L. unfold unmarked in L. congruence.
      * rewrite H1 in Hp. injection Hp as ->. reflexivity.
      * destruct (H3 k' L) as [y [Hy1 Hy2]]. rewrite Hp in Hy1. injection Hy1 as <-. discriminate.
  - split; [discriminate|]. intros [k [Hp _]]. unfold positive in Hp.
    pose proof (find_none_nth _ _ _ _ _ F Hp) as C. discriminate.
Qed.

Lemma marks_default_true : forall ms,
  marks_default None ms = true <-> (forall j m, nth_error ms j = Some m -> m = None) \/ first_marked_is_ignore ms.
Proof.
  intro ms. unfold marks_default. cbn [unwrap_or].
  destruct (find (fun m => negb (is_none m)) ms) as [m|] eqn:F.
  - apply find_first in F. destruct F as [k [H1 [H2 H3]]].
    destruct m as [b|]; [|discriminate]. cbn [unwrap_or].
    split.
    + intro Hb. destruct b; [discriminate|]. right. exists k. split; [exact H1|].
      intros j Hj. destruct (H3 j Hj) as [y [Hy1 Hy2]]. destruct y; [discriminate|exact Hy1].
    + intros [Hall|[k' [Hp Hu]]].
      * apply Hall in H1. discriminate.
      * unfold ignored in Hp.
        destruct (Nat.lt_trichotomy k k') as [L|[->|L]].
        -- apply Hu in L. unfold unmarked in L. congruence.
        -- rewrite H1 in Hp. injection Hp as ->. reflexivity.
        -- destruct (H3 k' L) as [y [Hy1 Hy2]]. rewrite Hp in Hy1. injection Hy1 as <-. discriminate.
  - split; [|reflexivity]. intros _. left. intros j m Hm.
    pose proof (find_none_nth _ _ _ _ _ F Hm) as C. destruct m; [discriminate|reflexivity].
Qed.

(* SOUNDNESS (any struct-level attribute): whenever a field is selected, it is the designated one *)
Lemma selection_sound : forall se ms i, select_idx se ms = Some i -> designated ms i.
Proof.
  intros se ms i H. apply select_idx_exactly_one in H. set (d := marks_default se ms) in *.
  destruct H as [[m [Hm He]] Hall].
  destruct m as [[|]|]; cbn [unwrap_or] in He.
  - left. split; [exact Hm|]. intros j Hj. apply Hall. exists (Some true). split; [exact Hj|reflexivity].
  - discriminate.
  - right. repeat split.
    + intros j Hj. assert (j = i) by (apply Hall; exists (Some true); split; [exact Hj|reflexivity]).
      subst j. unfold positive in Hj. congruence.
    + exact Hm.
    + intros j Hj. apply Hall. exists None. split; [exact Hj|exact He].
Qed.

(* COMPLETENESS holds exactly outside the [blocked] shape (no struct-level attribute) *)
Lemma selection_iff : forall ms i,
  select_idx None ms = Some i <-> designated ms i /\ ~ blocked ms.
Proof.
  intros ms i. split.
  - intro H. split; [eapply selection_sound; exact H|].
    intros [Hf [[p Hp] [u Hu]]].
    apply select_idx_exactly_one in H. destruct H as [_ Hall].
    assert (D : marks_default None ms = true) by (apply marks_default_true; right; exact Hf).
    rewrite D in Hall.
    assert (p = i) by (apply Hall; exists (Some true); split; [exact Hp|reflexivity]).
    assert (u = i) by (apply Hall; exists None; split; [exact Hu|reflexivity]).
    subst. unfold positive, unmarked in *. congruence.
  - intros [Hd Hnb]. apply select_idx_exactly_one.
    destruct (marks_default None ms) eqn:D.
    + destruct Hd as [[Hp Huniq]|[Hnp [Hu Huniq]]].
      * split; [exists (Some true); split; [exact Hp|reflexivity]|].
        intros j [m [Hm He]]. destruct m as [[|]|]; cbn [unwrap_or] in He.
        -- apply Huniq. exact Hm.
        -- discriminate.
        -- exfalso. apply Hnb. apply marks_default_true in D. destruct D as [Dall|Df].
           ++ apply Dall in Hp. discriminate.
           ++ split; [exact Df|]. split; [exists i; exact Hp|exists j; exact Hm].
      * split; [exists None; split; [exact Hu|reflexivity]|].
        intros j [m [Hm He]]. destruct m as [[|]|]; cbn [unwrap_or] in He.
        -- exfalso. exact (Hnp j Hm).
        -- discriminate.
        -- apply Huniq. exact Hm.
    + apply marks_default_false in D. destruct D as [k [Hk Hbefore]].
      destruct Hd as [[Hp Huniq]|[Hnp _]].
      * split; [exists (Some true); split; [exact Hp|reflexivity]|].
        intros j [m [Hm He]]. destruct m as [[|]|]; cbn [unwrap_or] in He; try discriminate.
        apply Huniq. exact Hm.
      * exfalso. exact (Hnp k Hk).
Qed.

(* ... and is false in general: a designated field that the implementation refuses *)
Lemma selection_complete_refuted :
  exists ms i, designated ms i /\ select_idx None ms = None.
Proof.
  exists [Some false; Some true; None], 1. split; [|reflexivity].
  left. split; [reflexivity|].
  intros j Hj. destruct j as [|[|[|j]]]; cbn in Hj; try discriminate; try reflexivity.
  destruct j; discriminate.
Qed.

(* the same with a struct-level attribute (e.g. `#[deref(forward)] struct S(#[deref] A, A)`) *)
Lemma selection_struct_attr_refuted :
  exists ms i, designated ms i /\ select_idx None ms = Some i /\ select_idx (Some true) ms = None.
Proof.
  exists [Some true; None], 0. split; [|split; reflexivity].
  left. split; [reflexivity|].
  intros j Hj. destruct j as [|[|j]]; cbn in Hj; try discriminate; try reflexivity.
  destruct j; discriminate.
Qed.

(* ------------------------------------------------------------------------------------------------ *)
(** * [select] (attribute syntax) against [select_idx] (marks)                                        *)

Lemma first_match_marks : forall metas,
  option_map mi_enabled (first_match metas) = find (fun m => negb (is_none m)) (marks metas).
Proof.
  induction metas as [|a l IH]; [reflexivity|].
  unfold first_match, marks in *. cbn [find map].
  destruct (negb (is_none (mi_enabled a))); [reflexivity|exact IH].
Qed.

Lemma default_enabled_marks : forall sm metas,
  fi_enabled (defaults_of sm metas) = marks_default (mi_enabled sm) (marks metas).
Proof.
  intros sm metas. unfold defaults_of, into_full, marks_default. cbn [fi_enabled].
  f_equal. unfold default_enabled. rewrite <- first_match_marks.
  destruct (first_match metas); reflexivity.
Qed.

Lemma enabled_from_marks : forall metas d k,
  map fst (enabled_from k (map (fun i => into_full i d) metas))
  = marks_enabled_from k (fi_enabled d) (marks metas).
Proof.
  induction metas as [|a l IH]; intros d k; [reflexivity|].
  unfold marks in *. cbn [map enabled_from marks_enabled_from].
  unfold into_full at 1. cbn [fi_enabled].
  destruct (unwrap_or (mi_enabled a) (fi_enabled d)); cbn [map fst]; rewrite IH; reflexivity.
Qed.

Lemma enabled_from_nth : forall l k x info,
  In (x, info) (enabled_from k l) -> exists j, x = k + j /\ nth_error l j = Some info /\ fi_enabled info = true.
Proof.
  induction l as [|a l IH]; intros k x info H; cbn [enabled_from] in H; [destruct H|].
  destruct (fi_enabled a) eqn:E.
  - destruct H as [H|H].
    + injection H as <- <-. exists 0. repeat split; [lia|exact E].
    + apply IH in H. destruct H as [j [-> [H1 H2]]]. exists (S j). repeat split; [lia|exact H1|exact H2].
  - apply IH in H. destruct H as [j [-> [H1 H2]]]. exists (S j). repeat split; [lia|exact H1|exact H2].
Qed.

(* the result of [select], once the attributes parse *)
Lemma select_spec : forall allowed sattrs fattrs sm metas,
  get_meta_info allowed sattrs = inr sm ->
  collect_metas allowed fattrs = inr metas ->
  match select_idx (mi_enabled sm) (marks metas) with
  | Some i => exists info, select allowed sattrs fattrs = inr (i, info)
                           /\ nth_error (full_infos sm metas) i = Some info
  | None => select allowed sattrs fattrs = inl DOneField
  end.
Proof.
  intros allowed sattrs fattrs sm metas H1 H2. unfold select. rewrite H1, H2.
  unfold assert_single, select_idx, enabled_fields.
  pose proof (enabled_from_marks metas (defaults_of sm metas) 0) as M.
  rewrite default_enabled_marks in M. fold (full_infos sm metas) in M.
  destruct (enabled_from 0 (full_infos sm metas)) as [|[x info] [|b l]] eqn:E; cbn [map fst] in M; rewrite <- M.
  - reflexivity.
  - exists info. split; [reflexivity|].
    assert (Hin : In (x, info) (enabled_from 0 (full_infos sm metas))) by (rewrite E; left; reflexivity).
    apply enabled_from_nth in Hin. destruct Hin as [j [-> [Hn _]]]. exact Hn.
  - reflexivity.
Qed.

(* a diagnostic is one of the two modelled kinds and a selection is always a designated field *)
Lemma select_sound : forall allowed sattrs fattrs i info,
  select allowed sattrs fattrs = inr (i, info) ->
  exists sm metas, get_meta_info allowed sattrs = inr sm /\ collect_metas allowed fattrs = inr metas
                   /\ designated (marks metas) i
                   /\ nth_error (full_infos sm metas) i = Some info.
Proof.
  intros allowed sattrs fattrs i info H.
  destruct (get_meta_info allowed sattrs) as [d|sm] eqn:H1; [unfold select in H; rewrite H1 in H; discriminate|].
  destruct (collect_metas allowed fattrs) as [d|metas] eqn:H2; [unfold select in H; rewrite H1, H2 in H; discriminate|].
  exists sm, metas. split; [reflexivity|]. split; [reflexivity|].
  pose proof (select_spec _ _ _ _ _ H1 H2) as S.
  destruct (select_idx (mi_enabled sm) (marks metas)) as [k|] eqn:E.
  - destruct S as [info' [S1 S2]]. rewrite H in S1. injection S1 as <- <-.
    split; [eapply selection_sound; exact E|exact S2].
  - rewrite H in S. discriminate.
Qed.

(* how the mark of a field follows from its attribute *)
Definition is_ignore (p : param) : bool := match p with PIgnore => true | _ => false end.

Lemma apply_params_enabled : forall allowed ps i i',
  apply_params allowed i ps = Some i' ->
  mi_enabled i' = if existsb is_ignore ps then Some false else mi_enabled i.
Proof.
  induction ps as [|p ps IH]; intros i i' H; cbn [apply_params] in H.
  - injection H as <-. reflexivity.
  - destruct (apply_param allowed i p) as [i1|] eqn:E; [|discriminate].
    apply IH in H. rewrite H. cbn [existsb].
    destruct p; cbn [apply_param] in E;
      match type of E with (if ?c then _ else _) = _ => destruct c; [|discriminate] | _ => try discriminate end;
      injection E as <-; cbn [is_ignore mi_enabled orb]; try reflexivity.
    destruct (existsb is_ignore ps); reflexivity.
Qed.

Lemma get_meta_info_mark : forall allowed attrs mi,
  get_meta_info allowed attrs = inr mi ->
  mi_enabled mi = match attrs with
                  | [] => None
                  | [AList ps] => if existsb is_ignore ps then Some false else Some true
                  | _ => Some true
                  end.
Proof.
  intros allowed attrs mi H. unfold get_meta_info in H.
  destruct attrs as [|a rest]; [injection H as <-; reflexivity|].
  destruct allowed as [|k allowed]; [discriminate|].
  destruct rest; [|discriminate].
  destruct a.
  - destruct (allowed_has KIgnore (k :: allowed)); [|discriminate]. injection H as <-. reflexivity.
  - destruct (apply_params (k :: allowed) mi_present ps) as [i|] eqn:E; [|discriminate].
    injection H as <-. apply apply_params_enabled in E. exact E.
  - discriminate.
Qed.

(* ------------------------------------------------------------------------------------------------ *)
(** * Bodies                                                                                           *)

Section Bodies.
  Variable A : Type.
  Variable field_impl : trait -> refkind -> ty -> arg -> bool -> A.
  Variable norm : ty -> ty.
  Notation ev := (eval A field_impl norm).

  Lemma eval_addr : forall m i, ev (addr m (EField i)) = Some (RArg (AAddr m i)).
  Proof. intros [|] i; reflexivity. Qed.

  (* without `forward`: a reference to the field's own storage *)
  Lemma deref_direct : forall m info i fty,
    fi_forward info = false ->
    im_field (deref_impl m info i fty) = i
    /\ im_body (deref_impl m info i fty) = addr m (EField i)
    /\ ev (im_body (deref_impl m info i fty)) = Some (RArg (AAddr m i))
    /\ (m = false -> im_assoc (deref_impl m info i fty) = [AsTy fty]).
  Proof.
    intros m info i fty H. unfold deref_impl. rewrite H. cbn [im_field im_body im_assoc].
    repeat split; [apply eval_addr|]. intros ->. reflexivity.
  Qed.

  (* with `forward`: precisely the field type's own impl, applied to the field's address *)
  Lemma deref_forward : forall m info i fty,
    fi_forward info = true ->
    im_field (deref_impl m info i fty) = i
    /\ ev (im_body (deref_impl m info i fty))
       = Some (RImpl (field_impl (if m then TrDerefMut else TrDeref) RNo fty (AAddr m i) false)).
  Proof.
    intros m info i fty H. unfold deref_impl. rewrite H. cbn [im_field im_body].
    split; [reflexivity|]. cbn [eval]. destruct m; reflexivity.
  Qed.

  Lemma index_forward : forall m i fty,
    im_field (index_impl m i fty) = i
    /\ ev (im_body (index_impl m i fty))
       = Some (RImpl (field_impl (if m then TrIndexMut else TrIndex) RNo fty (AAddr m i) true)).
  Proof. intros m i fty. unfold index_impl. cbn [im_field im_body]. split; [reflexivity|]. destruct m; reflexivity. Qed.

  Definition arg_of (rk : refkind) (i : nat) : arg :=
    match rk with RNo => APlace i | RRef => AAddr false i | RMut => AAddr true i end.

  Lemma iter_forward : forall rk i fty,
    im_field (iter_impl rk i fty) = i /\ im_self (iter_impl rk i fty) = rk
    /\ ev (im_body (iter_impl rk i fty)) = Some (RImpl (field_impl TrIntoIter rk fty (arg_of rk i) false)).
  Proof. intros rk i fty. repeat split. destruct rk; reflexivity. Qed.

  (* writes through the mutable form land in the selected field and nowhere else *)
  Variable V : Type.

  Lemma upd_nth_same : forall (st : list V) i v, i < length st -> nth_error (upd V st i v) i = Some v.
  Proof.
    induction st as [|x st IH]; intros i v H; cbn [length] in H; [lia|].
    destruct i; cbn [upd nth_error]; [reflexivity|]. apply IH. lia.
  Qed.

  Lemma upd_nth_other : forall (st : list V) i j v, i <> j -> nth_error (upd V st i v) j = nth_error st j.
  Proof.
    induction st as [|x st IH]; intros i j v H; [destruct i; reflexivity|].
    destruct i; destruct j; cbn [upd nth_error]; try reflexivity; [congruence|]. apply IH. congruence.
  Qed.

  Lemma upd_length : forall (st : list V) i v, length (upd V st i v) = length st.
  Proof. induction st as [|x st IH]; intros i v; [destruct i; reflexivity|]. destruct i; cbn [upd length]; [reflexivity|]. rewrite IH. reflexivity. Qed.

  Lemma deref_mut_writes_through : forall info i fty (st : list V) v,
    fi_forward info = false -> i < length st ->
    exists st', write A V st (ev (im_body (deref_impl true info i fty))) v = Some st'
                /\ nth_error st' i = Some v
                /\ (forall j, j <> i -> nth_error st' j = nth_error st j)
                /\ read A V st' (ev (im_body (deref_impl false info i fty))) = Some v.
  Proof.
    intros info i fty st v Hf Hi.
    destruct (deref_direct true info i fty Hf) as [_ [_ [E _]]].
    destruct (deref_direct false info i fty Hf) as [_ [_ [E' _]]].
    rewrite E, E'. unfold write, read.
    apply Nat.ltb_lt in Hi. rewrite Hi. apply Nat.ltb_lt in Hi.
    exists (upd V st i v). repeat split.
    - apply upd_nth_same. exact Hi.
    - intros j Hj. apply upd_nth_other. congruence.
    - apply upd_nth_same. exact Hi.
  Qed.

  (* AsRef / AsMut: identity or the field's own impl *)
  Definition identity_cond (g : generics) (fty : ty) (t : target) : bool :=
    match t with
    | TgBlanket => false
    | TgTy r => ty_eqb fty r || (negb (any_in g fty || any_in g r) && ty_eqb (norm fty) (norm r))
    end.

  Lemma as_result : forall g m i fty t,
    im_field (as_impl g m i fty t) = i
    /\ ev (im_body (as_impl g m i fty t))
       = Some (if identity_cond g fty t then RArg (AAddr m i)
               else RImpl (field_impl (TrAs m t) RNo fty (AAddr m i) false)).
  Proof.
    intros g m i fty t. split; [reflexivity|].
    unfold as_impl. cbn [im_body]. destruct t as [|r].
    - cbn [as_kind_of identity_cond as_body eval]. rewrite eval_addr. reflexivity.
    - cbn [as_kind_of identity_cond]. unfold as_impl_kind.
      destruct (ty_eqb fty r) eqn:E1; cbn [orb as_body].
      + apply eval_addr.
      + destruct (any_in g fty || any_in g r) eqn:E2; cbn [negb andb as_body eval target_ty].
        * rewrite eval_addr. reflexivity.
        * rewrite eval_addr. unfold extract_resolve, extract_candidates. cbn [find snd].
          destruct (ty_eqb (norm fty) (norm r)); reflexivity.
  Qed.

  (* a listed type that IS the field's type (after alias resolution), generics not involved or the
     spelling identical: the field itself, not a forwarded call *)
  Lemma as_identity : forall g m i fty rty,
    ty_eqb (norm fty) (norm rty) = true ->
    (ty_eqb fty rty = true \/ (any_in g fty = false /\ any_in g rty = false)) ->
    ev (im_body (as_impl g m i fty (TgTy rty))) = Some (RArg (AAddr m i)).
  Proof.
    intros g m i fty rty Hn Hc. destruct (as_result g m i fty (TgTy rty)) as [_ E]. rewrite E.
    cbn [identity_cond]. destruct Hc as [Ht|[G1 G2]].
    - rewrite Ht. reflexivity.
    - rewrite G1, G2, Hn. cbn [orb negb andb]. rewrite orb_true_r. reflexivity.
  Qed.

  (* the implicit target (no attribute / bare `#[as_ref]`) is the field's type: always the field itself *)
  Lemma as_default_identity : forall g m i fty t,
    In t (as_targets None fty) -> ev (im_body (as_impl g m i fty t)) = Some (RArg (AAddr m i)).
  Proof.
    intros g m i fty t [<-|[]]. destruct (as_result g m i fty (TgTy fty)) as [_ E]. rewrite E.
    cbn [identity_cond]. rewrite ty_eqb_refl. reflexivity.
  Qed.

  (* `forward` (blanket) and every listed type that is another type: the field's own impl *)
  Lemma as_forward : forall g m i fty t,
    identity_cond g fty t = false ->
    ev (im_body (as_impl g m i fty t)) = Some (RImpl (field_impl (TrAs m t) RNo fty (AAddr m i) false)).
  Proof. intros g m i fty t H. destruct (as_result g m i fty t) as [_ E]. rewrite E, H. reflexivity. Qed.

  Lemma as_blanket_forward : forall g m i fty,
    ev (im_body (as_impl g m i fty TgBlanket)) = Some (RImpl (field_impl (TrAs m TgBlanket) RNo fty (AAddr m i) false)).
  Proof. intros. apply as_forward. reflexivity. Qed.
End Bodies.

(* ------------------------------------------------------------------------------------------------ *)
(** * The State-based derives end to end                                                              *)

Definition expected (A : Type) (field_impl : trait -> refkind -> ty -> arg -> bool -> A)
           (d : dkind) (info : full_info) (fty : ty) (i : nat) (im : impl) : result A :=
  match d with
  | DDeref => if fi_forward info then RImpl (field_impl TrDeref RNo fty (AAddr false i) false) else RArg (AAddr false i)
  | DDerefMut => if fi_forward info then RImpl (field_impl TrDerefMut RNo fty (AAddr true i) false) else RArg (AAddr true i)
  | DIndex => RImpl (field_impl TrIndex RNo fty (AAddr false i) true)
  | DIndexMut => RImpl (field_impl TrIndexMut RNo fty (AAddr true i) true)
  | DIntoIter => RImpl (field_impl TrIntoIter (im_self im) fty (arg_of (im_self im) i) false)
  end.

Lemma derive_state_delegates : forall A field_impl norm d sattrs fields ims,
  derive_state d sattrs fields = inr ims ->
  exists sm metas i info,
    get_meta_info (allowed_of d) sattrs = inr sm
    /\ collect_metas (allowed_of d) (map snd fields) = inr metas
    /\ designated (marks metas) i
    /\ nth_error (full_infos sm metas) i = Some info
    /\ forall im, In im ims ->
         im_field im = i
         /\ eval A field_impl norm (im_body im) = Some (expected A field_impl d info (field_ty fields i) i im).
Proof.
  intros A fi norm d sattrs fields ims H. unfold derive_state in H.
  destruct (select (allowed_of d) sattrs (map snd fields)) as [e|[i info]] eqn:S; [discriminate|].
  injection H as <-.
  destruct (select_sound _ _ _ _ _ S) as [sm [metas [H1 [H2 [H3 H4]]]]].
  exists sm, metas, i, info. repeat split; try assumption.
  - destruct d; cbn [In] in H; try (destruct H as [<-|[]]).
    + unfold deref_impl. destruct (fi_forward info); reflexivity.
    + unfold deref_impl. destruct (fi_forward info); reflexivity.
    + reflexivity.
    + reflexivity.
    + apply in_map_iff in H. destruct H as [rk [<- _]]. reflexivity.
  - destruct d; cbn [In] in H; try (destruct H as [<-|[]]); cbn [expected].
    + destruct (fi_forward info) eqn:F.
      * destruct (deref_forward A fi norm false info i (field_ty fields i) F) as [_ E]. exact E.
      * destruct (deref_direct A fi norm false info i (field_ty fields i) F) as [_ [_ [E _]]]. exact E.
    + destruct (fi_forward info) eqn:F.
      * destruct (deref_forward A fi norm true info i (field_ty fields i) F) as [_ E]. exact E.
      * destruct (deref_direct A fi norm true info i (field_ty fields i) F) as [_ [_ [E _]]]. exact E.
    + destruct (index_forward A fi norm false i (field_ty fields i)) as [_ E]. exact E.
    + destruct (index_forward A fi norm true i (field_ty fields i)) as [_ E]. exact E.
    + apply in_map_iff in H. destruct H as [rk [<- _]].
      destruct (iter_forward A fi norm rk i (field_ty fields i)) as [_ [Hs E]]. rewrite Hs. exact E.
Qed.

(* zero or several enabled fields: the panic_one_field diagnostic (given attributes that parse) *)
Lemma derive_state_diag : forall d sattrs fields sm metas,
  get_meta_info (allowed_of d) sattrs = inr sm ->
  collect_metas (allowed_of d) (map snd fields) = inr metas ->
  select_idx (mi_enabled sm) (marks metas) = None ->
  derive_state d sattrs fields = inl DOneField.
Proof.
  intros d sattrs fields sm metas H1 H2 H3. unfold derive_state.
  pose proof (select_spec _ _ _ _ _ H1 H2) as S. rewrite H3 in S. rewrite S. reflexivity.
Qed.

(* IntoIterator: one impl per requested reference kind, all on the same field *)
Lemma iter_impl_set : forall sattrs fields ims,
  derive_state DIntoIter sattrs fields = inr ims ->
  exists i info, select allowed_iter sattrs (map snd fields) = inr (i, info)
    /\ map im_self ims = ref_types info
    /\ forall im, In im ims -> im = iter_impl (im_self im) i (field_ty fields i).
Proof.
  intros sattrs fields ims H. unfold derive_state in H. cbn [allowed_of] in H.
  destruct (select allowed_iter sattrs (map snd fields)) as [e|[i info]] eqn:S; [discriminate|].
  injection H as <-. exists i, info. split; [reflexivity|]. split.
  - rewrite map_map. cbn [iter_impl im_self]. apply map_id.
  - intros im Him. apply in_map_iff in Him. destruct Him as [rk [<- _]]. reflexivity.
Qed.

(* the owned, shared and mutable forms visit the same elements in the same order, provided the field
   type's own three IntoIterator impls do so on that one field *)
Lemma iter_same_elements : forall A (field_impl : trait -> refkind -> ty -> arg -> bool -> A) norm
                                  (E : Type) (elems : A -> list E) i fty,
  (forall rk, elems (field_impl TrIntoIter rk fty (arg_of rk i) false)
              = elems (field_impl TrIntoIter RNo fty (APlace i) false)) ->
  forall rk1 rk2 x1 x2,
    eval A field_impl norm (im_body (iter_impl rk1 i fty)) = Some (RImpl x1) ->
    eval A field_impl norm (im_body (iter_impl rk2 i fty)) = Some (RImpl x2) ->
    elems x1 = elems x2.
Proof.
  intros A fi norm E elems i fty Hc rk1 rk2 x1 x2 H1 H2.
  destruct (iter_forward A fi norm rk1 i fty) as [_ [_ E1]].
  destruct (iter_forward A fi norm rk2 i fty) as [_ [_ E2]].
  rewrite E1 in H1. rewrite E2 in H2. injection H1 as <-. injection H2 as <-.
  rewrite (Hc rk1), (Hc rk2). reflexivity.
Qed.

(* ------------------------------------------------------------------------------------------------ *)
(** * AsRef / AsMut: which impls exist                                                                *)

Lemma expansions_all_spec : forall fields attrs k i t c,
  In (i, t, c) (expansions_all k fields attrs) <->
  exists j fa, i = k + j /\ nth_error fields j = Some (t, fa) /\ nth_error attrs j = Some None /\ c = None.
Proof.
  induction fields as [|[t0 fa0] fr IH]; intros attrs k i t c.
  - cbn [expansions_all]. split; [intros []|]. intros [j [fa [_ [H _]]]]. destruct j; discriminate.
  - destruct attrs as [|a ar].
    + cbn [expansions_all]. split; [intros []|]. intros [j [fa [_ [_ [H _]]]]]. destruct j; discriminate.
    + cbn [expansions_all]. destruct a as [a|].
      * rewrite IH. split.
        -- intros [j [fa [-> [H1 [H2 H3]]]]]. exists (S j), fa. repeat split; [lia|exact H1|exact H2|exact H3].
        -- intros [j [fa [-> [H1 [H2 H3]]]]]. destruct j as [|j]; [discriminate|].
           exists j, fa. repeat split; [lia|exact H1|exact H2|exact H3].
      * cbn [In]. rewrite IH. split.
        -- intros [H|[j [fa [-> [H1 [H2 H3]]]]]].
           ++ injection H as <- <- <-. exists 0, fa0. repeat split. lia.
           ++ exists (S j), fa. repeat split; [lia|exact H1|exact H2|exact H3].
        -- intros [j [fa [-> [H1 [H2 H3]]]]]. destruct j as [|j].
           ++ left. cbn in H1. injection H1 as <- <-. subst c. f_equal. f_equal. lia.
           ++ right. exists j, fa. repeat split; [lia|exact H1|exact H2|exact H3].
Qed.

Lemma expansions_marked_spec : forall fields attrs k i t c,
  In (i, t, c) (expansions_marked k fields attrs) <->
  exists j fa a, i = k + j /\ nth_error fields j = Some (t, fa) /\ nth_error attrs j = Some (Some a)
                 /\ a <> FSkip /\ c = conv_of a.
Proof.
  induction fields as [|[t0 fa0] fr IH]; intros attrs k i t c.
  - cbn [expansions_marked]. split; [intros []|]. intros [j [fa [a [_ [H _]]]]]. destruct j; discriminate.
  - destruct attrs as [|a0 ar].
    + cbn [expansions_marked]. split; [intros []|]. intros [j [fa [a [_ [_ [H _]]]]]]. destruct j; discriminate.
    + assert (SKIP : In (i, t, c) (expansions_marked (S k) fr ar) <->
                     exists j fa a, i = k + j /\ nth_error ((t0, fa0) :: fr) j = Some (t, fa)
                                    /\ nth_error (a0 :: ar) j = Some (Some a) /\ a <> FSkip /\ c = conv_of a
                                    /\ j <> 0).
      { rewrite IH. split.
        - intros [j [fa [a [-> [H1 [H2 [H3 H4]]]]]]]. exists (S j), fa, a.
          repeat split; [lia|exact H1|exact H2|exact H3|exact H4|lia].
        - intros [j [fa [a [-> [H1 [H2 [H3 [H4 H5]]]]]]]]. destruct j as [|j]; [congruence|].
          exists j, fa, a. repeat split; [lia|exact H1|exact H2|exact H3|exact H4]. }
      destruct a0 as [[| | |tys|]|]; cbn [expansions_marked].
      all: try (cbn [In]; rewrite SKIP; split;
                [ intros [H|[j [fa [a [E [H1 [H2 [H3 [H4 _]]]]]]]]];
                  [ injection H as <- <- <-; eexists 0, fa0, _; repeat split; [lia|discriminate]
                  | exists j, fa, a; repeat split; assumption ]
                | intros [j [fa [a [-> [H1 [H2 [H3 H4]]]]]]]; destruct j as [|j];
                  [ left; cbn in H1, H2; injection H1 as <- <-; injection H2 as <-; subst c; rewrite Nat.add_0_r; reflexivity
                  | right; exists (S j), fa, a; repeat split; try assumption; lia ] ]).
      * (* Some FSkip *)
        rewrite SKIP. split.
        -- intros [j [fa [a [E [H1 [H2 [H3 [H4 _]]]]]]]]. exists j, fa, a. repeat split; assumption.
        -- intros [j [fa [a [-> [H1 [H2 [H3 H4]]]]]]]. destruct j as [|j].
           ++ cbn in H2. injection H2 as <-. congruence.
           ++ exists (S j), fa, a. repeat split; try assumption; lia.
      * (* None *)
        rewrite SKIP. split.
        -- intros [j [fa [a [E [H1 [H2 [H3 [H4 _]]]]]]]]. exists j, fa, a. repeat split; assumption.
        -- intros [j [fa [a [-> [H1 [H2 [H3 H4]]]]]]]. destruct j as [|j].
           ++ cbn in H2. discriminate.
           ++ exists (S j), fa, a. repeat split; try assumption; lia.
Qed.

(* the specification of "which fields get impls, with which conversions" (docs as_ref.md):
   - a struct-level attribute: the single field, with the listed conversions;
   - no attribute anywhere, or only `skip`s: every field without an attribute, its own type;
   - otherwise: every field with `#[as_ref]` / `#[as_ref(forward)]` / `#[as_ref(types)]`. *)
Definition as_selected (sattrs : list sattr_as) (fields : list (ty * list fattr_as)) (i : nat) (t : ty) (c : option conv) : Prop :=
  (exists sc fa, merge_sattrs None sattrs = inr (Some sc) /\ fields = [(t, fa)] /\ i = 0 /\ c = Some sc)
  \/ (merge_sattrs None sattrs = inr None /\
      exists attrs fa, collect_fattrs fields = inr attrs /\ nth_error fields i = Some (t, fa) /\
        ((forallb is_skip (somes attrs) = true /\ nth_error attrs i = Some None /\ c = None)
         \/ (forallb is_skip (somes attrs) = false /\
             exists a, nth_error attrs i = Some (Some a) /\ a <> FSkip /\ c = conv_of a))).

Lemma as_expansions_spec : forall sattrs fields es,
  as_expansions sattrs fields = inr es ->
  forall i t c, In (i, t, c) es <-> as_selected sattrs fields i t c.
Proof.
  intros sattrs fields es H i t c. unfold as_expansions in H. unfold as_selected.
  destruct (merge_sattrs None sattrs) as [d|[sc|]] eqn:M; [discriminate| |].
  - destruct fields as [|[t0 fa0] [|f2 fr]]; try discriminate.
    destruct (merge_fattrs None fa0) as [d|[x|]] eqn:MF; try discriminate.
    injection H as <-. split.
    + intros [H|[]]. injection H as <- <- <-. left. exists sc, fa0. repeat split.
    + intros [[sc' [fa [E1 [E2 [-> ->]]]]]|[E _]]; [|discriminate].
      injection E1 as <-. injection E2 as <- <-. left. reflexivity.
  - destruct (collect_fattrs fields) as [d|attrs] eqn:C; [discriminate|].
    destruct (forallb is_skip (somes attrs)) eqn:ALL.
    + injection H as <-. rewrite expansions_all_spec. split.
      * intros [j [fa [-> [H1 [H2 ->]]]]]. right. split; [reflexivity|].
        exists attrs, fa. split; [reflexivity|]. split; [rewrite Nat.add_0_l; exact H1|]. left.
        split; [exact ALL|]. split; [rewrite Nat.add_0_l; exact H2|reflexivity].
      * intros [[sc [fa [E _]]]|[_ [attrs' [fa [E1 [H1 [[_ [H2 ->]]|[E2 _]]]]]]]]; try discriminate.
        -- injection E1 as <-. exists i, fa. repeat split; assumption.
        -- injection E1 as <-. congruence.
    + destruct (existsb is_skip (somes attrs)); [discriminate|].
      injection H as <-. rewrite expansions_marked_spec. split.
      * intros [j [fa [a [-> [H1 [H2 [H3 ->]]]]]]]. right. split; [reflexivity|].
        exists attrs, fa. split; [reflexivity|]. split; [rewrite Nat.add_0_l; exact H1|]. right.
        split; [exact ALL|]. exists a. split; [rewrite Nat.add_0_l; exact H2|]. split; [exact H3|reflexivity].
      * intros [[sc [fa [E _]]]|[_ [attrs' [fa [E1 [H1 [[E2 _]|[_ [a [H2 [H3 ->]]]]]]]]]]]; try discriminate.
        -- injection E1 as <-. congruence.
        -- injection E1 as <-. exists i, fa, a. repeat split; assumption.
Qed.

(* the impl set: one impl per selected field and target, delegating to THAT field *)
Lemma derive_as_impl_set : forall g m sattrs fields ims,
  derive_as g m sattrs fields = inr ims ->
  forall im, In im ims <->
    exists i fty c t, as_selected sattrs fields i fty c /\ In t (as_targets c fty) /\ im = as_impl g m i fty t.
Proof.
  intros g m sattrs fields ims H im. unfold derive_as in H.
  destruct (as_expansions sattrs fields) as [d|es] eqn:E; [discriminate|]. injection H as <-.
  rewrite in_flat_map. split.
  - intros [[[i fty] c] [Hin Him]]. cbn [expansion_impls] in Him. apply in_map_iff in Him.
    destruct Him as [t [<- Ht]]. exists i, fty, c, t. split; [|split; [exact Ht|reflexivity]].
    apply (as_expansions_spec _ _ _ E). exact Hin.
  - intros [i [fty [c [t [Hs [Ht ->]]]]]]. exists (i, fty, c). split.
    + apply (as_expansions_spec _ _ _ E). exact Hs.
    + cbn [expansion_impls]. apply in_map. exact Ht.
Qed.

(* every AsRef/AsMut impl exposes its own field: identity or the field's own impl, never a neighbour *)
Lemma derive_as_delegates : forall A field_impl norm g m sattrs fields ims,
  derive_as g m sattrs fields = inr ims ->
  forall im, In im ims ->
    exists i fty c t, as_selected sattrs fields i fty c /\ In t (as_targets c fty)
      /\ im_field im = i /\ im_trait im = TrAs m t
      /\ eval A field_impl norm (im_body im)
         = Some (if identity_cond norm g fty t then RArg (AAddr m i)
                 else RImpl (field_impl (TrAs m t) RNo fty (AAddr m i) false)).
Proof.
  intros A fi norm g m sattrs fields ims H im Him.
  apply (derive_as_impl_set _ _ _ _ _ H) in Him. destruct Him as [i [fty [c [t [Hs [Ht ->]]]]]].
  exists i, fty, c, t. split; [exact Hs|]. split; [exact Ht|].
  destruct (as_result A fi norm g m i fty t) as [E1 E2]. repeat split; [exact E2].
Qed.

(* ------------------------------------------------------------------------------------------------ *)
(** * Non-vacuity: the hypotheses above are satisfiable and the interesting branches are inhabited     *)

Definition tyA : ty := TId 1%N.          (* `Fld` *)
Definition tyAlias : ty := TId 2%N.      (* `type Alias = Fld;` *)
Definition tyB : ty := TId 3%N.          (* `Inner` *)
Definition tyT : ty := TId 9%N.          (* the type parameter `T` *)
Definition tyVec (t : ty) : ty := TApp (TId 4%N) t.
Definition tyVecAlias (t : ty) : ty := TApp (TId 5%N) t.
Definition gT : generics := {| g_types := [9%N]; g_lifetimes := []; g_consts := [] |}.
Fixpoint norm_ex (t : ty) : ty :=
  match t with
  | TId 2%N => TId 1%N
  | TApp (TId 5%N) a => TApp (TId 4%N) (norm_ex a)
  | TApp f a => TApp (norm_ex f) (norm_ex a)
  | TParen t' => norm_ex t'
  | _ => t
  end.

(* `struct S(A, #[deref] A, A)`: the middle field, by address *)
Example ex_deref_middle :
  derive_state DDeref [] [(tyA, []); (tyA, [ABare]); (tyA, [])]
  = inr [{| im_trait := TrDeref; im_self := RNo; im_field := 1; im_assoc := [AsTy tyA]; im_body := ERef (EField 1) |}].
Proof. reflexivity. Qed.

(* `struct S(#[deref_mut(ignore)] A, A)` *)
Example ex_deref_mut_ignore :
  derive_state DDerefMut [] [(tyA, [AList [PIgnore]]); (tyA, [])]
  = inr [{| im_trait := TrDerefMut; im_self := RNo; im_field := 1; im_assoc := []; im_body := ERefMut (EField 1) |}].
Proof. reflexivity. Qed.

(* `#[deref(forward)] struct S(A, #[deref(ignore)] A)` *)
Example ex_deref_forward :
  derive_state DDeref [AList [PForward]] [(tyA, []); (tyA, [AList [PIgnore]])]
  = inr [{| im_trait := TrDeref; im_self := RNo; im_field := 0; im_assoc := [AsProj RNo tyA TrDeref];
            im_body := ECall RNo tyA TrDeref (ERef (EField 0)) false |}].
Proof. reflexivity. Qed.

(* two candidates / none: the diagnostic *)
Example ex_two_fields : derive_state DDeref [] [(tyA, []); (tyA, [])] = inl DOneField.
Proof. reflexivity. Qed.
Example ex_two_marked : derive_state DIndex [] [(tyA, [ABare]); (tyA, [ABare]); (tyA, [])] = inl DOneField.
Proof. reflexivity. Qed.
Example ex_no_field : derive_state DDeref [] [] = inl DOneField.
Proof. reflexivity. Qed.
Example ex_index_forward_rejected : derive_state DIndex [] [(tyA, [AList [PForward]])] = inl DSyn.
Proof. reflexivity. Qed.

(* the refutation witness of completeness, in attribute syntax: `struct S(#[deref(ignore)] A, #[deref] A, A)` *)
Example ex_blocked : derive_state DDeref [] [(tyA, [AList [PIgnore]]); (tyA, [ABare]); (tyA, [])] = inl DOneField.
Proof. reflexivity. Qed.
Example ex_blocked_is_blocked : blocked [Some false; Some true; None].
Proof.
  split; [|split].
  - exists 0. split; [reflexivity|]. intros j Hj. lia.
  - exists 1. reflexivity.
  - exists 2. reflexivity.
Qed.
(* the same fields in the other order are accepted *)
Example ex_not_blocked : derive_state DDeref [] [(tyA, [ABare]); (tyA, [AList [PIgnore]]); (tyA, [])]
  = inr [{| im_trait := TrDeref; im_self := RNo; im_field := 0; im_assoc := [AsTy tyA]; im_body := ERef (EField 0) |}].
Proof. reflexivity. Qed.

(* `struct S(A, #[into_iterator(owned, ref, ref_mut)] A)` *)
Example ex_iter_three :
  option_map (map (fun im => (im_self im, im_field im, im_body im)))
    (match derive_state DIntoIter [] [(tyA, []); (tyA, [AList [POwned; PRef; PRefMut]])] with inr l => Some l | inl _ => None end)
  = Some [ (RNo, 1, ECall RNo tyA TrIntoIter (EField 1) false);
           (RRef, 1, ECall RRef tyA TrIntoIter (ERef (EField 1)) false);
           (RMut, 1, ECall RMut tyA TrIntoIter (ERefMut (EField 1)) false) ].
Proof. reflexivity. Qed.

(* the coherence hypothesis of [iter_same_elements] is satisfiable (a field impl that ignores the ref kind) *)
Example ex_iter_hyp :
  let fi := fun (_ : trait) (_ : refkind) (_ : ty) (a : arg) (_ : bool) =>
              match a with APlace i | AAddr _ i => [i; i + 1] end in
  forall rk, id (fi TrIntoIter rk tyA (arg_of rk 1) false) = id (fi TrIntoIter RNo tyA (APlace 1) false).
Proof. intros fi rk. destruct rk; reflexivity. Qed.

(* AsRef: `struct S(A, #[as_ref(Alias, B, A)] A)` - Specialized (alias: identity), Specialized (other type:
   the field's own impl), Direct *)
Example ex_as_kinds :
  derive_as_kinds no_generics [] [(tyA, []); (tyA, [FTypes [tyAlias; tyB; tyA]])]
  = inr [(1, TgTy tyAlias, Specialized); (1, TgTy tyB, Specialized); (1, TgTy tyA, Direct)].
Proof. reflexivity. Qed.

Example ex_as_alias_identity :
  eval nat (fun _ _ _ _ _ => 0) norm_ex (im_body (as_impl no_generics false 1 tyA (TgTy tyAlias)))
  = Some (RArg (AAddr false 1)).
Proof. reflexivity. Qed.

Example ex_as_other_forwarded :
  eval nat (fun _ _ _ a _ => match a with AAddr _ i => 100 + i | APlace i => i end) norm_ex
       (im_body (as_impl no_generics true 1 tyA (TgTy tyB)))
  = Some (RImpl 101).
Proof. reflexivity. Qed.

(* generics: same spelling -> Direct; an alias of a generic type -> Forwarded (documented limitation) *)
Example ex_as_generic :
  derive_as_kinds gT [STypes [tyVec tyT; tyVecAlias tyT; tyB]] [(tyVec tyT, [])]
  = inr [(0, TgTy (tyVec tyT), Direct); (0, TgTy (tyVecAlias tyT), Forwarded); (0, TgTy tyB, Forwarded)].
Proof. reflexivity. Qed.

Example ex_as_generic_alias_not_identity :
  ty_eqb (norm_ex (tyVec tyT)) (norm_ex (tyVecAlias tyT)) = true
  /\ identity_cond norm_ex gT (tyVec tyT) (TgTy (tyVecAlias tyT)) = false.
Proof. split; reflexivity. Qed.

(* blanket forward, skip patterns, diagnostics *)
Example ex_as_forward :
  derive_as_kinds no_generics [SForward] [(tyA, [])] = inr [(0, TgBlanket, Forwarded)].
Proof. reflexivity. Qed.
Example ex_as_skip :
  derive_as_kinds no_generics [] [(tyA, [FSkip]); (tyA, []); (tyA, [FSkip])] = inr [(1, TgTy tyA, Direct)].
Proof. reflexivity. Qed.
Example ex_as_skip_mixed : derive_as no_generics false [] [(tyA, [FSkip]); (tyA, [FEmpty])] = inl DSyn.
Proof. reflexivity. Qed.
Example ex_as_struct_two_fields : derive_as no_generics false [SForward] [(tyA, []); (tyA, [])] = inl DSyn.
Proof. reflexivity. Qed.
Example ex_as_both_levels : derive_as no_generics false [SForward] [(tyA, [FEmpty])] = inl DSyn.
Proof. reflexivity. Qed.
Example ex_as_merge_types :
  derive_as_kinds no_generics [] [(tyA, [FTypes [tyA]; FTypes [tyB]])] = inr [(0, TgTy tyA, Direct); (0, TgTy tyB, Specialized)].
Proof. reflexivity. Qed.

(* GenericsSearch: the head of `T<..>` and the later segments of a qualified path are not looked at;
   `T::Assoc` (first segment a type parameter) is generic *)
Example ex_any_in :
  any_in gT (tyVec tyT) = true /\ any_in gT (TApp tyT tyA) = false /\ any_in gT (TQual [7%N; 9%N]) = false
  /\ any_in gT (TQual [9%N; 7%N]) = true /\ any_in gT (TApp (TQual [9%N; 7%N]) tyA) = true
  /\ any_in gT (TSlice tyT) = true /\ any_in gT (TRef None false (TParen tyT)) = true /\ any_in gT tyA = false.
Proof. repeat split; reflexivity. Qed.

(* ================================================================================================ *)
(** * Growth round                                                                                     *)

From Coq Require Import Permutation.

(* ------------------------------------------------------------------------------------------------ *)
(** ** The header-carrying derives refine the plain ones                                               *)

Lemma state_himpls_fst : forall d sg info i fty,
  map fst (state_himpls d sg info i fty)
  = match d with
    | DDeref => [deref_impl false info i fty]
    | DDerefMut => [deref_impl true info i fty]
    | DIndex => [index_impl false i fty]
    | DIndexMut => [index_impl true i fty]
    | DIntoIter => map (fun rk => iter_impl rk i fty) (ref_types info)
    end.
Proof. intros d sg info i fty. destruct d; cbn [state_himpls map fst]; try reflexivity. rewrite map_map. reflexivity. Qed.

Lemma derive_state_h_refines : forall d sg sattrs fields,
  derive_state d sattrs fields
  = match derive_state_h d sg sattrs fields with inl e => inl e | inr l => inr (map fst l) end.
Proof.
  intros d sg sattrs fields. unfold derive_state, derive_state_h.
  destruct (select (allowed_of d) sattrs (map snd fields)) as [e|[i info]]; [reflexivity|].
  rewrite state_himpls_fst. reflexivity.
Qed.

Lemma map_fst_flat_map : forall (X Y Z : Type) (f : X -> list (Y * Z)) (l : list X),
  map fst (flat_map f l) = flat_map (fun x => map fst (f x)) l.
Proof. induction l as [|a l IH]; [reflexivity|]. cbn [flat_map]. rewrite map_app, IH. reflexivity. Qed.

Lemma derive_as_h_refines : forall sg m sattrs fields,
  derive_as (generics_of sg) m sattrs fields
  = match derive_as_h sg m sattrs fields with inl e => inl e | inr l => inr (map fst l) end.
Proof.
  intros sg m sattrs fields. unfold derive_as, derive_as_h.
  destruct (as_expansions sattrs fields) as [e|es]; [reflexivity|]. f_equal.
  rewrite map_fst_flat_map. apply flat_map_ext. intros [[i fty] c]. cbn [expansion_impls].
  rewrite map_map. reflexivity.
Qed.

(* ------------------------------------------------------------------------------------------------ *)
(** ** Every forwarded call is backed by a where-predicate, and nothing else is added                  *)

Lemma bounds_orig_where : forall sg, bounds_of (orig_where sg) = [].
Proof. intro sg. unfold orig_where. induction (sg_where sg) as [|a l IH]; [reflexivity|exact IH]. Qed.

Lemma origs_orig_where : forall sg, origs_of (orig_where sg) = sg_where sg.
Proof. intro sg. unfold orig_where. induction (sg_where sg) as [|a l IH]; [reflexivity|]. cbn [map origs_of]. rewrite IH. reflexivity. Qed.

Lemma bounds_app : forall a b, bounds_of (a ++ b) = bounds_of a ++ bounds_of b.
Proof. induction a as [|x a IH]; intro b; [reflexivity|]. destruct x; cbn [app bounds_of]; rewrite IH; reflexivity. Qed.

Lemma origs_app : forall a b, origs_of (a ++ b) = origs_of a ++ origs_of b.
Proof. induction a as [|x a IH]; intro b; [reflexivity|]. destruct x; cbn [app origs_of]; rewrite IH; reflexivity. Qed.

Lemma calls_addr : forall m i, calls (addr m (EField i)) = [].
Proof. intros [|] i; reflexivity. Qed.

Lemma calls_reference : forall rk i, calls (reference rk (EField i)) = [].
Proof. intros [| |] i; reflexivity. Qed.

Lemma state_header_where : forall d sg info i fty im h,
  In (im, h) (state_himpls d sg info i fty) ->
  bounds_of (h_where h) = calls (im_body im) /\ origs_of (h_where h) = sg_where sg.
Proof.
  intros d sg info i fty im h H.
  destruct d; cbn [state_himpls In] in H;
    try (destruct H as [H|[]]; injection H as <- <-).
  - unfold deref_impl, deref_header. destruct (fi_forward info); cbn [h_where im_body add_extra_where bounds_of origs_of calls];
      rewrite ?bounds_orig_where, ?origs_orig_where, ?calls_addr; split; reflexivity.
  - unfold deref_impl, deref_header. destruct (fi_forward info); cbn [h_where im_body add_extra_where bounds_of origs_of calls];
      rewrite ?bounds_orig_where, ?origs_orig_where, ?calls_addr; split; reflexivity.
  - cbn [index_impl index_header h_where im_body add_extra_where bounds_of origs_of calls].
    rewrite bounds_orig_where, origs_orig_where, calls_addr. split; reflexivity.
  - cbn [index_impl index_header h_where im_body add_extra_where bounds_of origs_of calls].
    rewrite bounds_orig_where, origs_orig_where, calls_addr. split; reflexivity.
  - apply in_map_iff in H. destruct H as [rk [H _]]. injection H as <- <-.
    cbn [iter_impl iter_header h_where im_body add_extra_where bounds_of origs_of calls].
    rewrite bounds_orig_where, origs_orig_where, calls_reference. split; reflexivity.
Qed.

Lemma as_header_where : forall sg m i fty t,
  let '(im, h) := as_himpl sg m i fty t in
  bounds_of (h_where h) = calls (im_body im) /\ origs_of (h_where h) = sg_where sg.
Proof.
  intros sg m i fty t. unfold as_himpl, as_impl. cbn [im_body].
  destruct (as_kind_of (generics_of sg) fty t); cbn [as_header h_where as_body calls];
    rewrite ?bounds_app, ?origs_app, ?bounds_orig_where, ?origs_orig_where, ?calls_addr; cbn [bounds_of origs_of app];
    rewrite ?app_nil_r; split; reflexivity.
Qed.

(* the parameters: the struct's own (possibly regrouped, lifetimes first) plus exactly one documented extra *)
Lemma filter_partition_perm : forall (X : Type) (f : X -> bool) (l : list X),
  Permutation (filter f l ++ filter (fun x => negb (f x)) l) l.
Proof.
  induction l as [|a l IH]; [constructor|]. cbn [filter]. destruct (f a); cbn [negb app].
  - constructor. exact IH.
  - apply Permutation_sym. apply Permutation_cons_app. apply Permutation_sym. exact IH.
Qed.

Lemma print_params_perm : forall l, Permutation (print_params l) l.
Proof. intro l. unfold print_params. apply filter_partition_perm. Qed.

Lemma params_of_kind_cons : forall k k' n r w,
  params_of_kind k {| sg_params := (k', n) :: r; sg_where := w |}
  = (if gkind_eqb k' k then [IOrig k n] else []) ++ params_of_kind k {| sg_params := r; sg_where := w |}.
Proof.
  intros k k' n r w. unfold params_of_kind, ids_of. cbn [sg_params filter fst].
  destruct (gkind_eqb k' k); reflexivity.
Qed.

Lemma kind_groups_perm : forall ps w,
  let sg := {| sg_params := ps; sg_where := w |} in
  Permutation (params_of_kind KLife sg ++ params_of_kind KTy sg ++ params_of_kind KConst sg) (orig_params sg).
Proof.
  induction ps as [|[k n] r IH]; intros w sg; [constructor|].
  specialize (IH w). cbn zeta in IH. subst sg.
  rewrite !params_of_kind_cons. unfold orig_params. cbn [sg_params map fst snd].
  fold (orig_params {| sg_params := r; sg_where := w |}).
  destruct k; cbn [gkind_eqb app].
  - constructor. exact IH.
  - apply Permutation_sym. apply Permutation_cons_app. apply Permutation_sym. exact IH.
  - apply Permutation_sym. rewrite app_assoc. apply Permutation_cons_app. rewrite <- app_assoc.
    apply Permutation_sym. exact IH.
Qed.

Lemma add_extra_type_param_perm : forall sg p,
  Permutation (add_extra_type_param sg p) (p :: orig_params sg).
Proof.
  intros [ps w] p. unfold add_extra_type_param.
  pose proof (kind_groups_perm ps w) as K. cbn zeta in K.
  apply Permutation_sym. rewrite app_assoc. apply Permutation_cons_app. rewrite <- app_assoc.
  apply Permutation_sym. exact K.
Qed.

Definition extra_params_state (d : dkind) (rk : refkind) : list iparam :=
  match d with
  | DDeref | DDerefMut => []
  | DIndex | DIndexMut => [IIdxT]
  | DIntoIter => match rk with RNo => [] | _ => [ILifeDM] end
  end.

Lemma state_header_params : forall d sg info i fty im h,
  In (im, h) (state_himpls d sg info i fty) ->
  Permutation (h_params h) (extra_params_state d (im_self im) ++ orig_params sg).
Proof.
  intros d sg info i fty im h H.
  destruct d; cbn [state_himpls In] in H;
    try (destruct H as [H|[]]; injection H as <- <-).
  - cbn [deref_header h_params extra_params_state app]. apply print_params_perm.
  - cbn [deref_header h_params extra_params_state app]. apply print_params_perm.
  - cbn [index_header h_params extra_params_state app].
    eapply Permutation_trans; [apply print_params_perm|apply add_extra_type_param_perm].
  - cbn [index_header h_params extra_params_state app].
    eapply Permutation_trans; [apply print_params_perm|apply add_extra_type_param_perm].
  - apply in_map_iff in H. destruct H as [rk [H _]]. injection H as <- <-.
    cbn [iter_header h_params extra_params_state iter_impl im_self].
    eapply Permutation_trans; [apply print_params_perm|].
    destruct rk; cbn [app]; [apply Permutation_refl| |]; unfold add_extra_param;
      apply Permutation_sym; apply Permutation_cons_append.
Qed.

Definition extra_params_as (k : impl_kind) (t : target) : list iparam :=
  match k, t with Forwarded, TgBlanket => [IAsT] | _, _ => [] end.

Lemma as_header_params : forall sg m i fty t,
  Permutation (h_params (snd (as_himpl sg m i fty t)))
              (extra_params_as (as_kind_of (generics_of sg) fty t) t ++ orig_params sg).
Proof.
  intros sg m i fty t. unfold as_himpl. cbn [snd].
  destruct (as_kind_of (generics_of sg) fty t); cbn [as_header h_params extra_params_as app];
    try apply print_params_perm.
  destruct t; cbn [app]; eapply Permutation_trans; try apply print_params_perm.
  - unfold add_extra_param. apply Permutation_sym. apply Permutation_cons_append.
  - apply Permutation_refl.
Qed.

(* ------------------------------------------------------------------------------------------------ *)
(** ** Exactly one field (State-based derives)                                                         *)

Lemma derive_state_unique_field : forall d sattrs fields ims,
  derive_state d sattrs fields = inr ims ->
  exists i info, select (allowed_of d) sattrs (map snd fields) = inr (i, info)
    /\ (forall im, In im ims -> im_field im = i)
    /\ (d <> DIntoIter -> length ims = 1)
    /\ (d = DIntoIter -> map im_self ims = ref_types info).
Proof.
  intros d sattrs fields ims H. unfold derive_state in H.
  destruct (select (allowed_of d) sattrs (map snd fields)) as [e|[i info]] eqn:S; [discriminate|].
  injection H as <-. exists i, info. split; [reflexivity|]. repeat split.
  - intros im Him. destruct d; cbn [In] in Him; try (destruct Him as [<-|[]]).
    + unfold deref_impl. destruct (fi_forward info); reflexivity.
    + unfold deref_impl. destruct (fi_forward info); reflexivity.
    + reflexivity.
    + reflexivity.
    + apply in_map_iff in Him. destruct Him as [rk [<- _]]. reflexivity.
  - intro Hd. destruct d; try reflexivity. congruence.
  - intros ->. rewrite map_map. cbn [iter_impl im_self]. apply map_id.
Qed.

(* ------------------------------------------------------------------------------------------------ *)
(** ** Enums and unions never get an impl                                                              *)

Lemma non_struct_rejected : forall d sg it,
  (forall s f, it <> IStruct s f) -> exists e, derive_state_item d sg it = inl e.
Proof.
  intros d sg it H. destruct it as [s f|s v|].
  - exfalso. exact (H s f eq_refl).
  - eexists. reflexivity.
  - eexists. reflexivity.
Qed.

Lemma non_struct_rejected_as : forall sg m it,
  (forall s f, it <> AStruct s f) -> derive_as_item sg m it = inl DSyn.
Proof. intros sg m it H. destruct it as [s f| |]; [exfalso; exact (H s f eq_refl)|reflexivity|reflexivity]. Qed.

(* ------------------------------------------------------------------------------------------------ *)
(** ** ImplKind: a total decision on (blanket?, field type, listed type, generics)                     *)

Lemma impl_kind_spec : forall g b f r,
  (as_impl_kind g b f r = Direct <-> b = false /\ f = r)
  /\ (as_impl_kind g b f r = Forwarded <-> b = true \/ (f <> r /\ (any_in g f = true \/ any_in g r = true)))
  /\ (as_impl_kind g b f r = Specialized <-> b = false /\ f <> r /\ any_in g f = false /\ any_in g r = false).
Proof.
  intros g b f r. unfold as_impl_kind.
  destruct b.
  - repeat split; try discriminate; try (intros [H _]; discriminate).
    + intros _. left. reflexivity.
  - destruct (ty_eqb f r) eqn:E.
    + apply ty_eqb_spec in E. subst r. repeat split; try discriminate; try reflexivity.
      * intros [H|[H _]]; [discriminate|congruence].
      * intros [_ [H _]]. congruence.
    + assert (NE : f <> r) by (intro C; apply ty_eqb_spec in C; congruence).
      destruct (any_in g f) eqn:A1; destruct (any_in g r) eqn:A2; cbn [orb];
        repeat split; try discriminate; try reflexivity; try exact NE;
        try (intros [_ C]; congruence);
        try (intros _; right; split; [exact NE|]; first [left; reflexivity|right; reflexivity]);
        try (intros [_ [_ [C1 C2]]]; congruence);
        try (intros [C|[_ [C|C]]]; congruence).
Qed.

(* the impl generated for a listed type depends on that type alone: not on its position, not on its neighbours *)
Lemma kind_order_independent_perm : forall sg m i fty l1 l2,
  Permutation l1 l2 ->
  Permutation (map (as_himpl sg m i fty) (as_targets (Some (CTypes l1)) fty))
              (map (as_himpl sg m i fty) (as_targets (Some (CTypes l2)) fty)).
Proof. intros sg m i fty l1 l2 P. cbn [as_targets]. apply Permutation_map. apply Permutation_map. exact P. Qed.

Lemma kind_order_independent : forall sg m i fty l1 l2 t hi,
  In hi (map (as_himpl sg m i fty) (as_targets (Some (CTypes l1)) fty)) ->
  im_trait (fst hi) = TrAs m (TgTy t) ->
  In t l2 ->
  hi = as_himpl sg m i fty (TgTy t)
  /\ In hi (map (as_himpl sg m i fty) (as_targets (Some (CTypes l2)) fty)).
Proof.
  intros sg m i fty l1 l2 t hi H1 Ht H2. cbn [as_targets] in *.
  apply in_map_iff in H1. destruct H1 as [tg [<- Htg]]. apply in_map_iff in Htg. destruct Htg as [t' [<- _]].
  cbn [as_himpl fst as_impl im_trait] in Ht. injection Ht as ->.
  split; [reflexivity|]. apply in_map. apply in_map. exact H2.
Qed.

(* ------------------------------------------------------------------------------------------------ *)
(** ** Several `#[as_ref(types)]` attributes are one list                                              *)

Lemma merge_fattrs_types_acc : forall ls acc,
  merge_fattrs (Some (FTypes acc)) (map FTypes ls) = inr (Some (FTypes (acc ++ concat ls))).
Proof.
  induction ls as [|l ls IH]; intro acc; cbn [map merge_fattrs concat].
  - rewrite app_nil_r. reflexivity.
  - rewrite IH, app_assoc. reflexivity.
Qed.

Lemma merge_fattrs_types : forall l ls,
  merge_fattrs None (map FTypes (l :: ls)) = merge_fattrs None [FTypes (l ++ concat ls)].
Proof. intros l ls. cbn [map merge_fattrs]. apply merge_fattrs_types_acc. Qed.

Lemma merge_sattrs_types_acc : forall ls acc,
  merge_sattrs (Some (CTypes acc)) (map STypes ls) = inr (Some (CTypes (acc ++ concat ls))).
Proof.
  induction ls as [|l ls IH]; intro acc; cbn [map merge_sattrs concat].
  - rewrite app_nil_r. reflexivity.
  - rewrite IH, app_assoc. reflexivity.
Qed.

Lemma merge_sattrs_types : forall l ls,
  merge_sattrs None (map STypes (l :: ls)) = merge_sattrs None [STypes (l ++ concat ls)].
Proof. intros l ls. cbn [map merge_sattrs]. rewrite merge_sattrs_types_acc. reflexivity. Qed.

Definition field_equiv (a b : ty * list fattr_as) : Prop :=
  fst a = fst b /\ merge_fattrs None (snd a) = merge_fattrs None (snd b).

Lemma collect_fattrs_equiv : forall f f', Forall2 field_equiv f f' -> collect_fattrs f = collect_fattrs f'.
Proof.
  induction 1 as [|[t a] [t' a'] f f' [H1 H2] _ IH]; [reflexivity|].
  cbn [collect_fattrs]. cbn [fst snd] in H1, H2. rewrite H2, IH. reflexivity.
Qed.

Lemma expansions_all_equiv : forall f f', Forall2 field_equiv f f' ->
  forall k attrs, expansions_all k f attrs = expansions_all k f' attrs.
Proof.
  induction 1 as [|[t a] [t' a'] f f' [H1 _] _ IH]; intros k attrs; [reflexivity|].
  cbn [fst] in H1. subst t'. cbn [expansions_all]. destruct attrs as [|[x|] ar]; [reflexivity| |]; rewrite IH; reflexivity.
Qed.

Lemma expansions_marked_equiv : forall f f', Forall2 field_equiv f f' ->
  forall k attrs, expansions_marked k f attrs = expansions_marked k f' attrs.
Proof.
  induction 1 as [|[t a] [t' a'] f f' [H1 _] _ IH]; intros k attrs; [reflexivity|].
  cbn [fst] in H1. subst t'. cbn [expansions_marked].
  destruct attrs as [|[[| | |tys|]|] ar]; try reflexivity; rewrite IH; reflexivity.
Qed.

Lemma as_expansions_equiv : forall sattrs f f', Forall2 field_equiv f f' ->
  as_expansions sattrs f = as_expansions sattrs f'.
Proof.
  intros sattrs f f' H. unfold as_expansions.
  destruct (merge_sattrs None sattrs) as [d|[c|]]; [reflexivity| |].
  - inversion H as [|[t a] [t' a'] r r' [H1 H2] Hr]; subst; [reflexivity|].
    cbn [fst snd] in H1, H2. subst t'.
    inversion Hr; subst; [|reflexivity]. rewrite H2. reflexivity.
  - rewrite (collect_fattrs_equiv _ _ H). destruct (collect_fattrs f') as [d|attrs]; [reflexivity|].
    rewrite (expansions_all_equiv _ _ H), (expansions_marked_equiv _ _ H). reflexivity.
Qed.

Lemma Forall2_field_equiv_refl : forall f, Forall2 field_equiv f f.
Proof. induction f as [|a f IH]; constructor; [split; reflexivity|exact IH]. Qed.

Lemma split_field_attrs : forall sg m sattrs pre post t l ls,
  derive_as_h sg m sattrs (pre ++ (t, map FTypes (l :: ls)) :: post)
  = derive_as_h sg m sattrs (pre ++ (t, [FTypes (l ++ concat ls)]) :: post).
Proof.
  intros sg m sattrs pre post t l ls. unfold derive_as_h.
  rewrite (as_expansions_equiv sattrs (pre ++ (t, map FTypes (l :: ls)) :: post)
                               (pre ++ (t, [FTypes (l ++ concat ls)]) :: post)); [reflexivity|].
  apply Forall2_app; [apply Forall2_field_equiv_refl|].
  constructor; [|apply Forall2_field_equiv_refl].
  split; [reflexivity|]. cbn [snd]. apply merge_fattrs_types.
Qed.

Lemma split_struct_attrs : forall sg m fields l ls,
  derive_as_h sg m (map STypes (l :: ls)) fields = derive_as_h sg m [STypes (l ++ concat ls)] fields.
Proof.
  intros sg m fields l ls. unfold derive_as_h, as_expansions. rewrite merge_sattrs_types. reflexivity.
Qed.

(* ------------------------------------------------------------------------------------------------ *)
(** ** GenericsSearch                                                                                  *)

Lemma any_in'_no_generics : forall t h, any_in' no_generics h t = false.
Proof.
  induction t as [n|s|f IHf a IHa|lt m t IHt|t IHt|t IHt n|t IHt]; intro h; cbn [any_in' no_generics g_types g_consts g_lifetimes memN existsb orb].
  - destruct h; reflexivity.
  - destruct s; reflexivity.
  - rewrite IHf, IHa. reflexivity.
  - rewrite IHt. destruct lt; reflexivity.
  - apply IHt.
  - rewrite IHt. destruct n; reflexivity.
  - apply IHt.
Qed.

Lemma generics_of_no_params : forall w, generics_of {| sg_params := []; sg_where := w |} = no_generics.
Proof. reflexivity. Qed.

Definition sub_mem (a b : list N) : Prop := forall n, memN n a = true -> memN n b = true.

Lemma any_in'_mono : forall g g',
  sub_mem (g_types g) (g_types g') -> sub_mem (g_lifetimes g) (g_lifetimes g') -> sub_mem (g_consts g) (g_consts g') ->
  forall t h, any_in' g h t = true -> any_in' g' h t = true.
Proof.
  intros g g' Ht Hl Hc.
  induction t as [n|s|f IHf a IHa|lt m t IHt|t IHt|t IHt n|t IHt]; intros h H; cbn [any_in'] in *.
  - destruct h; [discriminate|]. apply orb_true_iff in H. apply orb_true_iff. destruct H as [H|H]; [left; apply Ht|right; apply Hc]; exact H.
  - destruct s as [|x s]; [discriminate|]. apply Ht. exact H.
  - apply orb_true_iff in H. apply orb_true_iff. destruct H as [H|H]; [left; apply IHf|right; apply IHa]; exact H.
  - apply orb_true_iff in H. apply orb_true_iff. destruct H as [H|H]; [left|right; apply IHt; exact H].
    destruct lt; [apply Hl; exact H|discriminate].
  - apply IHt. exact H.
  - apply orb_true_iff in H. apply orb_true_iff. destruct H as [H|H]; [left; apply IHt; exact H|right].
    destruct n; [discriminate|apply Hc; exact H].
  - apply IHt. exact H.
Qed.

(* the shapes the visitor reacts to *)
Lemma any_in_shapes : forall g,
  (forall n, any_in g (TId n) = memN n (g_types g) || memN n (g_consts g))
  /\ (forall s r, any_in g (TQual (s :: r)) = memN s (g_types g))
  /\ (forall f a, any_in g (TApp f a) = any_in' g true f || any_in g a)
  /\ (forall l m t, any_in g (TRef (Some l) m t) = memN l (g_lifetimes g) || any_in g t)
  /\ (forall m t, any_in g (TRef None m t) = any_in g t)
  /\ (forall t c, any_in g (TArray t (LenId c)) = any_in g t || memN c (g_consts g))
  /\ (forall n, any_in' g true (TId n) = false).
Proof. intro g. repeat split; reflexivity. Qed.

Section NoGenerics.
  Variable A : Type.
  Variable field_impl : trait -> refkind -> ty -> arg -> bool -> A.
  Variable norm : ty -> ty.

  (* a struct without generic parameters: EVERY listed type that is the field's type for rustc yields the field itself *)
  Lemma no_generics_identity : forall w m i fty rty,
    ty_eqb (norm fty) (norm rty) = true ->
    eval A field_impl norm
         (im_body (fst (as_himpl {| sg_params := []; sg_where := w |} m i fty (TgTy rty))))
    = Some (RArg (AAddr m i)).
  Proof.
    intros w m i fty rty H. unfold as_himpl. cbn [fst]. rewrite generics_of_no_params.
    apply as_identity; [exact H|]. right. unfold any_in. rewrite !any_in'_no_generics. split; reflexivity.
  Qed.

  (* ... and never a Forwarded impl unless `forward` is written *)
  Lemma no_generics_never_forwarded : forall fty rty, as_impl_kind no_generics false fty rty <> Forwarded.
  Proof.
    intros fty rty. unfold as_impl_kind. destruct (ty_eqb fty rty); [discriminate|].
    unfold any_in. rewrite !any_in'_no_generics. discriminate.
  Qed.

  (* AsMut: a write through the identity form lands in the selected field and nowhere else *)
  Variable V : Type.
  Lemma asmut_writes_through : forall g i fty t (st : list V) v,
    identity_cond norm g fty t = true -> i < length st ->
    exists st', write A V st (eval A field_impl norm (im_body (as_impl g true i fty t))) v = Some st'
                /\ nth_error st' i = Some v
                /\ (forall j, j <> i -> nth_error st' j = nth_error st j)
                /\ read A V st' (eval A field_impl norm (im_body (as_impl g false i fty t))) = Some v.
  Proof.
    intros g i fty t st v Hc Hi.
    destruct (as_result A field_impl norm g true i fty t) as [_ E1].
    destruct (as_result A field_impl norm g false i fty t) as [_ E2].
    rewrite E1, E2, Hc. unfold write, read.
    apply Nat.ltb_lt in Hi. rewrite Hi. apply Nat.ltb_lt in Hi.
    exists (upd V st i v). repeat split.
    - apply upd_nth_same. exact Hi.
    - intros j Hj. apply upd_nth_other. congruence.
    - apply upd_nth_same. exact Hi.
  Qed.
End NoGenerics.

(* ------------------------------------------------------------------------------------------------ *)
(** ** IntoIterator: which forms exist, read off the attributes (MetaInfo::into_full defaults)         *)

Definition param_eqb (a b : param) : bool :=
  match a, b with
  | PIgnore, PIgnore | PForward, PForward | PNotForward, PNotForward | POwned, POwned | PRef, PRef
  | PRefMut, PRefMut | PUnknown, PUnknown => true
  | _, _ => false
  end.

Definition lists (p : param) (attrs : list attr) : bool :=
  match attrs with [AList ps] => existsb (param_eqb p) ps | _ => false end.

Definition flag (b : bool) : option bool := if b then Some true else None.

Lemma apply_params_refs : forall allowed ps i i',
  apply_params allowed i ps = Some i' ->
  mi_owned i' = (if existsb (param_eqb POwned) ps then Some true else mi_owned i)
  /\ mi_ref i' = (if existsb (param_eqb PRef) ps then Some true else mi_ref i)
  /\ mi_ref_mut i' = (if existsb (param_eqb PRefMut) ps then Some true else mi_ref_mut i).
Proof.
  induction ps as [|p ps IH]; intros i i' H; cbn [apply_params] in H.
  - injection H as <-. repeat split.
  - destruct (apply_param allowed i p) as [i1|] eqn:E; [|discriminate].
    apply IH in H. destruct H as [H1 [H2 H3]]. rewrite H1, H2, H3. cbn [existsb].
    destruct p; cbn [apply_param] in E;
      match type of E with (if ?c then _ else _) = _ => destruct c; [|discriminate] | _ => try discriminate end;
      injection E as <-; cbn [param_eqb mi_owned mi_ref mi_ref_mut orb]; repeat split;
      try reflexivity;
      try (destruct (existsb (param_eqb POwned) ps); reflexivity);
      try (destruct (existsb (param_eqb PRef) ps); reflexivity);
      try (destruct (existsb (param_eqb PRefMut) ps); reflexivity).
Qed.

Lemma get_meta_info_refs : forall allowed attrs mi,
  get_meta_info allowed attrs = inr mi ->
  mi_owned mi = flag (lists POwned attrs) /\ mi_ref mi = flag (lists PRef attrs) /\ mi_ref_mut mi = flag (lists PRefMut attrs).
Proof.
  intros allowed attrs mi H. unfold get_meta_info in H.
  destruct attrs as [|a rest]; [injection H as <-; repeat split|].
  destruct allowed as [|k allowed]; [discriminate|].
  destruct rest; [|discriminate].
  destruct a.
  - destruct (allowed_has KIgnore (k :: allowed)); [|discriminate]. injection H as <-. repeat split.
  - destruct (apply_params (k :: allowed) mi_present ps) as [i|] eqn:E; [|discriminate].
    injection H as <-. apply apply_params_refs in E. cbn [mi_present mi_owned mi_ref mi_ref_mut] in E.
    unfold lists, flag. exact E.
  - discriminate.
Qed.

Lemma collect_metas_nth : forall allowed fattrs metas i fa,
  collect_metas allowed fattrs = inr metas -> nth_error fattrs i = Some fa ->
  exists mi, nth_error metas i = Some mi /\ get_meta_info allowed fa = inr mi.
Proof.
  induction fattrs as [|a r IH]; intros metas i fa H Hn; [destruct i; discriminate|].
  cbn [collect_metas] in H. destruct (get_meta_info allowed a) as [d|mi] eqn:G; [discriminate|].
  destruct (collect_metas allowed r) as [d|l] eqn:C; [discriminate|]. injection H as <-.
  destruct i as [|i]; cbn [nth_error] in *.
  - injection Hn as <-. exists mi. split; [reflexivity|exact G].
  - eapply IH; [reflexivity|exact Hn].
Qed.

Definition is_nil {X : Type} (l : list X) : bool := match l with [] => true | _ => false end.

Lemma default_owned_spec : forall allowed fattrs metas,
  collect_metas allowed fattrs = inr metas ->
  default_owned metas
  = match find (fun a => negb (is_nil a)) fattrs with
    | None => true
    | Some a => (negb (lists POwned a) && negb (lists PRef a)) || negb (lists PRefMut a)
    end.
Proof.
  induction fattrs as [|a r IH]; intros metas H.
  - injection H as <-. reflexivity.
  - cbn [collect_metas] in H. destruct (get_meta_info allowed a) as [d|mi] eqn:G; [discriminate|].
    destruct (collect_metas allowed r) as [d|l] eqn:C; [discriminate|]. injection H as <-.
    pose proof (get_meta_info_mark _ _ _ G) as M. pose proof (get_meta_info_refs _ _ _ G) as [R1 [R2 R3]].
    unfold default_owned, first_match. cbn [find].
    destruct a as [|x a'].
    + rewrite M. cbn [is_none negb is_nil]. apply (IH l eq_refl).
    + assert (E : is_none (mi_enabled mi) = false).
      { rewrite M. destruct a'; destruct x; try reflexivity; destruct (existsb is_ignore ps); reflexivity. }
      rewrite E. cbn [negb is_nil]. rewrite R1, R2, R3. unfold flag.
      destruct (lists POwned (x :: a')); destruct (lists PRef (x :: a')); destruct (lists PRefMut (x :: a')); reflexivity.
Qed.

Lemma iter_forms_of_attrs : forall sattrs fattrs i info fa,
  select allowed_iter sattrs fattrs = inr (i, info) ->
  nth_error fattrs i = Some fa ->
  exists metas, collect_metas allowed_iter fattrs = inr metas
    /\ fi_ref info = lists PRef fa || lists PRef sattrs
    /\ fi_ref_mut info = lists PRefMut fa || lists PRefMut sattrs
    /\ fi_owned info = lists POwned fa || lists POwned sattrs || default_owned metas.
Proof.
  intros sattrs fattrs i info fa S Hn.
  destruct (select_sound _ _ _ _ _ S) as [sm [metas [H1 [H2 [_ H4]]]]].
  exists metas. split; [exact H2|].
  destruct (collect_metas_nth _ _ _ _ _ H2 Hn) as [mi [Hm G]].
  unfold full_infos in H4. rewrite (map_nth_error _ _ _ Hm) in H4. injection H4 as <-.
  destruct (get_meta_info_refs _ _ _ G) as [F1 [F2 F3]].
  destruct (get_meta_info_refs _ _ _ H1) as [S1 [S2 S3]].
  unfold into_full, defaults_of. cbn [fi_ref fi_ref_mut fi_owned into_full].
  rewrite F1, F2, F3, S1, S2, S3. unfold flag.
  destruct (lists PRef fa); destruct (lists PRef sattrs); destruct (lists PRefMut fa); destruct (lists PRefMut sattrs);
    destruct (lists POwned fa); destruct (lists POwned sattrs); repeat split; reflexivity.
Qed.

(* ------------------------------------------------------------------------------------------------ *)
(** ** Non-vacuity for the growth round                                                                *)

Definition sgT : sgenerics := {| sg_params := [(KConst, 8%N); (KLife, 6%N); (KTy, 9%N)]; sg_where := [77%N] |}.

(* `struct S<const N, 'a, T> where P (A, #[index] A)`: `impl<'a, T, __IdxT, const N> .. where A: Index<__IdxT>, P` *)
Example ex_index_header :
  derive_state_h DIndex sgT [] [(tyA, []); (tyA, [ABare])]
  = inr [(index_impl false 1 tyA,
          {| h_params := [IOrig KLife 6%N; IOrig KTy 9%N; IIdxT; IOrig KConst 8%N];
             h_where := [WBound RNo tyA TrIndex; WOrig 77%N] |})].
Proof. reflexivity. Qed.

(* `#[into_iterator(ref)]` alone: the `&` form with the extra lifetime printed first - and an owned form *)
Example ex_iter_header :
  option_map (map (fun hi => (im_self (fst hi), h_params (snd hi), h_where (snd hi))))
    (match derive_state_h DIntoIter sgT [] [(tyA, [AList [PRef]])] with inr l => Some l | inl _ => None end)
  = Some [ (RNo, [IOrig KLife 6%N; IOrig KConst 8%N; IOrig KTy 9%N], [WBound RNo tyA TrIntoIter; WOrig 77%N]);
           (RRef, [IOrig KLife 6%N; ILifeDM; IOrig KConst 8%N; IOrig KTy 9%N], [WBound RRef tyA TrIntoIter; WOrig 77%N]) ].
Proof. reflexivity. Qed.

(* AsRef: Forwarded pushes its predicate LAST; Direct / Specialized add nothing *)
Example ex_as_header :
  option_map (map (fun hi => (im_trait (fst hi), h_params (snd hi), h_where (snd hi))))
    (match derive_as_h sgT false [STypes [tyVec tyT; tyVecAlias tyT]; STypes [tyB]] [(tyVec tyT, [])] with inr l => Some l | inl _ => None end)
  = Some [ (TrAs false (TgTy (tyVec tyT)), [IOrig KLife 6%N; IOrig KConst 8%N; IOrig KTy 9%N], [WOrig 77%N]);
           (TrAs false (TgTy (tyVecAlias tyT)), [IOrig KLife 6%N; IOrig KConst 8%N; IOrig KTy 9%N],
            [WOrig 77%N; WBound RNo (tyVec tyT) (TrAs false (TgTy (tyVecAlias tyT)))]);
           (TrAs false (TgTy tyB), [IOrig KLife 6%N; IOrig KConst 8%N; IOrig KTy 9%N],
            [WOrig 77%N; WBound RNo (tyVec tyT) (TrAs false (TgTy tyB))]) ].
Proof. reflexivity. Qed.

Example ex_as_blanket_header :
  option_map (map (fun hi => h_params (snd hi)))
    (match derive_as_h sgT true [SForward] [(tyA, [])] with inr l => Some l | inl _ => None end)
  = Some [[IOrig KLife 6%N; IOrig KConst 8%N; IOrig KTy 9%N; IAsT]].
Proof. reflexivity. Qed.

(* a list in which a generic type precedes an alias of the (non-generic) field type: kinds are per type *)
Example ex_mixed_list :
  derive_as_kinds {| g_types := []; g_lifetimes := []; g_consts := [8%N] |} []
    [(tyA, [FTypes [TArray (TId 6%N) (LenId 8%N); tyAlias]; FTypes [tyB]])]
  = inr [(0, TgTy (TArray (TId 6%N) (LenId 8%N)), Forwarded); (0, TgTy tyAlias, Specialized); (0, TgTy tyB, Specialized)].
Proof. reflexivity. Qed.

(* enums / unions *)
Example ex_enum : derive_state_item DDeref sgT (IEnum [] [([], [[ABare]]); ([], [])]) = inl (DStruct DOneField).
Proof. reflexivity. Qed.
Example ex_enum_bad_attr : derive_state_item DIndex sgT (IEnum [] [([], [[]]); ([], [[AList [PForward]]])]) = inl (DStruct DSyn).
Proof. reflexivity. Qed.
Example ex_union : derive_state_item DDeref sgT IUnion = inl DUnion.
Proof. reflexivity. Qed.

(* IntoIterator forms: the `owned` default is true for `#[into_iterator(ref)]` alone, false for `(ref, ref_mut)` *)
Example ex_default_owned :
  (exists m, collect_metas allowed_iter [[AList [PRef]]] = inr m /\ default_owned m = true)
  /\ (exists m, collect_metas allowed_iter [[AList [PRef; PRefMut]]] = inr m /\ default_owned m = false).
Proof. split; eexists; split; reflexivity. Qed.
