(* C14 - delegating derives expose the selected field itself.

   Executable model (no proofs here) of the decision logic of

     /repo/impl/src/utils.rs        get_meta_info, parse_punctuated_nested_meta, MetaInfo::into_full,
                                    State::new_impl (struct part), enabled_fields*, assert_single_enabled_field,
                                    FullMetaInfo::ref_types, attr::{Conversion,FieldConversion} merging,
                                    generics_search::GenericsSearch::any_in
     /repo/impl/src/deref.rs, deref_mut.rs, index.rs, index_mut.rs, into_iterator.rs   (bodies, associated types)
     /repo/impl/src/as/mod.rs       (struct- vs field-level attributes, ImplKind, bodies)
     /repo/src/as.rs                (autoref specialisation: which ExtractRef impl method probing picks)

   and a small semantics of the emitted expressions (Layer 2, trusted, exercised against rustc by the
   run-time corpus of tools/props/c14.py).  Fields are identified by their POSITION in the field list
   (the tie maps `self.name` / `self.3` to positions). *)

From Coq Require Import List NArith Bool Arith.
Import ListNotations.

(* ------------------------------------------------------------------------------------------------ *)
(** * Types as the macro sees them (syn::Type, as far as as/mod.rs looks into it)                     *)

Inductive alen := LenLit (n : N) | LenId (n : N).          (* array length: literal or a path `N` *)

Inductive ty :=
| TId (n : N)                         (* single-segment path without arguments: `A`, `T`, `u32` *)
| TQual (segs : list N)               (* path with >= 2 segments, no arguments: `std::vec::Vec` *)
| TApp (f : ty) (a : ty)              (* one more generic argument on the last segment: `Vec<T>` = TApp (TId Vec) (TId T) *)
| TRef (lt : option N) (m : bool) (t : ty)   (* `&'a mut T` *)
| TSlice (t : ty)                     (* `[T]` *)
| TArray (t : ty) (n : alen)          (* `[T; N]` *)
| TParen (t : ty).                    (* `(T)` - a different syn::Type than `T` *)

Definition alen_eqb (a b : alen) : bool :=
  match a, b with
  | LenLit x, LenLit y => N.eqb x y
  | LenId x, LenId y => N.eqb x y
  | _, _ => false
  end.

Fixpoint listN_eqb (a b : list N) : bool :=
  match a, b with
  | [], [] => true
  | x :: a', y :: b' => N.eqb x y && listN_eqb a' b'
  | _, _ => false
  end.

Definition optN_eqb (a b : option N) : bool :=
  match a, b with
  | None, None => true
  | Some x, Some y => N.eqb x y
  | _, _ => false
  end.

(* `field_ty == return_ty.as_ref()` (as/mod.rs:234): syn's structural, span-insensitive PartialEq.
   This is TOKEN equality: `Vec<T>` and `std::vec::Vec<T>`, `A` and `(A)`, `A` and an alias of `A` differ. *)
Fixpoint ty_eqb (a b : ty) : bool :=
  match a, b with
  | TId x, TId y => N.eqb x y
  | TQual x, TQual y => listN_eqb x y
  | TApp f1 a1, TApp f2 a2 => ty_eqb f1 f2 && ty_eqb a1 a2
  | TRef l1 m1 t1, TRef l2 m2 t2 => optN_eqb l1 l2 && Bool.eqb m1 m2 && ty_eqb t1 t2
  | TSlice t1, TSlice t2 => ty_eqb t1 t2
  | TArray t1 n1, TArray t2 n2 => ty_eqb t1 t2 && alen_eqb n1 n2
  | TParen t1, TParen t2 => ty_eqb t1 t2
  | _, _ => false
  end.

Record generics := { g_types : list N; g_lifetimes : list N; g_consts : list N }.

Definition no_generics : generics := {| g_types := []; g_lifetimes := []; g_consts := [] |}.

Definition memN (n : N) (l : list N) : bool := existsb (N.eqb n) l.

(* utils.rs generics_search::GenericsSearch::any_in.  `visit_type_path` fires (1) when `path.get_ident()`
   is Some, i.e. for a single segment WITHOUT arguments - the head of `T<..>` is never compared with the
   parameter names ([head] = true below) - and (2) for a path of several segments whose FIRST segment is a
   type parameter without arguments (`T::Assoc`, also `T::Assoc<..>`; type parameters only, no leading `::`).
   `visit_expr_path` looks at array lengths (const parameters only); `visit_lifetime` at reference
   lifetimes.  The hits are OR-ed. *)
Fixpoint any_in' (g : generics) (head : bool) (t : ty) : bool :=
  match t with
  | TId n => if head then false else memN n (g_types g) || memN n (g_consts g)
  | TQual segs => match segs with s :: _ => memN s (g_types g) | [] => false end
  | TApp f a => any_in' g true f || any_in' g false a
  | TRef lt _ t' => (match lt with Some l => memN l (g_lifetimes g) | None => false end) || any_in' g false t'
  | TSlice t' => any_in' g false t'
  | TArray t' n => any_in' g false t' || (match n with LenId c => memN c (g_consts g) | LenLit _ => false end)
  | TParen t' => any_in' g false t'
  end.

Definition any_in (g : generics) (t : ty) : bool := any_in' g false t.

(* ------------------------------------------------------------------------------------------------ *)
(** * Diagnostics                                                                                     *)

Inductive diag :=
| DSyn          (* a syn::Error returned by the expander (attribute not understood, duplicated, misplaced ...) *)
| DOneField.    (* utils.rs:247 panic_one_field: "derive(X) only works when forwarding to a single field ..." *)

(* ------------------------------------------------------------------------------------------------ *)
(** * The `State` attribute language (Deref, DerefMut, Index, IndexMut, IntoIterator)                 *)

Inductive param := PIgnore | PForward | PNotForward | POwned | PRef | PRefMut | PUnknown.
Inductive attr := ABare (* `#[deref]` *) | AList (ps : list param) (* `#[deref(p, q)]` *) | ANameValue (* `#[deref = ..]` *).
Inductive akind := KIgnore | KForward | KOwned | KRef | KRefMut.

Definition akind_eqb (a b : akind) : bool :=
  match a, b with
  | KIgnore, KIgnore | KForward, KForward | KOwned, KOwned | KRef, KRef | KRefMut, KRefMut => true
  | _, _ => false
  end.

Definition allowed_has (k : akind) (allowed : list akind) : bool := existsb (akind_eqb k) allowed.

(* utils.rs:1214 MetaInfo (the fields these derives read) *)
Record meta_info := {
  mi_enabled : option bool; mi_forward : option bool;
  mi_owned : option bool; mi_ref : option bool; mi_ref_mut : option bool }.

Definition mi_default : meta_info :=
  {| mi_enabled := None; mi_forward := None; mi_owned := None; mi_ref := None; mi_ref_mut := None |}.

(* utils.rs:1003-1037 (Meta::Path arm) and :887-900 (`not(...)`): one parameter *)
Definition apply_param (allowed : list akind) (i : meta_info) (p : param) : option meta_info :=
  match p with
  | PIgnore => if allowed_has KIgnore allowed then
      Some {| mi_enabled := Some false; mi_forward := mi_forward i; mi_owned := mi_owned i; mi_ref := mi_ref i; mi_ref_mut := mi_ref_mut i |} else None
  | PForward => if allowed_has KForward allowed then
      Some {| mi_enabled := mi_enabled i; mi_forward := Some true; mi_owned := mi_owned i; mi_ref := mi_ref i; mi_ref_mut := mi_ref_mut i |} else None
  | PNotForward => if allowed_has KForward allowed then
      Some {| mi_enabled := mi_enabled i; mi_forward := Some false; mi_owned := mi_owned i; mi_ref := mi_ref i; mi_ref_mut := mi_ref_mut i |} else None
  | POwned => if allowed_has KOwned allowed then
      Some {| mi_enabled := mi_enabled i; mi_forward := mi_forward i; mi_owned := Some true; mi_ref := mi_ref i; mi_ref_mut := mi_ref_mut i |} else None
  | PRef => if allowed_has KRef allowed then
      Some {| mi_enabled := mi_enabled i; mi_forward := mi_forward i; mi_owned := mi_owned i; mi_ref := Some true; mi_ref_mut := mi_ref_mut i |} else None
  | PRefMut => if allowed_has KRefMut allowed then
      Some {| mi_enabled := mi_enabled i; mi_forward := mi_forward i; mi_owned := mi_owned i; mi_ref := mi_ref i; mi_ref_mut := Some true |} else None
  | PUnknown => None
  end.

(* utils.rs:879 parse_punctuated_nested_meta: parameters left to right, first offender is an Err *)
Fixpoint apply_params (allowed : list akind) (i : meta_info) (ps : list param) : option meta_info :=
  match ps with
  | [] => Some i
  | p :: r => match apply_param allowed i p with Some i' => apply_params allowed i' r | None => None end
  end.

Definition mi_present : meta_info :=
  {| mi_enabled := Some true; mi_forward := None; mi_owned := None; mi_ref := None; mi_ref_mut := None |}.

(* utils.rs:813-877 get_meta_info; [attrs] are the attributes whose first path segment is the trait's *)
Definition get_meta_info (allowed : list akind) (attrs : list attr) : diag + meta_info :=
  match attrs with
  | [] => inr mi_default
  | a :: rest =>
    match allowed with
    | [] => inl DSyn                                    (* "Attribute is not allowed here" *)
    | _ =>
      match rest with
      | _ :: _ => inl DSyn                              (* "Only a single attribute is allowed" *)
      | [] =>
        match a with
        | ABare => if allowed_has KIgnore allowed then inr mi_present else inl DSyn
        | ANameValue => inl DSyn
        | AList ps => match apply_params allowed mi_present ps with Some i => inr i | None => inl DSyn end
        end
      end
    end
  end.

(* utils.rs:1204 FullMetaInfo *)
Record full_info := { fi_enabled : bool; fi_forward : bool; fi_owned : bool; fi_ref : bool; fi_ref_mut : bool }.

Definition unwrap_or (o : option bool) (d : bool) : bool := match o with Some b => b | None => d end.
Definition is_none (o : option bool) : bool := match o with Some _ => false | None => true end.

(* utils.rs:1227 MetaInfo::into_full *)
Definition into_full (i : meta_info) (d : full_info) : full_info :=
  {| fi_enabled := unwrap_or (mi_enabled i) (fi_enabled d);
     fi_forward := unwrap_or (mi_forward i) (fi_forward d);
     fi_owned := unwrap_or (mi_owned i) (fi_owned d);
     fi_ref := unwrap_or (mi_ref i) (fi_ref d);
     fi_ref_mut := unwrap_or (mi_ref_mut i) (fi_ref_mut d) |}.

Fixpoint collect_metas (allowed : list akind) (fattrs : list (list attr)) : diag + list meta_info :=
  match fattrs with
  | [] => inr []
  | a :: r =>
    match get_meta_info allowed a with
    | inl d => inl d
    | inr i => match collect_metas allowed r with inl d => inl d | inr l => inr (i :: l) end
    end
  end.

(* utils.rs:416 `meta_infos.iter().find_map(|info| info.enabled.map(|_| info))`: the FIRST field carrying an attribute *)
Definition first_match (metas : list meta_info) : option meta_info :=
  find (fun i => negb (is_none (mi_enabled i))) metas.

(* utils.rs:434-438 (trait_name is never "Error" for these derives) *)
Definition default_enabled (metas : list meta_info) : bool :=
  match first_match metas with
  | None => true
  | Some i => negb (unwrap_or (mi_enabled i) true)
  end.

(* utils.rs:448-450, with Rust's precedence: (owned.is_none() && ref_.is_none()) || ref_mut.is_none() *)
Definition default_owned (metas : list meta_info) : bool :=
  match first_match metas with
  | None => true
  | Some i => (is_none (mi_owned i) && is_none (mi_ref i)) || is_none (mi_ref_mut i)
  end.

(* utils.rs:440-459: defaults (the struct-level attribute overrides them) and one FullMetaInfo per field *)
Definition defaults_of (smeta : meta_info) (metas : list meta_info) : full_info :=
  into_full smeta {| fi_enabled := default_enabled metas; fi_forward := false;
                     fi_owned := default_owned metas; fi_ref := false; fi_ref_mut := false |}.

Definition full_infos (smeta : meta_info) (metas : list meta_info) : list full_info :=
  map (fun i => into_full i (defaults_of smeta metas)) metas.

(* utils.rs:711 enabled_fields_indexes (the same filter drives enabled_fields / _idents / _infos) *)
Fixpoint enabled_from (k : nat) (l : list full_info) : list (nat * full_info) :=
  match l with
  | [] => []
  | i :: r => if fi_enabled i then (k, i) :: enabled_from (S k) r else enabled_from (S k) r
  end.

Definition enabled_fields (l : list full_info) : list (nat * full_info) := enabled_from 0 l.

(* utils.rs:561-585 assert_single_enabled_field (struct case) *)
Definition assert_single (l : list full_info) : diag + (nat * full_info) :=
  match enabled_fields l with
  | [x] => inr x
  | _ => inl DOneField
  end.

(* State::with_field_ignore* + assert_single_enabled_field: the selected field and its FullMetaInfo *)
Definition select (allowed : list akind) (sattrs : list attr) (fattrs : list (list attr))
  : diag + (nat * full_info) :=
  match get_meta_info allowed sattrs with
  | inl d => inl d
  | inr smeta =>
    match collect_metas allowed fattrs with
    | inl d => inl d
    | inr metas => assert_single (full_infos smeta metas)
    end
  end.

(* the selection seen through the `enabled` marks alone (None = no attribute, Some true = positive
   attribute, Some false = `ignore`); [se] is the struct-level mark *)
Definition marks_default (se : option bool) (marks : list (option bool)) : bool :=
  unwrap_or se (match find (fun m => negb (is_none m)) marks with
                | None => true
                | Some m => negb (unwrap_or m true)
                end).

Fixpoint marks_enabled_from (k : nat) (d : bool) (marks : list (option bool)) : list nat :=
  match marks with
  | [] => []
  | m :: r => if unwrap_or m d then k :: marks_enabled_from (S k) d r else marks_enabled_from (S k) d r
  end.

Definition select_idx (se : option bool) (marks : list (option bool)) : option nat :=
  match marks_enabled_from 0 (marks_default se marks) marks with
  | [i] => Some i
  | _ => None
  end.

Definition allowed_deref : list akind := [KIgnore; KForward].              (* deref.rs:8, deref_mut.rs:8 *)
Definition allowed_index : list akind := [KIgnore].                        (* index.rs:10, index_mut.rs:9 *)
Definition allowed_iter : list akind := [KIgnore; KOwned; KRef; KRefMut].  (* into_iterator.rs:11 *)

(* ------------------------------------------------------------------------------------------------ *)
(** * Emitted code: expression terms                                                                  *)

Inductive refkind := RNo | RRef | RMut.        (* utils.rs:53 RefType *)

Inductive target := TgBlanket (* `__AsT` *) | TgTy (t : ty).

Inductive trait :=
| TrDeref | TrDerefMut | TrIndex | TrIndexMut | TrIntoIter
| TrAs (m : bool) (t : target).                (* AsRef<t> / AsMut<t> *)

Inductive expr :=
| EField (i : nat)                                   (* `self.<member i>` *)
| ERef (e : expr)                                    (* `& e` *)
| ERefMut (e : expr)                                 (* `&mut e` *)
| ECall (rk : refkind) (fty : ty) (tr : trait) (a : expr) (idx : bool)
                                                     (* `<[&|&mut] fty as Trait>::method(a [, idx])` *)
| EExtract (m : bool) (fty rty : ty) (a : expr).     (* `(&&Conv::<&[mut] fty, rty>::default()).__extract_ref(a)` *)

Inductive assoc :=
| AsTy (t : ty)                                      (* `type X = fty;` *)
| AsProj (rk : refkind) (fty : ty) (tr : trait).     (* `type X = <[&] fty as Trait>::X;` *)

Record impl := {
  im_trait : trait;
  im_self : refkind;            (* impl for S / &S / &mut S *)
  im_field : nat;               (* the field the impl delegates to *)
  im_assoc : list assoc;        (* Target | Output | Item, IntoIter *)
  im_body : expr }.

Definition addr (m : bool) (e : expr) : expr := if m then ERefMut e else ERef e.

(* deref.rs:25-43 (m = false), deref_mut.rs:22-35 (m = true) *)
Definition deref_impl (m : bool) (info : full_info) (i : nat) (fty : ty) : impl :=
  let tr := if m then TrDerefMut else TrDeref in
  if fi_forward info then
    {| im_trait := tr; im_self := RNo; im_field := i;
       im_assoc := if m then [] else [AsProj RNo fty tr];
       im_body := ECall RNo fty tr (addr m (EField i)) false |}
  else
    {| im_trait := tr; im_self := RNo; im_field := i;
       im_assoc := if m then [] else [AsTy fty];
       im_body := addr m (EField i) |}.

(* index.rs:36-44 (m = false), index_mut.rs:35-41 (m = true) *)
Definition index_impl (m : bool) (i : nat) (fty : ty) : impl :=
  let tr := if m then TrIndexMut else TrIndex in
  {| im_trait := tr; im_self := RNo; im_field := i;
     im_assoc := if m then [] else [AsProj RNo fty tr];
     im_body := ECall RNo fty tr (addr m (EField i)) true |}.

(* utils.rs:1240 FullMetaInfo::ref_types *)
Definition ref_types (info : full_info) : list refkind :=
  (if fi_owned info then [RNo] else []) ++ (if fi_ref info then [RRef] else []) ++ (if fi_ref_mut info then [RMut] else []).

(* utils.rs:67 RefType::reference applied to the member *)
Definition reference (rk : refkind) (e : expr) : expr :=
  match rk with RNo => e | RRef => ERef e | RMut => ERefMut e end.

(* into_iterator.rs:24-61: one impl per reference kind *)
Definition iter_impl (rk : refkind) (i : nat) (fty : ty) : impl :=
  {| im_trait := TrIntoIter; im_self := rk; im_field := i;
     im_assoc := [AsProj rk fty TrIntoIter; AsProj rk fty TrIntoIter];
     im_body := ECall rk fty TrIntoIter (reference rk (EField i)) false |}.

Inductive dkind := DDeref | DDerefMut | DIndex | DIndexMut | DIntoIter.

Definition allowed_of (d : dkind) : list akind :=
  match d with
  | DDeref | DDerefMut => allowed_deref
  | DIndex | DIndexMut => allowed_index
  | DIntoIter => allowed_iter
  end.

Definition field_ty (fields : list (ty * list attr)) (i : nat) : ty :=
  match nth_error fields i with Some (t, _) => t | None => TId 0%N end.

(* the five `expand` functions on a struct: diagnostics or the list of impls *)
Definition derive_state (d : dkind) (sattrs : list attr) (fields : list (ty * list attr)) : diag + list impl :=
  match select (allowed_of d) sattrs (map snd fields) with
  | inl e => inl e
  | inr (i, info) =>
    let fty := field_ty fields i in
    inr match d with
        | DDeref => [deref_impl false info i fty]
        | DDerefMut => [deref_impl true info i fty]
        | DIndex => [index_impl false i fty]
        | DIndexMut => [index_impl true i fty]
        | DIntoIter => map (fun rk => iter_impl rk i fty) (ref_types info)
        end
  end.

(* ------------------------------------------------------------------------------------------------ *)
(** * AsRef / AsMut (as/mod.rs)                                                                       *)

(* one `#[as_ref(...)]` attribute as parsed by attr::Conversion (struct) / attr::FieldConversion (field) *)
Inductive sattr_as := SForward | STypes (tys : list ty) | SMalformed.
Inductive fattr_as := FEmpty | FSkip | FForward | FTypes (tys : list ty) | FMalformed.
Inductive conv := CForward | CTypes (tys : list ty).

(* utils.rs:1580 parse_attrs_with + the merge_attrs impls (:1624 Either, :1696 Empty, :1735 Forward,
   :1877 Skip, :1919 Types): only Types merges (by concatenation) *)
Fixpoint merge_sattrs (acc : option conv) (l : list sattr_as) : diag + option conv :=
  match l with
  | [] => inr acc
  | a :: r =>
    match a, acc with
    | SMalformed, _ => inl DSyn
    | SForward, None => merge_sattrs (Some CForward) r
    | STypes t, None => merge_sattrs (Some (CTypes t)) r
    | STypes t, Some (CTypes p) => merge_sattrs (Some (CTypes (p ++ t))) r
    | _, Some _ => inl DSyn
    end
  end.

Fixpoint merge_fattrs (acc : option fattr_as) (l : list fattr_as) : diag + option fattr_as :=
  match l with
  | [] => inr acc
  | a :: r =>
    match a, acc with
    | FMalformed, _ => inl DSyn
    | FTypes t, Some (FTypes p) => merge_fattrs (Some (FTypes (p ++ t))) r
    | _, None => merge_fattrs (Some a) r
    | _, Some _ => inl DSyn
    end
  end.

Fixpoint collect_fattrs (fields : list (ty * list fattr_as)) : diag + list (option fattr_as) :=
  match fields with
  | [] => inr []
  | (_, a) :: r =>
    match merge_fattrs None a with
    | inl d => inl d
    | inr o => match collect_fattrs r with inl d => inl d | inr l => inr (o :: l) end
    end
  end.

Definition is_skip (a : fattr_as) : bool := match a with FSkip => true | _ => false end.

(* utils.rs:2065 From<FieldConversion> for Option<Conversion> *)
Definition conv_of (a : fattr_as) : option conv :=
  match a with
  | FForward => Some CForward
  | FTypes t => Some (CTypes t)
  | _ => None
  end.

(* as/mod.rs:157 Expansion: field index, field type, conversions *)
Definition expansion := (nat * ty * option conv)%type.

Fixpoint expansions_all (k : nat) (fields : list (ty * list fattr_as)) (attrs : list (option fattr_as)) : list expansion :=
  match fields, attrs with
  | (t, _) :: fr, a :: ar =>
    match a with
    | None => (k, t, None) :: expansions_all (S k) fr ar          (* as/mod.rs:101-116 *)
    | Some _ => expansions_all (S k) fr ar
    end
  | _, _ => []
  end.

Fixpoint expansions_marked (k : nat) (fields : list (ty * list fattr_as)) (attrs : list (option fattr_as)) : list expansion :=
  match fields, attrs with
  | (t, _) :: fr, a :: ar =>
    match a with
    | Some FSkip | None => expansions_marked (S k) fr ar           (* as/mod.rs:135-136 (Skip is excluded earlier) *)
    | Some x => (k, t, conv_of x) :: expansions_marked (S k) fr ar (* as/mod.rs:123-134 *)
    end
  | _, _ => []
  end.

Fixpoint somes {A : Type} (l : list (option A)) : list A :=
  match l with
  | [] => []
  | Some x :: r => x :: somes r
  | None :: r => somes r
  end.

(* as/mod.rs:36-140: which fields are expanded, with which conversions *)
Definition as_expansions (sattrs : list sattr_as) (fields : list (ty * list fattr_as)) : diag + list expansion :=
  match merge_sattrs None sattrs with
  | inl d => inl d
  | inr (Some c) =>
    match fields with
    | [(t, fa)] =>
      match merge_fattrs None fa with
      | inl d => inl d
      | inr (Some _) => inl DSyn          (* "cannot be placed on both struct and its field" *)
      | inr None => inr [(0, t, Some c)]
      end
    | _ => inl DSyn                       (* "can only be placed on structs with exactly one field" *)
    end
  | inr None =>
    match collect_fattrs fields with
    | inl d => inl d
    | inr attrs =>
      let present := somes attrs in
      let all := forallb is_skip present in
      if all then inr (expansions_all 0 fields attrs)
      else if existsb is_skip present then inl DSyn   (* "skip cannot be used in the same struct with other attributes" *)
      else inr (expansions_marked 0 fields attrs)
    end
  end.

Inductive impl_kind := Direct | Forwarded | Specialized.     (* as/mod.rs:218-230 *)

(* as/mod.rs:232-240 *)
Definition as_impl_kind (g : generics) (is_blanket : bool) (fty : ty) (rty : ty) : impl_kind :=
  if is_blanket then Forwarded
  else if ty_eqb fty rty then Direct
  else if any_in g fty || any_in g rty then Forwarded
  else Specialized.

(* as/mod.rs:206-214 *)
Definition as_targets (c : option conv) (fty : ty) : list target :=
  match c with
  | Some CForward => [TgBlanket]
  | Some (CTypes tys) => map TgTy tys
  | None => [TgTy fty]
  end.

Definition target_ty (t : target) : ty := match t with TgTy x => x | TgBlanket => TId 0%N end.

Definition as_kind_of (g : generics) (fty : ty) (t : target) : impl_kind :=
  match t with
  | TgBlanket => Forwarded
  | TgTy r => as_impl_kind g false fty r
  end.

(* as/mod.rs:190, :267-280 *)
Definition as_body (m : bool) (k : impl_kind) (i : nat) (fty : ty) (t : target) : expr :=
  let field_ref := addr m (EField i) in
  match k with
  | Direct => field_ref
  | Forwarded => ECall RNo fty (TrAs m t) field_ref false
  | Specialized => EExtract m fty (target_ty t) field_ref
  end.

Definition as_impl (g : generics) (m : bool) (i : nat) (fty : ty) (t : target) : impl :=
  {| im_trait := TrAs m t; im_self := RNo; im_field := i; im_assoc := [];
     im_body := as_body m (as_kind_of g fty t) i fty t |}.

(* as/mod.rs:179-296 ToTokens for Expansion *)
Definition expansion_impls (g : generics) (m : bool) (e : expansion) : list impl :=
  match e with
  | (i, fty, c) => map (as_impl g m i fty) (as_targets c fty)
  end.

(* as/mod.rs:18-145 on a struct; [m] = AsMut *)
Definition derive_as (g : generics) (m : bool) (sattrs : list sattr_as) (fields : list (ty * list fattr_as))
  : diag + list impl :=
  match as_expansions sattrs fields with
  | inl d => inl d
  | inr es => inr (flat_map (expansion_impls g m) es)
  end.

(* the ImplKind of every impl, in order (what the tie compares with the shape of the real bodies) *)
Definition derive_as_kinds (g : generics) (sattrs : list sattr_as) (fields : list (ty * list fattr_as))
  : diag + list (nat * target * impl_kind) :=
  match as_expansions sattrs fields with
  | inl d => inl d
  | inr es => inr (flat_map (fun e => match e with (i, fty, c) =>
                     map (fun t => (i, t, as_kind_of g fty t)) (as_targets c fty) end) es)
  end.

(* ------------------------------------------------------------------------------------------------ *)
(** * src/as.rs: which `ExtractRef` impl `(&&conv).__extract_ref(..)` resolves to                     *)

Inductive extract_impl :=
| ErIdentity      (* src/as.rs:30-40 / :55-65  impl ExtractRef for &Conv<&'a [mut] T, T>      : returns `frm` *)
| ErViaAs.        (* src/as.rs:42-53 / :67-78  impl ExtractRef for Conv<&'a [mut] Frm, To>    : returns `frm.as_ref()` *)

(* Method probing on the receiver `&&Conv<&F, R>`: the by-value step finds the `&self` method of the impl
   for `&Conv<&T, T>` (applicable iff F and R are the SAME type for rustc, i.e. equal after alias
   resolution [norm]); only one autoderef step later the impl for `Conv<&Frm, To>` is reached. *)
Definition extract_candidates (norm : ty -> ty) (fty rty : ty) : list (extract_impl * bool) :=
  [ (ErIdentity, ty_eqb (norm fty) (norm rty)); (ErViaAs, true) ].

Definition extract_resolve (norm : ty -> ty) (fty rty : ty) : extract_impl :=
  match find (fun c => snd c) (extract_candidates norm fty rty) with
  | Some (x, _) => x
  | None => ErViaAs
  end.

(* ------------------------------------------------------------------------------------------------ *)
(** * Layer-2 semantics of the emitted expressions                                                    *)

(* what a method of the FIELD's type receives *)
Inductive arg :=
| APlace (i : nat)                 (* field i by value (moved out of `self`) *)
| AAddr (m : bool) (i : nat).      (* `&self.i` / `&mut self.i`: the address of field i's own storage *)

Section Sem.
  Variable A : Type.                                             (* results of user (field-type) impls *)
  Variable field_impl : trait -> refkind -> ty -> arg -> bool -> A.
                       (* the field type's OWN impl of the trait for [&|&mut] fty, applied to the receiver
                          (and to the caller's index when the flag is set): uninterpreted *)
  Variable norm : ty -> ty.                                      (* alias resolution, as rustc sees types *)

  Inductive result :=
  | RArg (a : arg)          (* the field itself (its storage / its address) *)
  | RImpl (x : A).          (* what the field's own impl returned *)

  Fixpoint eval (e : expr) : option result :=
    match e with
    | EField i => Some (RArg (APlace i))
    | ERef (EField i) => Some (RArg (AAddr false i))
    | ERefMut (EField i) => Some (RArg (AAddr true i))
    | ERef _ | ERefMut _ => None
    | ECall rk fty tr a idx =>
      match eval a with
      | Some (RArg x) => Some (RImpl (field_impl tr rk fty x idx))
      | _ => None
      end
    | EExtract m fty rty a =>
      match eval a with
      | Some (RArg x) =>
        match extract_resolve norm fty rty with
        | ErIdentity => Some (RArg x)
        | ErViaAs => Some (RImpl (field_impl (TrAs m (TgTy rty)) RNo fty x false))
        end
      | _ => None
      end
    end.

  (* a struct value is the list of its field values; writing through a `&mut` to field i's storage *)
  Variable V : Type.

  Fixpoint upd (st : list V) (i : nat) (v : V) : list V :=
    match st, i with
    | [], _ => []
    | _ :: r, O => v :: r
    | x :: r, S k => x :: upd r k v
    end.

  Definition write (st : list V) (r : option result) (v : V) : option (list V) :=
    match r with
    | Some (RArg (AAddr true i)) => if Nat.ltb i (length st) then Some (upd st i v) else None
    | _ => None
    end.

  Definition read (st : list V) (r : option result) : option V :=
    match r with
    | Some (RArg (AAddr _ i)) => nth_error st i
    | Some (RArg (APlace i)) => nth_error st i
    | _ => None
    end.
End Sem.

Arguments RArg {A} _.
Arguments RImpl {A} _.

(* ================================================================================================ *)
(** * Growth round: impl headers (added generic parameters, where-predicates) and non-struct items     *)

(* ------------------------------------------------------------------------------------------------ *)
(** ** The struct's own generics (syn::Generics): parameters in declaration order, opaque predicates   *)

Inductive gkind := KLife | KTy | KConst.

Definition gkind_eqb (a b : gkind) : bool :=
  match a, b with KLife, KLife | KTy, KTy | KConst, KConst => true | _, _ => false end.

Record sgenerics := {
  sg_params : list (gkind * N);      (* `'a`, `T`, `const N: usize` ... in source order, by identifier *)
  sg_where : list N }.               (* the struct's own where-predicates, opaque *)

Definition ids_of (k : gkind) (sg : sgenerics) : list N :=
  map snd (filter (fun p => gkind_eqb (fst p) k) (sg_params sg)).

(* as/mod.rs:192-200: the GenericsSearch built from `generics.type_params()/lifetimes()/const_params()` *)
Definition generics_of (sg : sgenerics) : generics :=
  {| g_types := ids_of KTy sg; g_lifetimes := ids_of KLife sg; g_consts := ids_of KConst sg |}.

Inductive iparam :=
| IOrig (k : gkind) (n : N)          (* a parameter of the struct *)
| ILifeDM                            (* `'__deriveMoreLifetime`        (into_iterator.rs:26-33) *)
| IIdxT                              (* `__IdxT`                       (index.rs:9, utils.rs:220-236) *)
| IAsT.                              (* `__AsT: ?Sized`                (as/mod.rs:253-257) *)

Inductive wpred :=
| WOrig (n : N)                                      (* a predicate of the struct *)
| WBound (rk : refkind) (fty : ty) (tr : trait).     (* `[&'l [mut]] fty: Trait` *)

Record header := { h_params : list iparam; h_where : list wpred }.

Definition is_life (p : iparam) : bool :=
  match p with IOrig KLife _ | ILifeDM => true | _ => false end.

(* syn: `ImplGenerics::to_tokens` prints the lifetime parameters first, whatever their position *)
Definition print_params (l : list iparam) : list iparam :=
  filter is_life l ++ filter (fun p => negb (is_life p)) l.

Definition orig_params (sg : sgenerics) : list iparam := map (fun p => IOrig (fst p) (snd p)) (sg_params sg).
Definition orig_where (sg : sgenerics) : list wpred := map WOrig (sg_where sg).

Definition params_of_kind (k : gkind) (sg : sgenerics) : list iparam :=
  map (fun n => IOrig k n) (ids_of k sg).

(* utils.rs:206-218 add_extra_where_clauses: the NEW predicate first, then the struct's own *)
Definition add_extra_where (sg : sgenerics) (p : wpred) : list wpred := p :: orig_where sg.

(* utils.rs:174-183 add_extra_generic_param: pushed at the end *)
Definition add_extra_param (sg : sgenerics) (p : iparam) : list iparam := orig_params sg ++ [p].

(* utils.rs:185-204 add_extra_generic_type_param: lifetimes, type params, the new one, const params *)
Definition add_extra_type_param (sg : sgenerics) (p : iparam) : list iparam :=
  params_of_kind KLife sg ++ params_of_kind KTy sg ++ [p] ++ params_of_kind KConst sg.

(* deref.rs:25-43, deref_mut.rs:22-35 *)
Definition deref_header (m : bool) (info : full_info) (sg : sgenerics) (fty : ty) : header :=
  {| h_params := print_params (orig_params sg);
     h_where := if fi_forward info then add_extra_where sg (WBound RNo fty (if m then TrDerefMut else TrDeref))
                else orig_where sg |}.

(* index.rs:22-34, index_mut.rs:21-33; utils.rs:220-236 is always called with ONE field and sized = true:
   a plain `__IdxT` *)
Definition index_header (m : bool) (sg : sgenerics) (fty : ty) : header :=
  {| h_params := print_params (add_extra_type_param sg IIdxT);
     h_where := add_extra_where sg (WBound RNo fty (if m then TrIndexMut else TrIndex)) |}.

(* into_iterator.rs:24-42: the lifetime only for the reference kinds; the bound always *)
Definition iter_header (rk : refkind) (sg : sgenerics) (fty : ty) : header :=
  {| h_params := print_params (match rk with RNo => orig_params sg | _ => add_extra_param sg ILifeDM end);
     h_where := add_extra_where sg (WBound rk fty TrIntoIter) |}.

(* as/mod.rs:246-265: only Forwarded touches the generics: the predicate is pushed LAST; blanket adds `__AsT` *)
Definition as_header (sg : sgenerics) (m : bool) (k : impl_kind) (fty : ty) (t : target) : header :=
  match k with
  | Forwarded =>
    {| h_params := print_params (match t with TgBlanket => add_extra_param sg IAsT | TgTy _ => orig_params sg end);
       h_where := orig_where sg ++ [WBound RNo fty (TrAs m t)] |}
  | Direct | Specialized =>
    {| h_params := print_params (orig_params sg); h_where := orig_where sg |}
  end.

Definition himpl := (impl * header)%type.

Definition state_himpls (d : dkind) (sg : sgenerics) (info : full_info) (i : nat) (fty : ty) : list himpl :=
  match d with
  | DDeref => [(deref_impl false info i fty, deref_header false info sg fty)]
  | DDerefMut => [(deref_impl true info i fty, deref_header true info sg fty)]
  | DIndex => [(index_impl false i fty, index_header false sg fty)]
  | DIndexMut => [(index_impl true i fty, index_header true sg fty)]
  | DIntoIter => map (fun rk => (iter_impl rk i fty, iter_header rk sg fty)) (ref_types info)
  end.

Definition derive_state_h (d : dkind) (sg : sgenerics) (sattrs : list attr) (fields : list (ty * list attr))
  : diag + list himpl :=
  match select (allowed_of d) sattrs (map snd fields) with
  | inl e => inl e
  | inr (i, info) => inr (state_himpls d sg info i (field_ty fields i))
  end.

Definition as_himpl (sg : sgenerics) (m : bool) (i : nat) (fty : ty) (t : target) : himpl :=
  let g := generics_of sg in
  (as_impl g m i fty t, as_header sg m (as_kind_of g fty t) fty t).

Definition derive_as_h (sg : sgenerics) (m : bool) (sattrs : list sattr_as) (fields : list (ty * list fattr_as))
  : diag + list himpl :=
  match as_expansions sattrs fields with
  | inl d => inl d
  | inr es => inr (flat_map (fun e => match e with (i, fty, c) => map (as_himpl sg m i fty) (as_targets c fty) end) es)
  end.

(* every forwarded (UFCS) call in a body, as (receiver kind, field type, trait) *)
Fixpoint calls (e : expr) : list (refkind * ty * trait) :=
  match e with
  | EField _ => []
  | ERef a | ERefMut a => calls a
  | ECall rk fty tr a _ => (rk, fty, tr) :: calls a
  | EExtract _ _ _ a => calls a
  end.

Fixpoint bounds_of (w : list wpred) : list (refkind * ty * trait) :=
  match w with
  | [] => []
  | WBound rk fty tr :: r => (rk, fty, tr) :: bounds_of r
  | WOrig _ :: r => bounds_of r
  end.

Fixpoint origs_of (w : list wpred) : list N :=
  match w with
  | [] => []
  | WOrig n :: r => n :: origs_of r
  | WBound _ _ _ :: r => origs_of r
  end.

Definition is_orig (p : iparam) : bool := match p with IOrig _ _ => true | _ => false end.

(* ------------------------------------------------------------------------------------------------ *)
(** ** Enums and unions                                                                               *)

(* utils.rs:376-395 / :247: a third diagnostic, `panic!("cannot derive(X) for union")` *)
Inductive diag' := DStruct (d : diag) | DUnion.

Fixpoint collect_variant_fields (allowed : list akind) (vs : list (list attr * list (list attr))) : option diag :=
  match vs with
  | [] => None
  | (_, fattrs) :: r =>
    match collect_metas allowed fattrs with           (* utils.rs:505-556 State::from_variant *)
    | inl d => Some d
    | inr _ => collect_variant_fields allowed r
    end
  end.

(* utils.rs:365-503 State::new_impl on an enum (AttrParams::new: the same parameter list at every level),
   then utils.rs:564-566: assert_single_enabled_field panics for DeriveType::Enum *)
Definition derive_state_enum (d : dkind) (sattrs : list attr) (variants : list (list attr * list (list attr))) : diag :=
  match get_meta_info (allowed_of d) sattrs with
  | inl e => e
  | inr _ =>
    match collect_metas (allowed_of d) (map fst variants) with
    | inl e => e
    | inr _ =>
      match collect_variant_fields (allowed_of d) variants with
      | Some e => e
      | None => DOneField
      end
    end
  end.

Inductive item :=
| IStruct (sattrs : list attr) (fields : list (ty * list attr))
| IEnum (sattrs : list attr) (variants : list (list attr * list (list attr)))
| IUnion.

Definition derive_state_item (d : dkind) (sg : sgenerics) (it : item) : diag' + list himpl :=
  match it with
  | IStruct sattrs fields =>
    match derive_state_h d sg sattrs fields with inl e => inl (DStruct e) | inr l => inr l end
  | IEnum sattrs variants => inl (DStruct (derive_state_enum d sattrs variants))
  | IUnion => inl DUnion
  end.

Inductive item_as :=
| AStruct (sattrs : list sattr_as) (fields : list (ty * list fattr_as))
| AEnum          (* as/mod.rs:26-29  "cannot be derived for enums"  - before any attribute is read *)
| AUnion.        (* as/mod.rs:30-33  "cannot be derived for unions" *)

Definition derive_as_item (sg : sgenerics) (m : bool) (it : item_as) : diag + list himpl :=
  match it with
  | AStruct sattrs fields => derive_as_h sg m sattrs fields
  | AEnum | AUnion => inl DSyn
  end.
