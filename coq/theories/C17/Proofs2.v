(** C17 - growth round: order independence and split/merge for the fmt containers and the Into lists,
    trailing commas and parameter order in the legacy meta parser, the position tables. *)
From Coq Require Import List NArith Bool Arith Lia Permutation.
Import ListNotations.
Require Import Verif.C17.Model Verif.C17.Proofs Verif.Gen.C17Allow.
Open Scope N_scope.

(* ------------------------------------------------------------------ option slots *)

Definition osome {A} (o : option A) : nat := match o with Some _ => 1 | None => 0 end.
Fixpoint first_some {A} (l : list (option A)) : option A :=
  match l with [] => None | Some x :: _ => Some x | None :: r => first_some r end.
Definition nsome {A} (l : list (option A)) : nat := fold_right (fun o n => (osome o + n)%nat) 0%nat l.

Lemma nsome_perm {A} (l l' : list (option A)) : Permutation l l' -> nsome l = nsome l'.
Proof. unfold nsome. induction 1; cbn [fold_right] in *; try lia. Qed.

Lemma first_some_perm {A} (l l' : list (option A)) :
  Permutation l l' -> (nsome l <= 1)%nat -> first_some l = first_some l'.
Proof.
  induction 1; intros Hn; cbn in *; auto.
  - destruct x; auto; try (apply IHPermutation; unfold nsome in *; cbn in *; lia).
  - destruct x, y; unfold nsome in *; cbn in *; auto; lia.
  - rewrite IHPermutation1 by auto. apply IHPermutation2. erewrite <- nsome_perm; eauto.
Qed.

Lemma in_nsome {A} (l : list (option A)) f : In (Some f) l -> (1 <= nsome l)%nat.
Proof.
  unfold nsome. induction l as [|o l IH]; intros Hi; [contradiction|]. cbn [fold_right].
  destruct Hi as [->|Hi]; cbn [osome]; [lia|]. specialize (IH Hi). lia.
Qed.

Lemma first_some_unique {A} (l : list (option A)) f :
  In (Some f) l -> (nsome l <= 1)%nat -> first_some l = Some f.
Proof.
  induction l as [|o l IH]; intros Hi Hn; [contradiction|].
  destruct o as [g|].
  - destruct Hi as [Hi|Hi].
    + injection Hi as ->. reflexivity.
    + exfalso. pose proof (in_nsome l f Hi). unfold nsome in *. cbn [fold_right osome] in Hn. lia.
  - destruct Hi as [Hi|Hi]; [discriminate|]. cbn [first_some].
    apply IH; auto; unfold nsome in *; cbn [fold_right osome] in Hn; lia.
Qed.

(* ------------------------------------------------------------------ Debug container: literal + bounds *)

Section FmtContainer.
  Variable pred : Type.
  Variable parse_pred : list tok -> option (pred * list tok).
  Variable fmt_args_ok : list tok -> bool.
  Let P := fcont_pm pred parse_pred fmt_args_ok.

  Definition fval (a : attr) : fcont pred :=
    match pm_parse P a with Ok c => c | Err _ => fcont_default pred end.
  Definition ffmts (l : list attr) := map (fun a => fc_fmt pred (fval a)) l.
  Definition fbounds (l : list attr) := concat (map (fun a => fc_bounds pred (fval a)) l).

  Lemma fcont_fold : forall (l : list attr) acc,
    Forall (fun a => exists x, pm_parse P a = Ok x) l ->
    fold_left (pa_step P) l (Ok (Some acc)) =
      if (nsome (fc_fmt pred acc :: ffmts l) <=? 1)%nat
      then Ok (Some {| fc_fmt := first_some (fc_fmt pred acc :: ffmts l);
                       fc_bounds := fc_bounds pred acc ++ fbounds l |})
      else Err ESingle.
  Proof.
    induction l as [|a l IH]; intros acc HF.
    - cbn [fold_left ffmts fbounds map concat nsome fold_right first_some]. rewrite app_nil_r.
      destruct acc as [[f|] b]; reflexivity.
    - pose proof (Forall_inv HF) as [x Hx]. pose proof (Forall_inv_tail HF) as HF'.
      cbn [fold_left]. unfold pa_step at 2. rewrite Hx. cbn [pm_merge P fcont_pm].
      assert (Ev : fval a = x) by (unfold fval; rewrite Hx; reflexivity).
      unfold ffmts, fbounds in *. cbn [map concat]. rewrite Ev.
      unfold fcont_merge. destruct acc as [fa ba], x as [fx bx]. cbn [fc_fmt fc_bounds].
      destruct fx as [gx|], fa as [ga|]; cbn [rmap].
      + rewrite fold_err. cbn [nsome fold_right osome].
        destruct (_ <=? 1)%nat eqn:E; [apply Nat.leb_le in E; lia|reflexivity].
      + rewrite IH by auto. cbn [fc_fmt fc_bounds nsome fold_right osome first_some]. rewrite app_assoc. reflexivity.
      + rewrite IH by auto. cbn [fc_fmt fc_bounds nsome fold_right osome first_some]. rewrite app_assoc. reflexivity.
      + rewrite IH by auto. cbn [fc_fmt fc_bounds nsome fold_right osome first_some]. rewrite app_assoc. reflexivity.
  Qed.

  (** closed form of an accepted / rejected set of container attributes *)
  Lemma fcont_result name attrs :
    Forall (fun a => exists x, pm_parse P a = Ok x) (named name attrs) ->
    parse_attrs P name attrs =
      match named name attrs with
      | [] => Ok None
      | L => if (nsome (ffmts L) <=? 1)%nat
             then Ok (Some {| fc_fmt := first_some (ffmts L); fc_bounds := fbounds L |})
             else Err ESingle
      end.
  Proof.
    unfold parse_attrs. destruct (named name attrs) as [|a l]; intros HF; [reflexivity|].
    pose proof (Forall_inv HF) as [x Hx]. pose proof (Forall_inv_tail HF) as HF'.
    cbn [fold_left]. unfold pa_step at 2. rewrite Hx. rewrite fcont_fold by auto.
    assert (Ev : fval a = x) by (unfold fval; rewrite Hx; reflexivity).
    unfold ffmts, fbounds. cbn [map concat]. rewrite Ev. reflexivity.
  Qed.

  Lemma fcont_result_ne name attrs :
    Forall (fun a => exists x, pm_parse P a = Ok x) (named name attrs) -> named name attrs <> [] ->
    parse_attrs P name attrs =
      if (nsome (ffmts (named name attrs)) <=? 1)%nat
      then Ok (Some {| fc_fmt := first_some (ffmts (named name attrs)); fc_bounds := fbounds (named name attrs) |})
      else Err ESingle.
  Proof.
    intros HF Hne. rewrite fcont_result by auto. destruct (named name attrs); [congruence|reflexivity].
  Qed.

  (** any order of the attributes: same literal, the bounds permuted accordingly *)
  Lemma fcont_order_independent name attrs attrs' c :
    Permutation attrs attrs' ->
    parse_attrs P name attrs = Ok (Some c) ->
    exists c', parse_attrs P name attrs' = Ok (Some c') /\
               fc_fmt pred c' = fc_fmt pred c /\ Permutation (fc_bounds pred c) (fc_bounds pred c').
  Proof.
    intros HP H. pose proof (parse_attrs_all_parsed _ _ _ _ H) as HF.
    assert (HPn : Permutation (named name attrs) (named name attrs')) by (apply Permutation_filter_; auto).
    assert (HF' : Forall (fun a => exists x, pm_parse P a = Ok x) (named name attrs')) by (eapply Permutation_Forall; eauto).
    rewrite fcont_result in H by auto. rewrite (fcont_result name attrs') by auto.
    destruct (named name attrs) as [|a0 l0] eqn:E; [discriminate|].
    destruct (named name attrs') as [|a1 l1] eqn:E'.
    { apply Permutation_sym, Permutation_nil in HPn. discriminate. }
    assert (Pf : Permutation (ffmts (a0 :: l0)) (ffmts (a1 :: l1))) by (apply Permutation_map; auto).
    cbv beta iota zeta in H |- *.
    destruct (nsome (ffmts (a0 :: l0)) <=? 1)%nat eqn:Eo; [|discriminate].
    rewrite <- (nsome_perm _ _ Pf), Eo. injection H as <-. eexists. split; [reflexivity|]. split.
    - change (first_some (ffmts (a1 :: l1)) = first_some (ffmts (a0 :: l0))).
      symmetry. apply first_some_perm; auto. apply Nat.leb_le; auto.
    - change (Permutation (fbounds (a0 :: l0)) (fbounds (a1 :: l1))).
      unfold fbounds. apply Permutation_concat_. apply Permutation_map. auto.
  Qed.

  (** nothing is dropped: the literal and every predicate of every attribute are in the result *)
  Lemma fcont_nothing_dropped name attrs c a x :
    parse_attrs P name attrs = Ok (Some c) -> In a (named name attrs) -> pm_parse P a = Ok x ->
    (forall f, fc_fmt pred x = Some f -> fc_fmt pred c = Some f) /\
    (forall p, In p (fc_bounds pred x) -> In p (fc_bounds pred c)).
  Proof.
    intros H Hin Hx. pose proof (parse_attrs_all_parsed _ _ _ _ H) as HF.
    rewrite fcont_result in H by auto.
    destruct (named name attrs) as [|a0 l0] eqn:E; [contradiction|]. cbv beta iota zeta in H.
    destruct (nsome (ffmts (a0 :: l0)) <=? 1)%nat eqn:Eo; [|discriminate]. injection H as <-.
    assert (Ev : fval a = x) by (unfold fval; rewrite Hx; reflexivity). split.
    - intros f Hf. apply Nat.leb_le in Eo. change (first_some (ffmts (a0 :: l0)) = Some f).
      apply first_some_unique; auto. unfold ffmts. apply in_map_iff. exists a. split; auto. rewrite Ev. auto.
    - intros p Hp. change (In p (fbounds (a0 :: l0))). unfold fbounds. apply in_concat. exists (fc_bounds pred x). split; auto.
      apply in_map_iff. exists a. rewrite Ev. auto.
  Qed.

  (** `#[a(bound(p1, .., pn))]` parses to exactly p1..pn, with or without a trailing comma inside `bound(..)` *)
  Lemma bounds_attr_parse n kw tail (segs : list (list tok * pred)) :
    kw = k_bound \/ kw = k_bounds -> tail = [] \/ tail = [TComma] ->
    Forall (fun sa => complete parse_pred (fst sa) (snd sa)) segs -> segs <> [] ->
    pm_parse P (mk n [TId kw; TGr 0 (join (map fst segs) ++ tail)]) =
      Ok {| fc_fmt := None; fc_bounds := map snd segs |}.
  Proof.
    intros Hk Ht HF Hne. unfold P. cbn [pm_parse fcont_pm]. unfold parse_args, mk. cbn [a_meta].
    assert (K : is_rust_keyword kw = false /\ (kw =? k_fmt) = false /\ is_bound_kw kw = true /\ (forall t, is_eq t && (kw =? k_bound) = is_eq t && (kw =? k_bound)))
      by (destruct Hk; subst; repeat split; reflexivity).
    destruct K as (K1 & K2 & K3 & _).
    unfold fcont_sp, check_legacy_fmt. rewrite path_ident_id by auto. cbn [starts_path_cont is_eq andb bind].
    unfold either_sp, fmt_sp, check_legacy_fmt. rewrite path_ident_id by auto. cbn [starts_path_cont is_eq andb bind].
    unfold bounds_sp, check_legacy_bound. rewrite path_ident_id by auto. cbn [starts_path_cont is_eq andb bind].
    rewrite K3. rewrite parse_terminated_join by auto. reflexivity.
  Qed.

  (** one attribute listing several predicates == several attributes listing one each *)
  Lemma bounds_merge name kw (segs : list (list tok * pred)) :
    kw = k_bound \/ kw = k_bounds ->
    Forall (fun sa => complete parse_pred (fst sa) (snd sa)) segs -> segs <> [] ->
    parse_attrs P name [mk name [TId kw; TGr 0 (join (map fst segs))]]
      = Ok (Some {| fc_fmt := None; fc_bounds := map snd segs |}) /\
    parse_attrs P name (map (fun sa => mk name [TId kw; TGr 0 (fst sa)]) segs)
      = Ok (Some {| fc_fmt := None; fc_bounds := map snd segs |}).
  Proof.
    intros Hk HF Hne.
    assert (S1 : forall sa, complete parse_pred (fst sa) (snd sa) ->
                 pm_parse P (mk name [TId kw; TGr 0 (fst sa)]) = Ok {| fc_fmt := None; fc_bounds := [snd sa] |}).
    { intros [s a] Hc. pose proof (bounds_attr_parse name kw [] [(s, a)] Hk (or_introl eq_refl)) as H.
      cbn [map fst snd join] in H. rewrite app_nil_r in H. apply H; [constructor; auto|congruence]. }
    pose proof (bounds_attr_parse name kw [] segs Hk (or_introl eq_refl) HF Hne) as W. rewrite app_nil_r in W.
    split.
    - rewrite fcont_result;
        replace (named name [mk name [TId kw; TGr 0 (join (map fst segs))]]) with [mk name [TId kw; TGr 0 (join (map fst segs))]]
          by (unfold named, mk; cbn [filter a_name]; rewrite N.eqb_refl; reflexivity).
      + unfold ffmts, fbounds, fval. cbn [map concat]. rewrite W. cbn. rewrite app_nil_r. reflexivity.
      + constructor; eauto.
    - assert (Hn : named name (map (fun sa : list tok * pred => mk name [TId kw; TGr 0 (fst sa)]) segs)
                   = map (fun sa => mk name [TId kw; TGr 0 (fst sa)]) segs).
      { unfold named. clear. induction segs as [|sa l IH]; cbn; auto. rewrite N.eqb_refl. f_equal. auto. }
      assert (C : forall l0, Forall (fun sa => complete parse_pred (fst sa) (snd sa)) l0 ->
                  ffmts (map (fun sa : list tok * pred => mk name [TId kw; TGr 0 (fst sa)]) l0) = map (fun _ => None) l0 /\
                  fbounds (map (fun sa : list tok * pred => mk name [TId kw; TGr 0 (fst sa)]) l0) = map snd l0).
      { induction l0 as [|x l0 IH]; intros HF0; [split; reflexivity|].
        pose proof (Forall_inv HF0) as Hx; pose proof (Forall_inv_tail HF0) as HF1. destruct (IH HF1) as [I1 I2].
        unfold ffmts, fbounds in *. cbn [map concat]. unfold fval at 1 3. rewrite (S1 x Hx). cbn [fc_fmt fc_bounds app].
        rewrite I1, I2. split; reflexivity. }
      destruct (C segs HF) as [C1 C2].
      rewrite fcont_result_ne; rewrite Hn.
      + rewrite C1, C2.
        assert (Z : forall (l1 : list (list tok * pred)), nsome (map (fun _ => @None fmtattr) l1) = 0%nat /\ first_some (map (fun _ => @None fmtattr) l1) = None).
        { induction l1 as [|y l1 [I1 I2]]; [split; reflexivity|]. split; [exact I1|exact I2]. }
        destruct (Z segs) as [Z1 Z2]. rewrite Z1, Z2. reflexivity.
      + rewrite Forall_map. eapply Forall_impl; [|exact HF]. intros sa Hc. rewrite S1 by auto. eauto.
      + destruct segs; [exfalso; apply Hne; reflexivity|discriminate].
  Qed.

  Lemma bounds_trailing_comma name kw (segs : list (list tok * pred)) :
    kw = k_bound \/ kw = k_bounds ->
    Forall (fun sa => complete parse_pred (fst sa) (snd sa)) segs -> segs <> [] ->
    pm_parse P (mk name [TId kw; TGr 0 (join (map fst segs) ++ [TComma])]) =
    pm_parse P (mk name [TId kw; TGr 0 (join (map fst segs))]).
  Proof.
    intros Hk HF Hne.
    rewrite (bounds_attr_parse name kw [TComma] segs Hk (or_intror eq_refl) HF Hne).
    pose proof (bounds_attr_parse name kw [] segs Hk (or_introl eq_refl) HF Hne) as W. rewrite app_nil_r in W.
    rewrite W. reflexivity.
  Qed.
End FmtContainer.

(* ------------------------------------------------------------------ Display-family container: rename_all + literal + bounds *)

Section DisplayContainer.
  Variable pred : Type.
  Variable parse_pred : list tok -> option (pred * list tok).
  Variable fmt_args_ok : list tok -> bool.
  Let P := dcont_pm pred parse_pred fmt_args_ok.

  Definition dval (a : attr) : dcont pred :=
    match pm_parse P a with Ok c => c | Err _ => {| dc_rename := None; dc_common := fcont_default pred |} end.
  Definition drens (l : list attr) := map (fun a => dc_rename pred (dval a)) l.
  Definition dfmts (l : list attr) := map (fun a => fc_fmt pred (dc_common pred (dval a))) l.
  Definition dbounds (l : list attr) := concat (map (fun a => fc_bounds pred (dc_common pred (dval a))) l).

  Lemma dcont_fold : forall (l : list attr) acc,
    Forall (fun a => exists x, pm_parse P a = Ok x) l ->
    fold_left (pa_step P) l (Ok (Some acc)) =
      if ((nsome (dc_rename pred acc :: drens l) <=? 1) && (nsome (fc_fmt pred (dc_common pred acc) :: dfmts l) <=? 1))%nat
      then Ok (Some {| dc_rename := first_some (dc_rename pred acc :: drens l);
                       dc_common := {| fc_fmt := first_some (fc_fmt pred (dc_common pred acc) :: dfmts l);
                                       fc_bounds := fc_bounds pred (dc_common pred acc) ++ dbounds l |} |})
      else Err ESingle.
  Proof.
    induction l as [|a l IH]; intros acc HF.
    - cbn [fold_left drens dfmts dbounds map concat]. rewrite app_nil_r.
      destruct acc as [[r|] [[f|] b]]; reflexivity.
    - pose proof (Forall_inv HF) as [x Hx]. pose proof (Forall_inv_tail HF) as HF'.
      cbn [fold_left]. unfold pa_step at 2. rewrite Hx. cbn [pm_merge P dcont_pm].
      assert (Ev : dval a = x) by (unfold dval; rewrite Hx; reflexivity).
      unfold drens, dfmts, dbounds in *. cbn [map concat]. rewrite Ev.
      unfold dcont_merge, fcont_merge.
      destruct acc as [ra [fa ba]], x as [rx [fx bx]]. cbn [dc_rename dc_common fc_fmt fc_bounds].
      destruct rx as [rx'|], ra as [ra'|]; cbn [rmap];
      destruct fx as [fx'|], fa as [fa'|]; cbn [rmap];
      try (rewrite fold_err; unfold nsome; cbn [fold_right osome Nat.add Nat.leb andb]; rewrite ?andb_false_r; reflexivity);
      rewrite IH by auto; unfold nsome; cbn [dc_rename dc_common fc_fmt fc_bounds fold_right osome first_some Nat.add];
      rewrite app_assoc; reflexivity.
  Qed.

  Lemma dcont_result_ne name attrs :
    Forall (fun a => exists x, pm_parse P a = Ok x) (named name attrs) -> named name attrs <> [] ->
    parse_attrs P name attrs =
      let L := named name attrs in
      if ((nsome (drens L) <=? 1) && (nsome (dfmts L) <=? 1))%nat
      then Ok (Some {| dc_rename := first_some (drens L);
                       dc_common := {| fc_fmt := first_some (dfmts L); fc_bounds := dbounds L |} |})
      else Err ESingle.
  Proof.
    unfold parse_attrs. destruct (named name attrs) as [|a l]; intros HF Hne; [congruence|].
    pose proof (Forall_inv HF) as [x Hx]. pose proof (Forall_inv_tail HF) as HF'.
    cbn [fold_left]. unfold pa_step at 2. rewrite Hx. rewrite dcont_fold by auto.
    assert (Ev : dval a = x) by (unfold dval; rewrite Hx; reflexivity).
    cbv zeta. unfold drens, dfmts, dbounds. cbn [map concat]. rewrite Ev. reflexivity.
  Qed.

  (** any order of `rename_all`, the literal and the `bound(..)` attributes of one item: same casing, same
      literal, the bounds permuted accordingly *)
  Lemma dcont_order_independent name attrs attrs' c :
    Permutation attrs attrs' ->
    parse_attrs P name attrs = Ok (Some c) ->
    exists c', parse_attrs P name attrs' = Ok (Some c') /\
               dc_rename pred c' = dc_rename pred c /\
               fc_fmt pred (dc_common pred c') = fc_fmt pred (dc_common pred c) /\
               Permutation (fc_bounds pred (dc_common pred c)) (fc_bounds pred (dc_common pred c')).
  Proof.
    intros HP H. pose proof (parse_attrs_all_parsed _ _ _ _ H) as HF.
    assert (HPn : Permutation (named name attrs) (named name attrs')) by (apply Permutation_filter_; auto).
    assert (HF' : Forall (fun a => exists x, pm_parse P a = Ok x) (named name attrs')) by (eapply Permutation_Forall; eauto).
    assert (Hne : named name attrs <> []).
    { intros E. unfold parse_attrs in H. rewrite E in H. discriminate. }
    assert (Hne' : named name attrs' <> []).
    { intros E. rewrite E in HPn. apply Permutation_sym, Permutation_nil in HPn. auto. }
    rewrite dcont_result_ne in H by auto. rewrite (dcont_result_ne name attrs') by auto. cbv zeta in *.
    set (L := named name attrs) in *. set (L' := named name attrs') in *.
    assert (Pr : Permutation (drens L) (drens L')) by (apply Permutation_map; auto).
    assert (Pf : Permutation (dfmts L) (dfmts L')) by (apply Permutation_map; auto).
    destruct (nsome (drens L) <=? 1)%nat eqn:Er; [|discriminate].
    destruct (nsome (dfmts L) <=? 1)%nat eqn:Ef; [|discriminate]. cbn [andb] in H.
    rewrite <- (nsome_perm _ _ Pr), <- (nsome_perm _ _ Pf), Er, Ef. cbn [andb]. injection H as <-.
    eexists. split; [reflexivity|]. split; [|split].
    - change (first_some (drens L') = first_some (drens L)). symmetry. apply first_some_perm; auto. apply Nat.leb_le; auto.
    - change (first_some (dfmts L') = first_some (dfmts L)). symmetry. apply first_some_perm; auto. apply Nat.leb_le; auto.
    - change (Permutation (dbounds L) (dbounds L')). unfold dbounds. apply Permutation_concat_. apply Permutation_map. auto.
  Qed.

  (** nothing is dropped *)
  Lemma dcont_nothing_dropped name attrs c a x :
    parse_attrs P name attrs = Ok (Some c) -> In a (named name attrs) -> pm_parse P a = Ok x ->
    (forall r, dc_rename pred x = Some r -> dc_rename pred c = Some r) /\
    (forall f, fc_fmt pred (dc_common pred x) = Some f -> fc_fmt pred (dc_common pred c) = Some f) /\
    (forall p, In p (fc_bounds pred (dc_common pred x)) -> In p (fc_bounds pred (dc_common pred c))).
  Proof.
    intros H Hin Hx. pose proof (parse_attrs_all_parsed _ _ _ _ H) as HF.
    assert (Hne : named name attrs <> []) by (intros E; rewrite E in Hin; contradiction).
    rewrite dcont_result_ne in H by auto. cbv zeta in H. set (L := named name attrs) in *.
    destruct (nsome (drens L) <=? 1)%nat eqn:Er; [|discriminate].
    destruct (nsome (dfmts L) <=? 1)%nat eqn:Ef; [|discriminate]. cbn [andb] in H. injection H as <-.
    assert (Ev : dval a = x) by (unfold dval; rewrite Hx; reflexivity). apply Nat.leb_le in Er, Ef.
    split; [|split].
    - intros r Hr. change (first_some (drens L) = Some r). apply first_some_unique; auto.
      unfold drens. apply in_map_iff. exists a. rewrite Ev. auto.
    - intros f Hf. change (first_some (dfmts L) = Some f). apply first_some_unique; auto.
      unfold dfmts. apply in_map_iff. exists a. rewrite Ev. auto.
    - intros p Hp. change (In p (dbounds L)). unfold dbounds. apply in_concat. exists (fc_bounds pred (dc_common pred x)).
      split; auto. apply in_map_iff. exists a. rewrite Ev. auto.
  Qed.
End DisplayContainer.

(* ------------------------------------------------------------------ Into: owned / ref / ref_mut lists *)

Lemma existsb_perm {X} (f : X -> bool) l l' : Permutation l l' -> existsb f l = existsb f l'.
Proof.
  induction 1; cbn; auto.
  - rewrite IHPermutation. reflexivity.
  - destruct (f x), (f y); reflexivity.
  - congruence.
Qed.

Section IntoLists.
  Variable ty : Type.
  Variable parse_type : list tok -> option (ty * list tok).
  Variable lg : bool.
  Let P := convs_pm ty parse_type lg.

  Definition cval (a : attr) : convs ty := match pm_parse P a with Ok c => c | Err _ => convs_empty ty end.

  Lemma convs_fold : forall (l : list attr) acc,
    Forall (fun a => exists x, pm_parse P a = Ok x) l ->
    fold_left (pa_step P) l (Ok (Some acc)) = Ok (Some (fold_left (convs_merge ty) (map cval l) acc)).
  Proof.
    induction l as [|a l IH]; intros acc HF; [reflexivity|].
    pose proof (Forall_inv HF) as [x Hx]. pose proof (Forall_inv_tail HF) as HF'.
    cbn [fold_left map]. unfold pa_step at 2. rewrite Hx. cbn [pm_merge P convs_pm rmap].
    rewrite IH by auto. replace (cval a) with x by (unfold cval; rewrite Hx; reflexivity). reflexivity.
  Qed.

  (** one of the three lists *)
  Variable slot : convs ty -> convs1 ty.
  Hypothesis slot_merge : forall p n, slot (convs_merge ty p n) = convs1_merge ty (slot p) (slot n).

  Lemma slot_fold : forall (cs : list (convs ty)) acc,
    cv_tys ty (slot (fold_left (convs_merge ty) cs acc)) = cv_tys ty (slot acc) ++ concat (map (fun c => cv_tys ty (slot c)) cs) /\
    cv_fields ty (slot (fold_left (convs_merge ty) cs acc)) = cv_fields ty (slot acc) || existsb (fun c => cv_fields ty (slot c)) cs.
  Proof.
    induction cs as [|c cs IH]; intros acc; cbn [fold_left map concat existsb].
    - rewrite app_nil_r, orb_false_r. auto.
    - destruct (IH (convs_merge ty acc c)) as [I1 I2]. rewrite I1, I2, slot_merge. unfold convs1_merge. cbn [cv_tys cv_fields].
      rewrite app_assoc, orb_assoc. auto.
  Qed.

  Lemma convs_slot_result name attrs c :
    parse_attrs P name attrs = Ok (Some c) ->
    cv_tys ty (slot c) = concat (map (fun a => cv_tys ty (slot (cval a))) (named name attrs)) /\
    cv_fields ty (slot c) = existsb (fun a => cv_fields ty (slot (cval a))) (named name attrs).
  Proof.
    intros H. pose proof (parse_attrs_all_parsed _ _ _ _ H) as HF. unfold parse_attrs in H.
    destruct (named name attrs) as [|a l]; [discriminate|].
    pose proof (Forall_inv HF) as [x Hx]. pose proof (Forall_inv_tail HF) as HF'.
    cbn [fold_left] in H. unfold pa_step at 2 in H. rewrite Hx in H. rewrite convs_fold in H by auto. injection H as <-.
    destruct (slot_fold (map cval l) x) as [I1 I2]. rewrite I1, I2. cbn [map concat existsb].
    assert (Ev : cval a = x) by (unfold cval; rewrite Hx; reflexivity). rewrite Ev, !map_map.
    split; [reflexivity|]. f_equal. clear. induction l; cbn; auto. rewrite IHl. reflexivity.
  Qed.

  (** any order of the `#[into(..)]` attributes of one item: per list, the same "field types" flag and the
      listed types permuted accordingly; and every listed type / flag reaches the result *)
  Lemma convs_order_independent name attrs attrs' c :
    Permutation attrs attrs' ->
    parse_attrs P name attrs = Ok (Some c) ->
    exists c', parse_attrs P name attrs' = Ok (Some c') /\
               cv_fields ty (slot c') = cv_fields ty (slot c) /\ Permutation (cv_tys ty (slot c)) (cv_tys ty (slot c')).
  Proof.
    intros HP H. pose proof (parse_attrs_all_parsed _ _ _ _ H) as HF.
    assert (HPn : Permutation (named name attrs) (named name attrs')) by (apply Permutation_filter_; auto).
    assert (HF' : Forall (fun a => exists x, pm_parse P a = Ok x) (named name attrs')) by (eapply Permutation_Forall; eauto).
    assert (exists c', parse_attrs P name attrs' = Ok (Some c')) as [c' Hc'].
    { unfold parse_attrs in *. destruct (named name attrs') as [|a l] eqn:E.
      - apply Permutation_sym, Permutation_nil in HPn. rewrite HPn in H. discriminate.
      - pose proof (Forall_inv HF') as [x Hx]. cbn [fold_left]. unfold pa_step at 2. rewrite Hx.
        rewrite convs_fold by (eapply Forall_inv_tail; eauto). eauto. }
    exists c'. split; auto.
    destruct (convs_slot_result _ _ _ H) as [T1 F1]. destruct (convs_slot_result _ _ _ Hc') as [T2 F2].
    rewrite T1, T2, F1, F2. split.
    - symmetry. apply existsb_perm. auto.
    - apply Permutation_concat_. apply Permutation_map. auto.
  Qed.
End IntoLists.

(* ------------------------------------------------------------------ legacy meta parser: fuel, trailing commas *)

(** the per-element step of [lmeta_list] (utils.rs:886-1038), with the fuel of the nested call *)
Definition lmeta_here (f : nat) (info : minfo) (m : lmeta) (allowed : list N) (w : wrapper) : res minfo :=
  match m with
  | LList i inner =>
      if i =? k_not then
        match w with
        | WNone => lmeta_list f info inner allowed WNot
        | _ => Err EUnknown
        end
      else if negb (mem i allowed) then Err EUnknown
      else match w with
           | WNone =>
               if i =? k_owned then lmeta_list f (set_owned info true) inner allowed (WOther i)
               else if i =? k_ref then lmeta_list f (set_ref info true) inner allowed (WOther i)
               else if i =? k_ref_mut then lmeta_list f (set_ref_mut info true) inner allowed (WOther i)
               else if i =? k_types then Err EUnsupported
               else Err EUnknown
           | WOther j =>
               if (i =? k_types) && ((j =? k_owned) || (j =? k_ref) || (j =? k_ref_mut))
               then Err EUnsupported else Err EUnknown
           | WNot => Err EUnknown
           end
  | LPath i => if negb (mem i allowed) then Err EUnknown else lpath_apply info w i
  end.

Lemma lmeta_list_step f info t ts allowed w :
  lmeta_list (S f) info (t :: ts) allowed w =
    match lmeta_sp (t :: ts) with
    | None => Err EParse
    | Some (m, rest) =>
        match lmeta_here f info m allowed w with
        | Err e => Err e
        | Ok info' =>
            match rest with
            | [] => Ok info'
            | c :: rest' => if is_comma c then lmeta_list f info' rest' allowed w else Err EParse
            end
        end
    end.
Proof. reflexivity. Qed.

Lemma toks_size_app a b : toks_size (a ++ b) = (toks_size a + toks_size b)%nat.
Proof. unfold toks_size. induction a as [|t a IH]; cbn [app fold_right]; [reflexivity|]. rewrite IH. lia. Qed.

Lemma tok_size_pos t : (1 <= tok_size t)%nat.
Proof. destruct t; cbn; lia. Qed.

(** what [lmeta_sp] consumes *)
Lemma lmeta_sp_sizes ts m rest :
  lmeta_sp ts = Some (m, rest) ->
  (toks_size rest < toks_size ts)%nat /\
  (forall i inner, m = LList i inner -> (toks_size inner + 2 + toks_size rest <= toks_size ts)%nat).
Proof.
  intros H. destruct (lmeta_sp_inv _ _ _ H) as (i & r & -> & [(inner & -> & ->)|(-> & ->)]).
  - split.
    + unfold toks_size. cbn [fold_right tok_size]. lia.
    + intros j inn E. injection E as <- <-. unfold toks_size. cbn [fold_right tok_size]. lia.
  - split; [unfold toks_size; cbn [fold_right tok_size]; lia|]. intros j inn E. discriminate.
Qed.

(** enough fuel: the result does not depend on it *)
Lemma lmeta_fuel_enough : forall f info ts allowed w,
  (toks_size ts < f)%nat -> lmeta_list f info ts allowed w = lmeta_list (S f) info ts allowed w.
Proof.
  induction f as [|f IH]; intros info ts allowed w Hs; [lia|].
  destruct ts as [|t ts']; [reflexivity|].
  rewrite (lmeta_list_step f), (lmeta_list_step (S f)).
  destruct (lmeta_sp (t :: ts')) as [[m rest]|] eqn:Es; [|reflexivity].
  destruct (lmeta_sp_sizes _ _ _ Es) as [Hr Hi].
  assert (Hh : lmeta_here f info m allowed w = lmeta_here (S f) info m allowed w).
  { destruct m as [i|i inner]; [reflexivity|]. specialize (Hi i inner eq_refl).
    unfold lmeta_here. destruct (i =? k_not).
    - destruct w; auto. apply IH. lia.
    - destruct (negb (mem i allowed)); auto. destruct w; auto.
      destruct (i =? k_owned); [apply IH; lia|]. destruct (i =? k_ref); [apply IH; lia|].
      destruct (i =? k_ref_mut); [apply IH; lia|]. reflexivity. }
  rewrite <- Hh. destruct (lmeta_here f info m allowed w) as [info'|e]; [|reflexivity].
  destruct rest as [|c rest']; [reflexivity|]. destruct (is_comma c); [|reflexivity].
  apply IH. unfold toks_size in *. cbn [fold_right] in *. pose proof (tok_size_pos c). lia.
Qed.

Lemma lmeta_fuel_ge f g info ts allowed w :
  (toks_size ts < f)%nat -> (f <= g)%nat -> lmeta_list g info ts allowed w = lmeta_list f info ts allowed w.
Proof.
  intros Hs Hg. induction Hg as [|g Hg IH]; [reflexivity|]. rewrite <- lmeta_fuel_enough by lia. exact IH.
Qed.

Definition ends_comma (ts : list tok) : bool := is_comma (last ts (TId 0)).

Lemma last_app_ne {X} (a b : list X) d : b <> [] -> last (a ++ b) d = last b d.
Proof.
  intros Hb. induction a as [|x a IH]; [reflexivity|]. cbn [app].
  destruct (a ++ b) as [|y l] eqn:E; [apply app_eq_nil in E; tauto|]. cbn [last]. exact IH.
Qed.

Lemma lmeta_sp_app ts m rest :
  lmeta_sp ts = Some (m, rest) -> lmeta_sp (ts ++ [TComma]) = Some (m, rest ++ [TComma]).
Proof.
  intros H. destruct (lmeta_sp_inv _ _ _ H) as (i & r & -> & [(inner & -> & ->)|(-> & ->)]).
  - reflexivity.
  - unfold lmeta_sp in *. cbn [app].
    destruct rest as [|[j|c|s|s|d inner] r']; try reflexivity.
    + cbn [app]. destruct ((c =? c_colon) || (c =? c_lt)); [discriminate|reflexivity].
    + cbn [app]. destruct d; try reflexivity. discriminate.
Qed.

Lemma lmeta_sp_app_none ts : ts <> [] -> lmeta_sp ts = None -> lmeta_sp (ts ++ [TComma]) = None.
Proof.
  intros Hne H. unfold lmeta_sp in *. destruct ts as [|[i|c|s|s|d inner] r]; try congruence; try reflexivity.
  cbn [app]. destruct r as [|[j|c|s|s|d inner] r']; try discriminate; cbn [app] in *.
  - destruct ((c =? c_colon) || (c =? c_lt)); [reflexivity|discriminate].
  - destruct d; discriminate.
Qed.

(** a trailing comma after a non-empty list that does not already end with a comma changes nothing,
    at every nesting level (the nested call of `not(..)`, `owned(..)`, .. is the same function) *)
Lemma lmeta_trailing_comma : forall f info ts allowed w,
  ts <> [] -> ends_comma ts = false -> (toks_size ts + 1 < f)%nat ->
  lmeta_list f info (ts ++ [TComma]) allowed w = lmeta_list f info ts allowed w.
Proof.
  induction f as [|f IH]; intros info ts allowed w Hne He Hs; [lia|].
  destruct ts as [|t ts']; [congruence|].
  change ((t :: ts') ++ [TComma]) with (t :: (ts' ++ [TComma])). rewrite !lmeta_list_step.
  change (t :: ts' ++ [TComma]) with ((t :: ts') ++ [TComma]).
  destruct (lmeta_sp (t :: ts')) as [[m rest]|] eqn:Es.
  - rewrite (lmeta_sp_app _ _ _ Es).
    destruct (lmeta_sp_sizes _ _ _ Es) as [Hr _].
    destruct (lmeta_here f info m allowed w) as [info'|e]; [|reflexivity].
    destruct rest as [|c rest'].
    + cbn [app]. replace (is_comma TComma) with true by reflexivity. destruct f; [lia|reflexivity].
    + cbn [app]. destruct (is_comma c) eqn:Ec; [|reflexivity].
      assert (Hpre : exists pre, t :: ts' = pre ++ c :: rest').
      { destruct (lmeta_sp_inv _ _ _ Es) as (i & r & E & [(inner & -> & _)|(-> & _)]); injection E as -> ->.
        - exists [TId i; TGr 0 inner]. reflexivity.
        - exists [TId i]. reflexivity. }
      destruct Hpre as [pre Hpre].
      destruct rest' as [|t2 rest2].
      * exfalso. unfold ends_comma in He. rewrite Hpre in He. rewrite last_app_ne in He by discriminate.
        cbn [last] in He. congruence.
      * apply IH; [discriminate| |].
        -- unfold ends_comma in *. rewrite Hpre in He. rewrite last_app_ne in He by discriminate.
           cbn [last] in He. cbn [last]. exact He.
        -- unfold toks_size in *. cbn [fold_right] in *. pose proof (tok_size_pos c). lia.
  - rewrite lmeta_sp_app_none by (auto; discriminate). reflexivity.
Qed.

(** at the level of one attribute: `#[a(x, y,)]` == `#[a(x, y)]` *)
Lemma legacy_trailing_comma name ts allowed :
  ts <> [] -> ends_comma ts = false ->
  get_meta_info name [mk name (ts ++ [TComma])] allowed = get_meta_info name [mk name ts] allowed.
Proof.
  intros Hne He. unfold get_meta_info, named, mk. cbn [filter a_name]. rewrite N.eqb_refl. cbn [a_meta].
  destruct allowed as [|a0 al]; [reflexivity|].
  rewrite lmeta_trailing_comma; auto.
  - apply lmeta_fuel_ge; [lia|]. rewrite toks_size_app. change (toks_size [TComma]) with 1%nat. lia.
  - rewrite toks_size_app. change (toks_size [TComma]) with 1%nat. lia.
Qed.

(** one level down: `#[a(not(x,))]` == `#[a(not(x))]`, `owned(x,)` == `owned(x)`, ... *)
Lemma legacy_nested_trailing_comma f info i inner rest allowed w :
  inner <> [] -> ends_comma inner = false -> (toks_size inner + 2 < f)%nat ->
  lmeta_list (S f) info (TId i :: TGr 0 (inner ++ [TComma]) :: rest) allowed w =
  lmeta_list (S f) info (TId i :: TGr 0 inner :: rest) allowed w.
Proof.
  intros Hne He Hs. rewrite !lmeta_list_step. unfold lmeta_sp.
  assert (Hh : lmeta_here f info (LList i (inner ++ [TComma])) allowed w = lmeta_here f info (LList i inner) allowed w).
  { unfold lmeta_here. destruct (i =? k_not).
    - destruct w; auto. apply lmeta_trailing_comma; auto. lia.
    - destruct (negb (mem i allowed)); auto. destruct w; auto.
      destruct (i =? k_owned); [apply lmeta_trailing_comma; auto; lia|].
      destruct (i =? k_ref); [apply lmeta_trailing_comma; auto; lia|].
      destruct (i =? k_ref_mut); [apply lmeta_trailing_comma; auto; lia|]. reflexivity. }
  cbn [negb]. rewrite Hh. reflexivity.
Qed.

(* ------------------------------------------------------------------ legacy meta parser: flat parameter lists, order, positions *)

Fixpoint flat (ids : list N) : list tok :=
  match ids with
  | [] => []
  | [i] => [TId i]
  | i :: r => TId i :: TComma :: flat r
  end.

Definition step_id (allowed : list N) (w : wrapper) (acc : res minfo) (i : N) : res minfo :=
  bind acc (fun m => if mem i allowed then lpath_apply m w i else Err EUnknown).
Definition apply_ids (allowed : list N) (w : wrapper) (info : minfo) (ids : list N) : res minfo :=
  fold_left (step_id allowed w) ids (Ok info).

Lemma apply_ids_err allowed w ids e : fold_left (step_id allowed w) ids (Err e) = Err e.
Proof. induction ids; cbn; auto. Qed.

Lemma lmeta_flat : forall ids f info allowed w,
  (length ids < f)%nat -> lmeta_list f info (flat ids) allowed w = apply_ids allowed w info ids.
Proof.
  induction ids as [|i ids IH]; intros f info allowed w Hf.
  - destruct f; [cbn in Hf; lia|reflexivity].
  - destruct f as [|f]; [cbn in Hf; lia|]. unfold apply_ids. cbn [fold_left]. unfold step_id at 2. cbn [bind].
    destruct ids as [|j ids'].
    + cbn [flat]. rewrite lmeta_list_step. cbn [lmeta_sp lmeta_here fold_left].
      destruct (mem i allowed); cbn [negb]; [|reflexivity]. destruct (lpath_apply info w i); reflexivity.
    + change (flat (i :: j :: ids')) with (TId i :: TComma :: flat (j :: ids')).
      rewrite lmeta_list_step.
      assert (E : lmeta_sp (TId i :: TComma :: flat (j :: ids')) = Some (LPath i, TComma :: flat (j :: ids'))) by reflexivity.
      rewrite E. cbn [lmeta_here]. destruct (mem i allowed); cbn [negb].
      * destruct (lpath_apply info w i) as [info'|e]; [|rewrite apply_ids_err; reflexivity].
        replace (is_comma TComma) with true by reflexivity. apply IH. cbn [length] in *. lia.
      * rewrite apply_ids_err. reflexivity.
Qed.

(** closed form of a flat list at the top level: each parameter sets its own field, to a fixed value *)
Definition upd (o : option bool) (hit v : bool) : option bool := if hit then Some v else o.
Definition closed_none (info : minfo) (ids : list N) : minfo :=
  {| mi_enabled := upd (mi_enabled info) (mem k_ignore ids) false;
     mi_forward := upd (mi_forward info) (mem k_forward ids) true;
     mi_owned := upd (mi_owned info) (mem k_owned ids) true;
     mi_ref := upd (mi_ref info) (mem k_ref ids) true;
     mi_ref_mut := upd (mi_ref_mut info) (mem k_ref_mut ids) true;
     mi_source := upd (mi_source info) (mem k_source ids) true;
     mi_backtrace := upd (mi_backtrace info) (mem k_backtrace ids) true |}.

Definition known_param (i : N) : bool :=
  (i =? k_ignore) || (i =? k_forward) || (i =? k_owned) || (i =? k_ref) || (i =? k_ref_mut) ||
  (i =? k_source) || (i =? k_backtrace).

Lemma lpath_none_closed info i :
  lpath_apply info WNone i = if known_param i then Ok (closed_none info [i]) else Err EUnknown.
Proof.
  unfold lpath_apply, known_param.
  destruct (N.eqb_spec i k_ignore) as [->|]; [destruct info; reflexivity|].
  destruct (N.eqb_spec i k_forward) as [->|]; [destruct info; reflexivity|].
  destruct (N.eqb_spec i k_owned) as [->|]; [destruct info; reflexivity|].
  destruct (N.eqb_spec i k_ref) as [->|]; [destruct info; reflexivity|].
  destruct (N.eqb_spec i k_ref_mut) as [->|]; [destruct info; reflexivity|].
  destruct (N.eqb_spec i k_source) as [->|]; [destruct info; reflexivity|].
  destruct (N.eqb_spec i k_backtrace) as [->|]; [destruct info; reflexivity|]. reflexivity.
Qed.

Lemma mem_app i l1 l2 : mem i (l1 ++ l2) = mem i l1 || mem i l2.
Proof. unfold mem. apply existsb_app. Qed.

Lemma closed_none_app info l1 l2 : closed_none (closed_none info l1) l2 = closed_none info (l1 ++ l2).
Proof.
  unfold closed_none. cbn [mi_enabled mi_forward mi_owned mi_ref mi_ref_mut mi_source mi_backtrace].
  rewrite !mem_app. unfold upd.
  destruct (mem k_ignore l1), (mem k_ignore l2), (mem k_forward l1), (mem k_forward l2),
           (mem k_owned l1), (mem k_owned l2), (mem k_ref l1), (mem k_ref l2); cbn [orb];
  destruct (mem k_ref_mut l1), (mem k_ref_mut l2), (mem k_source l1), (mem k_source l2),
           (mem k_backtrace l1), (mem k_backtrace l2); reflexivity.
Qed.

Lemma apply_ids_closed allowed : forall ids info,
  apply_ids allowed WNone info ids =
    if forallb (fun i => mem i allowed && known_param i) ids then Ok (closed_none info ids)
    else Err EUnknown.
Proof.
  induction ids as [|i ids IH]; intros info.
  - unfold apply_ids, closed_none, upd. cbn. destruct info; reflexivity.
  - unfold apply_ids in *. cbn [fold_left forallb]. unfold step_id at 2. cbn [bind].
    destruct (mem i allowed); cbn [andb]; [|apply apply_ids_err].
    rewrite lpath_none_closed. destruct (known_param i); cbn [andb]; [|apply apply_ids_err].
    rewrite IH. destruct (forallb _ ids); [|reflexivity].
    rewrite closed_none_app. reflexivity.
Qed.

Lemma mem_perm i l l' : Permutation l l' -> mem i l = mem i l'.
Proof. apply existsb_perm. Qed.

Lemma forallb_perm {X} (f : X -> bool) l l' : Permutation l l' -> forallb f l = forallb f l'.
Proof.
  induction 1; cbn; auto.
  - rewrite IHPermutation. reflexivity.
  - destruct (f x), (f y); reflexivity.
  - congruence.
Qed.

(** independent parameters of one legacy attribute in any order: the same result (value or rejection) *)
Lemma legacy_param_order_independent ids ids' f info allowed :
  Permutation ids ids' -> (length ids < f)%nat ->
  lmeta_list f info (flat ids') allowed WNone = lmeta_list f info (flat ids) allowed WNone.
Proof.
  intros HP Hf. rewrite !lmeta_flat by (try rewrite <- (Permutation_length HP); auto).
  rewrite !apply_ids_closed. rewrite (forallb_perm _ _ _ HP).
  destruct (forallb _ ids'); [|reflexivity]. f_equal. unfold closed_none.
  rewrite !(mem_perm _ _ _ HP). reflexivity.
Qed.

(** an accepted flat list records every one of its parameters (none is dropped at this stage) *)
Lemma legacy_params_recorded ids f info allowed r i :
  (length ids < f)%nat -> lmeta_list f info (flat ids) allowed WNone = Ok r -> In i ids ->
  mem i allowed = true /\ known_param i = true /\ r = closed_none info ids.
Proof.
  intros Hf H Hin. rewrite lmeta_flat in H by auto. rewrite apply_ids_closed in H.
  destruct (forallb _ ids) eqn:E; [|discriminate]. injection H as <-.
  rewrite forallb_forall in E. specialize (E i Hin). apply andb_prop in E. tauto.
Qed.

(** positions: a single known parameter `#[a(p)]` is accepted at a position iff the position's
    allow-list names it (an empty allow-list refuses the attribute altogether) *)
Lemma legacy_param_accepted_iff name allowed i :
  known_param i = true ->
  is_ok (get_meta_info name [mk name [TId i]] allowed) = mem i allowed.
Proof.
  intros Hk. unfold get_meta_info, named, mk. cbn [filter a_name]. rewrite N.eqb_refl. cbn [a_meta].
  destruct allowed as [|a0 al]; [reflexivity|].
  change [TId i] with (flat [i]). rewrite lmeta_flat by (cbn; lia). rewrite apply_ids_closed.
  cbn [forallb]. rewrite Hk, !andb_true_r. destruct (mem i (a0 :: al)); reflexivity.
Qed.

Lemma legacy_unknown_param_rejected name allowed i :
  known_param i = false -> i <> k_not -> is_ok (get_meta_info name [mk name [TId i]] allowed) = false.
Proof.
  intros Hk Hn. unfold get_meta_info, named, mk. cbn [filter a_name]. rewrite N.eqb_refl. cbn [a_meta].
  destruct allowed as [|a0 al]; [reflexivity|].
  change [TId i] with (flat [i]). rewrite lmeta_flat by (cbn; lia). rewrite apply_ids_closed.
  cbn [forallb]. rewrite Hk, !andb_false_r. reflexivity.
Qed.

(** the same over the regenerated table: for every derive, every position and every known parameter *)
Definition params7 := [k_ignore; k_forward; k_owned; k_ref; k_ref_mut; k_source; k_backtrace].
Lemma legacy_position_table :
  forall row, In row c17_allow_table ->
  let '(name, _, (e, v, s, fl)) := row in
  forall al, In al [e; v; s; fl] -> forall i, In i params7 ->
  is_ok (get_meta_info name [mk name [TId i]] al) = mem i al.
Proof.
  intros [[name k] [[[e v] s] fl]] _ al _ i Hi. apply legacy_param_accepted_iff.
  cbn in Hi. repeat (destruct Hi as [<-|Hi]; [reflexivity|]). contradiction.
Qed.

(* ------------------------------------------------------------------ witnesses for the remaining known findings *)

(** into-duplicate-flag-accepted: `#[into(owned, owned)]` == `#[into(owned)]` *)
Lemma into_duplicate_flag_witness :
  pm_parse (convs_pm tt_ty simple_type true) (mk 101 [TId k_owned; TComma; TId k_owned]) =
  pm_parse (convs_pm tt_ty simple_type true) (mk 101 [TId k_owned]) /\
  is_ok (pm_parse (convs_pm tt_ty simple_type true) (mk 101 [TId k_owned])) = true.
Proof. split; vm_compute; reflexivity. Qed.

(** into-field-duplicate-empty-accepted: two bare `#[into]` merge on a field, but not on the struct *)
Lemma into_field_duplicate_empty_witness :
  is_ok (parse_attrs (into_field_pm tt_ty simple_type) 101 [{| a_name := 101; a_meta := MPath |}; {| a_name := 101; a_meta := MPath |}]) = true /\
  parse_attrs (into_struct_pm tt_ty simple_type) 101 [{| a_name := 101; a_meta := MPath |}; {| a_name := 101; a_meta := MPath |}] = Err ESingle.
Proof. split; vm_compute; reflexivity. Qed.

(** keyword-trailing-comma-rejected: `#[try_from(repr,)]`, `#[display(rename_all = "..",)]`, `#[debug(skip,)]` *)
Lemma keyword_trailing_comma_rejected_witness :
  is_ok (pm_parse (reprconv_pm tt_ty simple_type) (mk 104 [TId k_repr])) = true /\
  is_ok (pm_parse (reprconv_pm tt_ty simple_type) (mk 104 [TId k_repr; TComma])) = false /\
  is_ok (pm_parse (dcont_pm tt_ty simple_pred simple_fmt_args) (mk 106 [TId k_rename_all; TPu c_eq; TStr 1])) = true /\
  is_ok (pm_parse (dcont_pm tt_ty simple_pred simple_fmt_args) (mk 106 [TId k_rename_all; TPu c_eq; TStr 1; TComma])) = false /\
  is_ok (pm_parse (dfield_pm simple_fmt_args) (mk 105 [TId k_skip])) = true /\
  is_ok (pm_parse (dfield_pm simple_fmt_args) (mk 105 [TId k_skip; TComma])) = false.
Proof. repeat split; vm_compute; reflexivity. Qed.

(** display-rename_all-on-nonunit-ignored: accepted, and the casing is used by nothing *)
Lemma display_rename_nonunit_witness :
  exists it c, I_display_attrs 106 it = Ok (c, [], []) /\ dc_rename tt_ty c = Some 1 /\
               display_uses_rename false 1 = false.
Proof.
  exists {| i_attrs := [mk 106 [TId k_rename_all; TPu c_eq; TStr 1]]; i_body := BStruct [{| fd_attrs := [] |}] |}.
  eexists. repeat split; vm_compute; reflexivity.
Qed.

(* ------------------------------------------------------------------ non-vacuity *)

Example fcont_order_example :
  exists c c',
    parse_attrs (fcont_pm tt_ty simple_pred simple_fmt_args) 105
      [mk 105 [TStr 1000]; mk 105 [TId k_bound; TGr 0 w_preds]] = Ok (Some c) /\
    parse_attrs (fcont_pm tt_ty simple_pred simple_fmt_args) 105
      [mk 105 [TId k_bound; TGr 0 w_preds]; mk 105 [TStr 1000]] = Ok (Some c') /\ c = c'.
Proof. eexists. eexists. repeat split; vm_compute; reflexivity. Qed.

Example dcont_order_example :
  exists c,
    parse_attrs (dcont_pm tt_ty simple_pred simple_fmt_args) 106
      [mk 106 [TStr 1000]; mk 106 [TId k_rename_all; TPu c_eq; TStr 5]; mk 106 [TId k_bound; TGr 0 w_preds]] = Ok (Some c) /\
    parse_attrs (dcont_pm tt_ty simple_pred simple_fmt_args) 106
      [mk 106 [TId k_bound; TGr 0 w_preds]; mk 106 [TId k_rename_all; TPu c_eq; TStr 5]; mk 106 [TStr 1000]] = Ok (Some c) /\
    dc_rename tt_ty c = Some 5.
Proof. eexists. repeat split; vm_compute; reflexivity. Qed.

Example legacy_trailing_example :
  get_meta_info 124 [mk 124 [TId k_not; TGr 0 [TId k_source; TComma]; TComma]] [k_ignore; k_source; k_backtrace] =
  get_meta_info 124 [mk 124 [TId k_not; TGr 0 [TId k_source]]] [k_ignore; k_source; k_backtrace] /\
  is_ok (get_meta_info 124 [mk 124 [TId k_not; TGr 0 [TId k_source]]] [k_ignore; k_source; k_backtrace]) = true.
Proof. split; vm_compute; reflexivity. Qed.

Example complete_pred_inhabited : complete simple_pred w_preds w_preds.
Proof. split; [discriminate|]. intros rest [->|[r ->]]; [vm_compute; reflexivity|]. unfold simple_pred, w_preds. cbn. destruct r; reflexivity. Qed.

(* ------------------------------------------------------------------ the property theorems of the growth round (Props.v re-exports them) *)

(** `bound(p1, .., pn)` == n attributes `bound(pi)`; a trailing comma inside `bound(..)` changes nothing *)
Lemma L_C17_bounds_merge :
  forall (pred : Type) (parse_pred : list tok -> option (pred * list tok)) (fmt_args_ok : list tok -> bool)
         (name kw : N) (segs : list (list tok * pred)),
    kw = k_bound \/ kw = k_bounds ->
    Forall (fun sa => complete parse_pred (fst sa) (snd sa)) segs -> segs <> [] ->
    (parse_attrs (fcont_pm pred parse_pred fmt_args_ok) name [mk name [TId kw; TGr 0 (join (map fst segs))]]
       = Ok (Some {| fc_fmt := None; fc_bounds := map snd segs |}) /\
     parse_attrs (fcont_pm pred parse_pred fmt_args_ok) name (map (fun sa => mk name [TId kw; TGr 0 (fst sa)]) segs)
       = Ok (Some {| fc_fmt := None; fc_bounds := map snd segs |})) /\
    pm_parse (fcont_pm pred parse_pred fmt_args_ok) (mk name [TId kw; TGr 0 (join (map fst segs) ++ [TComma])]) =
    pm_parse (fcont_pm pred parse_pred fmt_args_ok) (mk name [TId kw; TGr 0 (join (map fst segs))]).
Proof.
  intros pred parse_pred fmt_args_ok name kw segs Hk HF Hne. split.
  - exact (bounds_merge pred parse_pred fmt_args_ok name kw segs Hk HF Hne).
  - exact (bounds_trailing_comma pred parse_pred fmt_args_ok name kw segs Hk HF Hne).
Qed.

(** any order of the literal, `rename_all` and `bound(..)` attributes of one struct / enum / variant *)
Lemma L_C17_fmt_container_order_independent :
  forall (pred : Type) (parse_pred : list tok -> option (pred * list tok)) (fmt_args_ok : list tok -> bool)
         (name : N) (attrs attrs' : list attr),
    Permutation attrs attrs' ->
    (forall c, parse_attrs (fcont_pm pred parse_pred fmt_args_ok) name attrs = Ok (Some c) ->
       exists c', parse_attrs (fcont_pm pred parse_pred fmt_args_ok) name attrs' = Ok (Some c') /\
                  fc_fmt pred c' = fc_fmt pred c /\ Permutation (fc_bounds pred c) (fc_bounds pred c')) /\
    (forall c, parse_attrs (dcont_pm pred parse_pred fmt_args_ok) name attrs = Ok (Some c) ->
       exists c', parse_attrs (dcont_pm pred parse_pred fmt_args_ok) name attrs' = Ok (Some c') /\
                  dc_rename pred c' = dc_rename pred c /\
                  fc_fmt pred (dc_common pred c') = fc_fmt pred (dc_common pred c) /\
                  Permutation (fc_bounds pred (dc_common pred c)) (fc_bounds pred (dc_common pred c'))).
Proof.
  intros pred parse_pred fmt_args_ok name attrs attrs' HP. split; intros c H.
  - exact (fcont_order_independent pred parse_pred fmt_args_ok name attrs attrs' c HP H).
  - exact (dcont_order_independent pred parse_pred fmt_args_ok name attrs attrs' c HP H).
Qed.

(** silent-ignore freedom of the fmt containers: the casing, the literal and every predicate of every
    accepted attribute are in the merged result (whose bounds all reach the where clause: C17_display_bounds_kept) *)
Lemma L_C17_fmt_container_nothing_dropped :
  forall (pred : Type) (parse_pred : list tok -> option (pred * list tok)) (fmt_args_ok : list tok -> bool)
         (name : N) (attrs : list attr) (a : attr),
    In a (named name attrs) ->
    (forall c x, parse_attrs (fcont_pm pred parse_pred fmt_args_ok) name attrs = Ok (Some c) ->
       pm_parse (fcont_pm pred parse_pred fmt_args_ok) a = Ok x ->
       (forall f, fc_fmt pred x = Some f -> fc_fmt pred c = Some f) /\
       (forall p, In p (fc_bounds pred x) -> In p (fc_bounds pred c))) /\
    (forall c x, parse_attrs (dcont_pm pred parse_pred fmt_args_ok) name attrs = Ok (Some c) ->
       pm_parse (dcont_pm pred parse_pred fmt_args_ok) a = Ok x ->
       (forall r, dc_rename pred x = Some r -> dc_rename pred c = Some r) /\
       (forall f, fc_fmt pred (dc_common pred x) = Some f -> fc_fmt pred (dc_common pred c) = Some f) /\
       (forall p, In p (fc_bounds pred (dc_common pred x)) -> In p (fc_bounds pred (dc_common pred c)))).
Proof.
  intros pred parse_pred fmt_args_ok name attrs a Hin. split; intros c x H Hx.
  - exact (fcont_nothing_dropped pred parse_pred fmt_args_ok name attrs c a x H Hin Hx).
  - exact (dcont_nothing_dropped pred parse_pred fmt_args_ok name attrs c a x H Hin Hx).
Qed.

(** any order of the `#[into(..)]` attributes: per list (owned / ref / ref_mut) the same flag, the types permuted *)
Lemma L_C17_into_order_independent :
  forall (ty : Type) (parse_type : list tok -> option (ty * list tok)) (lg : bool)
         (name : N) (attrs attrs' : list attr) (c : convs ty),
    Permutation attrs attrs' ->
    parse_attrs (convs_pm ty parse_type lg) name attrs = Ok (Some c) ->
    forall slot, slot = cv_owned ty \/ slot = cv_ref ty \/ slot = cv_ref_mut ty ->
    exists c', parse_attrs (convs_pm ty parse_type lg) name attrs' = Ok (Some c') /\
               cv_fields ty (slot c') = cv_fields ty (slot c) /\
               Permutation (cv_tys ty (slot c)) (cv_tys ty (slot c')).
Proof.
  intros ty parse_type lg name attrs attrs' c HP H slot [->|[->| ->]];
    eapply convs_order_independent; eauto; intros p n; reflexivity.
Qed.

(** legacy meta parser: a trailing comma changes nothing at the attribute's own level, at any list level
    (all levels are parsed by the same function), in particular inside not(..) / owned(..) / ..;
    and with enough fuel (more than the size of the token tree) the model does not depend on the fuel *)
Lemma L_C17_legacy_trailing_comma :
  (forall name ts allowed, ts <> [] -> ends_comma ts = false ->
     get_meta_info name [mk name (ts ++ [TComma])] allowed = get_meta_info name [mk name ts] allowed) /\
  (forall f info ts allowed w, ts <> [] -> ends_comma ts = false -> (toks_size ts + 1 < f)%nat ->
     lmeta_list f info (ts ++ [TComma]) allowed w = lmeta_list f info ts allowed w) /\
  (forall f info i inner rest allowed w, inner <> [] -> ends_comma inner = false -> (toks_size inner + 2 < f)%nat ->
     lmeta_list (S f) info (TId i :: TGr 0 (inner ++ [TComma]) :: rest) allowed w =
     lmeta_list (S f) info (TId i :: TGr 0 inner :: rest) allowed w) /\
  (forall f g info ts allowed w, (toks_size ts < f)%nat -> (f <= g)%nat ->
     lmeta_list g info ts allowed w = lmeta_list f info ts allowed w).
Proof.
  repeat split.
  - exact legacy_trailing_comma.
  - exact lmeta_trailing_comma.
  - exact legacy_nested_trailing_comma.
  - exact lmeta_fuel_ge.
Qed.

(** legacy meta parser: the parameters of one attribute in any order give the same result, and an accepted
    list records every parameter (closed form: each sets its own field) *)
Lemma L_C17_legacy_param_order_independent :
  (forall ids ids' f info allowed,
     Permutation ids ids' -> (length ids < f)%nat ->
     lmeta_list f info (flat ids') allowed WNone = lmeta_list f info (flat ids) allowed WNone) /\
  (forall ids f info allowed r i,
     (length ids < f)%nat -> lmeta_list f info (flat ids) allowed WNone = Ok r -> In i ids ->
     mem i allowed = true /\ known_param i = true /\ r = closed_none info ids).
Proof.
  split.
  - exact legacy_param_order_independent.
  - exact legacy_params_recorded.
Qed.

(** positions: a parameter is accepted at a position iff the position's allow-list (regenerated from the
    sources into Gen/C17Allow.v) names it; a position with an empty allow-list refuses the attribute *)
Lemma L_C17_legacy_positions :
  (forall name allowed i, known_param i = true ->
     is_ok (get_meta_info name [mk name [TId i]] allowed) = mem i allowed) /\
  (forall name allowed i, known_param i = false -> i <> k_not ->
     is_ok (get_meta_info name [mk name [TId i]] allowed) = false) /\
  (forall row, In row c17_allow_table ->
     let '(name, _, (e, v, s, fl)) := row in
     forall al, In al [e; v; s; fl] -> forall i, In i params7 ->
     is_ok (get_meta_info name [mk name [TId i]] al) = mem i al) /\
  (forall name attrs a l, named name attrs = a :: l -> get_meta_info name attrs [] = Err ENotAllowed).
Proof.
  repeat split.
  - exact legacy_param_accepted_iff.
  - exact legacy_unknown_param_rejected.
  - exact legacy_position_table.
  - exact legacy_not_allowed_here.
Qed.

(** witnesses for the known findings not covered by C17_no_silent_ignore_refuted: into-duplicate-flag-accepted,
    into-field-duplicate-empty-accepted, keyword-trailing-comma-rejected, display-rename_all-on-nonunit-ignored *)
Lemma L_C17_known_findings_refuted_2 :
  (pm_parse (convs_pm tt_ty simple_type true) (mk 101 [TId k_owned; TComma; TId k_owned]) =
   pm_parse (convs_pm tt_ty simple_type true) (mk 101 [TId k_owned]) /\
   is_ok (pm_parse (convs_pm tt_ty simple_type true) (mk 101 [TId k_owned])) = true) /\
  (is_ok (parse_attrs (into_field_pm tt_ty simple_type) 101 [{| a_name := 101; a_meta := MPath |}; {| a_name := 101; a_meta := MPath |}]) = true /\
   parse_attrs (into_struct_pm tt_ty simple_type) 101 [{| a_name := 101; a_meta := MPath |}; {| a_name := 101; a_meta := MPath |}] = Err ESingle) /\
  (is_ok (pm_parse (reprconv_pm tt_ty simple_type) (mk 104 [TId k_repr])) = true /\
   is_ok (pm_parse (reprconv_pm tt_ty simple_type) (mk 104 [TId k_repr; TComma])) = false /\
   is_ok (pm_parse (dcont_pm tt_ty simple_pred simple_fmt_args) (mk 106 [TId k_rename_all; TPu c_eq; TStr 1])) = true /\
   is_ok (pm_parse (dcont_pm tt_ty simple_pred simple_fmt_args) (mk 106 [TId k_rename_all; TPu c_eq; TStr 1; TComma])) = false /\
   is_ok (pm_parse (dfield_pm simple_fmt_args) (mk 105 [TId k_skip])) = true /\
   is_ok (pm_parse (dfield_pm simple_fmt_args) (mk 105 [TId k_skip; TComma])) = false) /\
  (exists it c, I_display_attrs 106 it = Ok (c, [], []) /\ dc_rename tt_ty c = Some 1 /\
                display_uses_rename false 1 = false).
Proof.
  split; [exact into_duplicate_flag_witness|].
  split; [exact into_field_duplicate_empty_witness|].
  split; [exact keyword_trailing_comma_rejected_witness|].
  exact display_rename_nonunit_witness.
Qed.
