(** C17 - lemmas and proofs about the attribute algebra of Model.v *)
From Coq Require Import List NArith Bool Arith Lia Permutation.
Import ListNotations.
Require Import Verif.C17.Model Verif.Gen.C17Allow.
Open Scope N_scope.

(* ------------------------------------------------------------------ generic facts about parse_attrs *)

(** results related through a projection [g] of the accepted values; errors only as "rejected" *)
Definition req {A B} (g : A -> B) (r1 r2 : res A) : Prop :=
  match r1, r2 with
  | Ok a, Ok b => g a = g b
  | Err _, Err _ => True
  | _, _ => False
  end.

Lemma req_refl {A B} (g : A -> B) r : req g r r.
Proof. destruct r; cbn; auto. Qed.

Lemma fold_err {A} (P : PM A) l e : fold_left (pa_step P) l (Err e) = Err e.
Proof. induction l as [|a l IH]; cbn; auto. Qed.

Lemma named_map f name attrs :
  (forall a, a_name (f a) = a_name a) -> named name (map f attrs) = map f (named name attrs).
Proof.
  intros Hn. unfold named. induction attrs as [|a l IH]; cbn; auto.
  rewrite Hn. destruct (a_name a =? name); cbn; rewrite IH; auto.
Qed.

(** simulation: a rewriting [f] of single attributes that preserves, up to [g], what every attribute
    parses to, preserves the result of [parse_attrs] *)
Lemma parse_attrs_sim {A B} (P : PM A) (f : attr -> attr) (g : A -> B) name attrs :
  (forall a, a_name (f a) = a_name a) ->
  (forall a, req g (pm_parse P (f a)) (pm_parse P a)) ->
  (forall p n p' n', g p = g p' -> g n = g n' -> req g (pm_merge P p n) (pm_merge P p' n')) ->
  req (option_map g) (parse_attrs P name (map f attrs)) (parse_attrs P name attrs).
Proof.
  intros Hn Hp Hm. unfold parse_attrs. rewrite named_map by auto.
  generalize (named name attrs). intros l.
  assert (G : forall acc1 acc2 : res (option A), req (option_map g) acc1 acc2 ->
            req (option_map g) (fold_left (pa_step P) (map f l) acc1) (fold_left (pa_step P) l acc2)).
  { induction l as [|a l IH]; intros acc1 acc2 Hacc; cbn; auto.
    apply IH. unfold pa_step.
    destruct acc1 as [m1|e1], acc2 as [m2|e2]; cbn in Hacc; try contradiction; cbn; auto.
    specialize (Hp a). destruct (pm_parse P (f a)) as [x1|], (pm_parse P a) as [x2|]; cbn in Hp; try contradiction; cbn; auto.
    destruct m1 as [p1|], m2 as [p2|]; cbn in Hacc; try discriminate.
    - injection Hacc as Hacc. specialize (Hm p1 x1 p2 x2 Hacc Hp).
      destruct (pm_merge P p1 x1), (pm_merge P p2 x2); cbn in *; try contradiction; auto. now f_equal.
    - cbn. now f_equal. }
  apply G. cbn. reflexivity.
Qed.

(** every attribute of the given name has been parsed by the grammar when the set is accepted *)
Lemma fold_ok_all {A} (P : PM A) l : forall acc r,
  fold_left (pa_step P) l acc = Ok r ->
  (exists m, acc = Ok m) /\ Forall (fun a => exists x, pm_parse P a = Ok x) l.
Proof.
  induction l as [|a l IH]; intros acc r H; cbn in H.
  - split; eauto.
  - apply IH in H. destruct H as [[m Hm] HF]. unfold pa_step in Hm.
    destruct acc as [m0|e]; try discriminate. split; eauto.
    constructor; auto. destruct (pm_parse P a); eauto. discriminate.
Qed.

Lemma parse_attrs_all_parsed {A} (P : PM A) name attrs r :
  parse_attrs P name attrs = Ok r ->
  Forall (fun a => exists x, pm_parse P a = Ok x) (named name attrs).
Proof. intros H. apply fold_ok_all in H. tauto. Qed.

(** an attribute that does not parse makes the whole set fail, wherever it stands *)
Lemma parse_attrs_bad_attr {A} (P : PM A) name attrs a e :
  In a attrs -> a_name a = name -> pm_parse P a = Err e -> exists e', parse_attrs P name attrs = Err e'.
Proof.
  intros Hin Hname Hp. destruct (parse_attrs P name attrs) as [r|e'] eqn:E; eauto.
  apply parse_attrs_all_parsed in E. rewrite Forall_forall in E.
  assert (In a (named name attrs)) as Hi.
  { unfold named. apply filter_In. split; auto. apply N.eqb_eq; auto. }
  destruct (E a Hi) as [x Hx]. congruence.
Qed.

(** two attributes of a grammar whose merge always fails *)
Lemma parse_attrs_single_only {A} (P : PM A) name l :
  (forall p n, exists e, pm_merge P p n = Err e) ->
  (2 <= length (named name l))%nat -> exists e, parse_attrs P name l = Err e.
Proof.
  intros Hm Hl. unfold parse_attrs. destruct (named name l) as [|a [|b rest]]; cbn [length] in Hl; try lia.
  cbn [fold_left].
  assert (exists e, pa_step P (pa_step P (Ok None) a) b = Err e) as [e He].
  { unfold pa_step. destruct (pm_parse P a) as [x|e]; eauto.
    destruct (pm_parse P b) as [y|e]; eauto.
    destruct (Hm x y) as [e He]. rewrite He. cbn. eauto. }
  rewrite He. rewrite fold_err. eauto.
Qed.

(* ------------------------------------------------------------------ skip == ignore *)

Definition mk (name : N) (ts : list tok) : attr := {| a_name := name; a_meta := MList ts |}.

(** `#[a(skip)]` <-> `#[a(ignore)]`, every other attribute unchanged *)
Definition respell_skip (a : attr) : attr :=
  match a_meta a with
  | MList [TId i] =>
      if i =? k_skip then mk (a_name a) [TId k_ignore]
      else if i =? k_ignore then mk (a_name a) [TId k_skip]
      else a
  | _ => a
  end.

Lemma respell_skip_name a : a_name (respell_skip a) = a_name a.
Proof.
  unfold respell_skip. destruct a as [n [|ts|ts]]; cbn; auto.
  destruct ts as [|[i| | | |] [|t r]]; cbn; auto.
  destruct (i =? k_skip); cbn; auto. destruct (i =? k_ignore); cbn; auto.
Qed.

(** the cases of [respell_skip] *)
Lemma respell_skip_cases a :
  (respell_skip a = a) \/
  (exists n, a = mk n [TId k_skip] /\ respell_skip a = mk n [TId k_ignore]) \/
  (exists n, a = mk n [TId k_ignore] /\ respell_skip a = mk n [TId k_skip]).
Proof.
  unfold respell_skip. destruct a as [n [|ts|ts]]; cbn; auto.
  destruct ts as [|[i| | | |] [|t r]]; cbn; auto.
  destruct (N.eqb_spec i k_skip) as [->|]; [right; left; eexists; split; reflexivity|].
  destruct (N.eqb_spec i k_ignore) as [->|]; [right; right; eexists; split; reflexivity|]. auto.
Qed.

Section SkipIgnore.
  Variable ty : Type.
  Variable parse_type : list tok -> option (ty * list tok).
  Variable fmt_args_ok : list tok -> bool.

  Definition norm_fc (c : fieldconv ty) : fieldconv ty :=
    match c with FSkip _ _ => FSkip ty 0 | c => c end.

  Lemma skip_ignore_fieldconv lg name attrs :
    req (option_map norm_fc)
        (parse_attrs (fieldconv_pm ty parse_type lg) name (map respell_skip attrs))
        (parse_attrs (fieldconv_pm ty parse_type lg) name attrs).
  Proof.
    apply parse_attrs_sim.
    - apply respell_skip_name.
    - intros a. destruct (respell_skip_cases a) as [->|[(n & -> & ->)|(n & -> & ->)]].
      + apply req_refl.
      + cbn. reflexivity.
      + cbn. reflexivity.
    - intros p n p' n' Hp Hn.
      destruct p, n, p', n'; cbn in *; try discriminate; auto; try congruence.
  Qed.

  Definition norm_df (c : N + fmtattr) : N + fmtattr :=
    match c with inl _ => inl 0 | c => c end.

  Lemma skip_ignore_debug_field name attrs :
    req (option_map norm_df)
        (parse_attrs (dfield_pm fmt_args_ok) name (map respell_skip attrs))
        (parse_attrs (dfield_pm fmt_args_ok) name attrs).
  Proof.
    apply parse_attrs_sim.
    - apply respell_skip_name.
    - intros a. destruct (respell_skip_cases a) as [->|[(n & -> & ->)|(n & -> & ->)]].
      + apply req_refl.
      + cbn. reflexivity.
      + cbn. reflexivity.
    - intros p n p' n' Hp Hn.
      destruct p, n, p', n'; cbn in *; try discriminate; auto.
  Qed.

  Definition norm_if (c : into_field ty) : into_field ty :=
    {| if_skip := option_map (fun _ => 0) (if_skip ty c); if_convs := if_convs ty c |}.

  Lemma skip_ignore_into_field name attrs :
    req (option_map norm_if)
        (parse_attrs (into_field_pm ty parse_type) name (map respell_skip attrs))
        (parse_attrs (into_field_pm ty parse_type) name attrs).
  Proof.
    apply parse_attrs_sim.
    - apply respell_skip_name.
    - intros a. destruct (respell_skip_cases a) as [->|[(n & -> & ->)|(n & -> & ->)]].
      + apply req_refl.
      + cbn. reflexivity.
      + cbn. reflexivity.
    - intros [s1 c1] [s2 c2] [s1' c1'] [s2' c2'] Hp Hn. unfold norm_if in *. cbn in *.
      injection Hp as Hs1 ->. injection Hn as Hs2 ->.
      destruct s1, s1'; cbn in Hs1; try discriminate;
      destruct s2, s2'; cbn in Hs2; try discriminate; cbn; auto;
      destruct c1' as [x|], c2' as [y|]; cbn; auto.
  Qed.
End SkipIgnore.

(* ------------------------------------------------------------------ bound == bounds *)

Definition respell_bound (a : attr) : attr :=
  match a_meta a with
  | MList (TId i :: rest) =>
      if i =? k_bound then mk (a_name a) (TId k_bounds :: rest)
      else if i =? k_bounds then mk (a_name a) (TId k_bound :: rest)
      else a
  | _ => a
  end.

Lemma respell_bound_name a : a_name (respell_bound a) = a_name a.
Proof.
  unfold respell_bound. destruct a as [n [|ts|ts]]; cbn; auto.
  destruct ts as [|[i| | | |] r]; cbn; auto.
  destruct (i =? k_bound); cbn; auto. destruct (i =? k_bounds); cbn; auto.
Qed.

Lemma respell_bound_cases a :
  (respell_bound a = a) \/
  (exists n rest, a = mk n (TId k_bound :: rest) /\ respell_bound a = mk n (TId k_bounds :: rest)) \/
  (exists n rest, a = mk n (TId k_bounds :: rest) /\ respell_bound a = mk n (TId k_bound :: rest)).
Proof.
  unfold respell_bound. destruct a as [n [|ts|ts]]; cbn; auto.
  destruct ts as [|[i| | | |] r]; cbn; auto.
  destruct (N.eqb_spec i k_bound) as [->|]; [right; left; do 2 eexists; split; reflexivity|].
  destruct (N.eqb_spec i k_bounds) as [->|]; [right; right; do 2 eexists; split; reflexivity|]. auto.
Qed.

Definition starts_path_cont (rest : list tok) : bool :=
  match rest with TPu c :: _ => (c =? c_colon) || (c =? c_lt) | _ => false end.

Lemma path_ident_id i rest :
  is_rust_keyword i = false ->
  path_ident (TId i :: rest) = if starts_path_cont rest then None else Some (i, rest).
Proof.
  intros H. unfold path_ident. rewrite H. destruct rest as [|[ | c | | | ] r]; cbn; auto.
Qed.

Section BoundBounds.
  Variable pred : Type.
  Variable parse_pred : list tok -> option (pred * list tok).
  Variable fmt_args_ok : list tok -> bool.

  (** same outcome of a stream parser up to the class of the error *)
  Definition sreq {A} (r1 r2 : res (A * list tok)) : Prop := req (fun x => x) r1 r2.

  Lemma bounds_sp_spelling rest :
    sreq (bounds_sp pred parse_pred (TId k_bounds :: rest)) (bounds_sp pred parse_pred (TId k_bound :: rest)).
  Proof.
    unfold bounds_sp, check_legacy_bound.
    rewrite !path_ident_id by reflexivity.
    destruct (starts_path_cont rest) eqn:E; cbn; auto.
    destruct rest as [|t rest']; cbn; auto.
    replace (is_eq t && (k_bounds =? k_bound)) with false by (destruct (is_eq t); reflexivity).
    replace (k_bound =? k_bound) with true by reflexivity. rewrite andb_true_r.
    destruct (is_eq t) eqn:Et.
    - (* `bound = ..` / `bounds = ..`: both are errors *)
      destruct t as [ |c| | | ]; cbn in Et; try discriminate.
      cbn. destruct rest' as [|[ | | | | ] r]; cbn; auto.
    - cbn. destruct t as [ | | | |d inner]; cbn; auto.
      destruct d; cbn; auto; apply req_refl.
  Qed.

  Lemma fcont_sp_spelling rest :
    sreq (fcont_sp pred parse_pred fmt_args_ok (TId k_bounds :: rest))
         (fcont_sp pred parse_pred fmt_args_ok (TId k_bound :: rest)).
  Proof.
    unfold fcont_sp.
    assert (L : forall i, i = k_bound \/ i = k_bounds -> check_legacy_fmt (TId i :: rest) = Ok tt).
    { intros i Hi. unfold check_legacy_fmt. rewrite path_ident_id by (destruct Hi; subst; reflexivity).
      destruct (starts_path_cont rest); auto. destruct rest as [|t r]; auto.
      replace (i =? k_fmt) with false by (destruct Hi; subst; reflexivity).
      rewrite andb_false_r. reflexivity. }
    rewrite !L by auto. cbn [bind].
    unfold either_sp.
    assert (F : forall i, i = k_bound \/ i = k_bounds -> fmt_sp fmt_args_ok (TId i :: rest) = Err EParse).
    { intros i Hi. unfold fmt_sp. rewrite L by auto. reflexivity. }
    rewrite !F by auto.
    pose proof (bounds_sp_spelling rest) as H. unfold sreq, req in *.
    destruct (bounds_sp pred parse_pred (TId k_bounds :: rest)) as [[b1 r1]|],
             (bounds_sp pred parse_pred (TId k_bound :: rest)) as [[b2 r2]|]; try contradiction; auto.
    injection H as -> ->. reflexivity.
  Qed.

  Lemma parse_args_sreq {A} (p : sparser A) n ts1 ts2 :
    sreq (p ts1) (p ts2) -> req (fun x => x) (parse_args p (mk n ts1)) (parse_args p (mk n ts2)).
  Proof.
    unfold sreq, req, parse_args. cbn.
    destruct (p ts1) as [[x1 r1]|], (p ts2) as [[x2 r2]|]; try contradiction; auto.
    intros H. injection H as -> ->. destruct r2; auto.
  Qed.

  Lemma req_sym {A B} (g : A -> B) r1 r2 : req g r1 r2 -> req g r2 r1.
  Proof. destruct r1, r2; cbn; auto. Qed.

  Lemma bound_bounds_debug name attrs :
    req (fun x => x)
        (parse_attrs (fcont_pm pred parse_pred fmt_args_ok) name (map respell_bound attrs))
        (parse_attrs (fcont_pm pred parse_pred fmt_args_ok) name attrs).
  Proof.
    assert (R : forall (A : Type) (r1 r2 : res (option A)), req (option_map (fun x : A => x)) r1 r2 -> req (fun x => x) r1 r2).
    { intros A [[x|]|] [[y|]|]; cbn; auto; congruence. }
    apply R. apply parse_attrs_sim.
    - apply respell_bound_name.
    - intros a. destruct (respell_bound_cases a) as [->|[(n & rest & -> & ->)|(n & rest & -> & ->)]].
      + apply req_refl.
      + apply parse_args_sreq, fcont_sp_spelling.
      + apply req_sym, parse_args_sreq, fcont_sp_spelling.
    - intros p n p' n' -> ->. apply req_refl.
  Qed.

  Lemma dcont_sp_spelling rest :
    sreq (dcont_sp pred parse_pred fmt_args_ok (TId k_bounds :: rest))
         (dcont_sp pred parse_pred fmt_args_ok (TId k_bound :: rest)).
  Proof.
    unfold dcont_sp.
    assert (L : forall i, i = k_bound \/ i = k_bounds -> check_legacy_fmt (TId i :: rest) = Ok tt).
    { intros i Hi. unfold check_legacy_fmt. rewrite path_ident_id by (destruct Hi; subst; reflexivity).
      destruct (starts_path_cont rest); auto. destruct rest as [|t r]; auto.
      replace (i =? k_fmt) with false by (destruct Hi; subst; reflexivity).
      rewrite andb_false_r. reflexivity. }
    rewrite !L by auto. cbn [bind].
    replace (is_bound_kw k_bounds) with true by reflexivity.
    replace (is_bound_kw k_bound) with true by reflexivity.
    pose proof (fcont_sp_spelling rest) as H. unfold sreq, req in *.
    destruct (fcont_sp pred parse_pred fmt_args_ok (TId k_bounds :: rest)) as [[b1 r1]|],
             (fcont_sp pred parse_pred fmt_args_ok (TId k_bound :: rest)) as [[b2 r2]|]; cbn; try contradiction; auto.
    injection H as -> ->. reflexivity.
  Qed.

  Lemma bound_bounds_display name attrs :
    req (fun x => x)
        (parse_attrs (dcont_pm pred parse_pred fmt_args_ok) name (map respell_bound attrs))
        (parse_attrs (dcont_pm pred parse_pred fmt_args_ok) name attrs).
  Proof.
    assert (R : forall (A : Type) (r1 r2 : res (option A)), req (option_map (fun x : A => x)) r1 r2 -> req (fun x => x) r1 r2).
    { intros A [[x|]|] [[y|]|]; cbn; auto; congruence. }
    apply R. apply parse_attrs_sim.
    - apply respell_bound_name.
    - intros a. destruct (respell_bound_cases a) as [->|[(n & rest & -> & ->)|(n & rest & -> & ->)]].
      + apply req_refl.
      + apply parse_args_sreq, dcont_sp_spelling.
      + apply req_sym, parse_args_sreq, dcont_sp_spelling.
    - intros p n p' n' -> ->. apply req_refl.
  Qed.
End BoundBounds.

(* ------------------------------------------------------------------ comma lists *)

Section Lists.
  Context {A : Type} (p : list tok -> option (A * list tok)).

  (** [s] is a complete element: wherever it stands in a comma list, [p] consumes exactly [s] *)
  Definition complete (s : list tok) (a : A) : Prop :=
    s <> [] /\ forall rest, (rest = [] \/ exists r, rest = TComma :: r) -> p (s ++ rest) = Some (a, rest).

  Fixpoint join (segs : list (list tok)) : list tok :=
    match segs with
    | [] => []
    | [s] => s
    | s :: more => s ++ TComma :: join more
    end.

  Lemma pt_loop_step f ts :
    ts <> [] ->
    pt_loop p (S f) ts =
      match p ts with
      | None => Err EParse
      | Some (a, rest) =>
          match rest with
          | [] => Ok [a]
          | t :: rest' => if is_comma t then rmap (cons a) (pt_loop p f rest') else Err EParse
          end
      end.
  Proof. destruct ts; [congruence|reflexivity]. Qed.

  Lemma pt_join (tail : list tok) (segs : list (list tok * A)) :
    tail = [] \/ tail = [TComma] ->
    Forall (fun sa => complete (fst sa) (snd sa)) segs -> segs <> [] ->
    forall fuel, (length segs <= fuel)%nat ->
    pt_loop p fuel (join (map fst segs) ++ tail) = Ok (map snd segs).
  Proof.
    intros Ht HF. induction segs as [|[s a] more IH]; intros Hne fuel Hfuel; [congruence|].
    inversion HF as [|x y [Hs Hc] HF']; subst. cbn [fst snd] in *.
    destruct fuel as [|f]; [cbn in Hfuel; lia|].
    assert (NE : forall X, s ++ X <> []) by (intros X HX; apply app_eq_nil in HX; tauto).
    destruct more as [|[s2 a2] more'].
    - cbn [map join fst snd]. rewrite pt_loop_step by apply NE.
      destruct Ht as [->| ->].
      + rewrite (Hc []) by auto. reflexivity.
      + rewrite (Hc [TComma]) by (right; eexists; reflexivity).
        replace (is_comma TComma) with true by reflexivity. destruct f; reflexivity.
    - assert (E : join (map fst ((s, a) :: (s2, a2) :: more')) ++ tail
                  = s ++ TComma :: (join (map fst ((s2, a2) :: more')) ++ tail)).
      { cbn [map fst join]. rewrite <- app_assoc. reflexivity. }
      rewrite E. rewrite pt_loop_step by apply NE.
      rewrite Hc by (right; eexists; reflexivity).
      replace (is_comma TComma) with true by reflexivity.
      rewrite IH; auto; try congruence. cbn in Hfuel. cbn [length]. lia.
  Qed.

  Lemma join_length (segs : list (list tok)) :
    Forall (fun s => s <> []) segs -> (length segs <= length (join segs))%nat.
  Proof.
    induction segs as [|s more IH]; intros HF; cbn; auto.
    inversion HF; subst. destruct more as [|s2 more'].
    - destruct s; [congruence|cbn; lia].
    - rewrite app_length. cbn [length]. specialize (IH H2). destruct s; [congruence|]. cbn in *. lia.
  Qed.

  Lemma parse_terminated_join (tail : list tok) (segs : list (list tok * A)) :
    tail = [] \/ tail = [TComma] ->
    Forall (fun sa => complete (fst sa) (snd sa)) segs -> segs <> [] ->
    parse_terminated p (join (map fst segs) ++ tail) = Ok (map snd segs).
  Proof.
    intros Ht HF Hne. unfold parse_terminated. apply pt_join; auto.
    rewrite app_length.
    assert (length (map fst segs) <= length (join (map fst segs)))%nat.
    { apply join_length. rewrite Forall_map. eapply Forall_impl; [|exact HF]. intros [s a] [H _]; exact H. }
    rewrite map_length in H. lia.
  Qed.

  (** every token of an accepted comma list is consumed by exactly one call of the element parser
      or is the comma that follows it *)
  Hypothesis p_prefix : forall ts a rest, p ts = Some (a, rest) -> exists pre, ts = pre ++ rest.

  Definition piece := (list tok * list tok * A)%type.    (* consumed, separator, value *)
  Definition piece_ok (pc : piece) : Prop :=
    let '(pre, sep, a) := pc in
    (sep = [] \/ sep = [TComma]) /\ exists rest, p (pre ++ rest) = Some (a, rest).
  Definition flatten (ps : list piece) : list tok :=
    concat (map (fun pc : piece => let '(pre, sep, _) := pc in pre ++ sep) ps).

  Lemma pt_accounted fuel : forall ts l,
    pt_loop p fuel ts = Ok l ->
    exists ps : list piece, l = map snd ps /\ ts = flatten ps /\ Forall piece_ok ps.
  Proof.
    induction fuel as [|f IH]; intros ts l H.
    - destruct ts; cbn in H; [|discriminate]. injection H as <-. exists []. cbn. auto.
    - destruct ts as [|t ts']; cbn [pt_loop] in H.
      + injection H as <-. exists []. cbn. auto.
      + destruct (p (t :: ts')) as [[a rest]|] eqn:Ep; [|discriminate].
        destruct (p_prefix _ _ _ Ep) as [pre Hpre].
        destruct rest as [|c rest'].
        * injection H as <-. exists [(pre, [], a)]. cbn. rewrite !app_nil_r in *. repeat split; auto.
          constructor; auto. split; auto. exists []. rewrite app_nil_r. rewrite <- Hpre. exact Ep.
        * destruct (is_comma c) eqn:Ec; [|discriminate].
          destruct (pt_loop p f rest') as [l'|] eqn:El; [|discriminate]. cbn in H. injection H as <-.
          destruct (IH _ _ El) as (ps & -> & -> & HF).
          assert (c = TComma) as ->.
          { destruct c as [ |c| | | ]; cbn in Ec; try discriminate. apply N.eqb_eq in Ec. subst. reflexivity. }
          exists ((pre, [TComma], a) :: ps). cbn. repeat split; auto.
          -- rewrite Hpre. unfold flatten. rewrite <- app_assoc. reflexivity.
          -- constructor; auto. split; auto. exists (TComma :: flatten ps). rewrite <- Hpre. exact Ep.
  Qed.
End Lists.

(* ------------------------------------------------------------------ type lists: merged == split, trailing comma, order *)

Section Types.
  Variable ty : Type.
  Variable parse_type : list tok -> option (ty * list tok).
  Let P := types_pm ty parse_type false.

  (** value an attribute contributes (meaningful when it parses) *)
  Definition tval (a : attr) : list ty := match pm_parse P a with Ok l => l | Err _ => [] end.

  Lemma types_fold : forall (l : list attr) acc,
    Forall (fun a => exists x, pm_parse P a = Ok x) l ->
    fold_left (pa_step P) l (Ok (Some acc)) = Ok (Some (acc ++ concat (map tval l))).
  Proof.
    induction l as [|a l IH]; intros acc HF; cbn [fold_left map concat].
    - rewrite app_nil_r. reflexivity.
    - inversion HF as [|x y [v Hv] HF']; subst. unfold pa_step at 2. rewrite Hv. cbn [pm_merge P types_pm rmap].
      rewrite IH by auto. unfold tval at 2. rewrite Hv. rewrite app_assoc. reflexivity.
  Qed.

  (** the result of an accepted set of `#[a(<types>)]` attributes is the concatenation of what each
      attribute lists: nothing is dropped, nothing is reordered *)
  Lemma types_result name attrs :
    Forall (fun a => exists x, pm_parse P a = Ok x) (named name attrs) ->
    parse_attrs P name attrs =
      Ok (match named name attrs with [] => None | _ => Some (concat (map tval (named name attrs))) end).
  Proof.
    unfold parse_attrs. destruct (named name attrs) as [|a l]; intros HF; [reflexivity|].
    inversion HF as [|x y [v Hv] HF']; subst. cbn [fold_left]. unfold pa_step at 2. rewrite Hv.
    rewrite types_fold by auto. cbn [map concat]. unfold tval at 2. rewrite Hv. reflexivity.
  Qed.

  Lemma types_result_inv name attrs r :
    parse_attrs P name attrs = Ok r ->
    r = match named name attrs with [] => None | _ => Some (concat (map tval (named name attrs))) end.
  Proof.
    intros H. pose proof (parse_attrs_all_parsed _ _ _ _ H) as HF.
    rewrite types_result in H by auto. congruence.
  Qed.

  Lemma types_attr_join n tail (segs : list (list tok * ty)) :
    tail = [] \/ tail = [TComma] ->
    Forall (fun sa => complete parse_type (fst sa) (snd sa)) segs -> segs <> [] ->
    pm_parse P (mk n (join (map fst segs) ++ tail)) = Ok (map snd segs).
  Proof.
    intros Ht HF Hne. unfold P. cbn [pm_parse types_pm]. unfold parse_args, mk. cbn [a_meta]. unfold types_sp.
    rewrite parse_terminated_join; auto.
  Qed.

  (** one attribute listing several types == several attributes listing one each *)
  Lemma types_merge name (segs : list (list tok * ty)) :
    Forall (fun sa => complete parse_type (fst sa) (snd sa)) segs -> segs <> [] ->
    parse_attrs P name [mk name (join (map fst segs))] = Ok (Some (map snd segs)) /\
    parse_attrs P name (map (fun sa => mk name (fst sa)) segs) = Ok (Some (map snd segs)).
  Proof.
    intros HF Hne.
    assert (S1 : forall sa, complete parse_type (fst sa) (snd sa) -> pm_parse P (mk name (fst sa)) = Ok [snd sa]).
    { intros [s a] Hc. pose proof (types_attr_join name [] [(s, a)] (or_introl eq_refl)) as H.
      cbn [map fst snd join] in H. rewrite app_nil_r in H. apply H; [constructor; auto|congruence]. }
    split.
    - rewrite types_result.
      + cbn. rewrite N.eqb_refl. cbn. unfold tval.
        pose proof (types_attr_join name [] segs (or_introl eq_refl) HF Hne) as H. rewrite app_nil_r in H.
        rewrite H. rewrite app_nil_r. reflexivity.
      + cbn. rewrite N.eqb_refl. constructor; auto.
        pose proof (types_attr_join name [] segs (or_introl eq_refl) HF Hne) as H. rewrite app_nil_r in H. eauto.
    - assert (Hn : named name (map (fun sa : list tok * ty => mk name (fst sa)) segs)
                   = map (fun sa => mk name (fst sa)) segs).
      { unfold named. induction segs as [|sa l IH]; cbn; auto. rewrite N.eqb_refl. f_equal.
        inversion HF; subst. destruct l; auto. apply IH; auto. congruence. }
      rewrite types_result; rewrite Hn.
      + assert (C : forall l0, Forall (fun sa => complete parse_type (fst sa) (snd sa)) l0 ->
                    concat (map tval (map (fun sa : list tok * ty => mk name (fst sa)) l0)) = map snd l0).
        { induction l0 as [|x l0 IH]; intros HF0; [reflexivity|]. cbn [map concat].
          pose proof (Forall_inv HF0) as Hx; pose proof (Forall_inv_tail HF0) as HF1.
          unfold tval at 1. rewrite (S1 x Hx). cbn [app]. f_equal. apply IH; auto. }
        rewrite (C segs HF). destruct segs as [|sa l]; [exfalso; apply Hne; reflexivity|reflexivity].
      + rewrite Forall_map. eapply Forall_impl; [|exact HF]. intros sa Hc. rewrite S1 by auto. eauto.
  Qed.

  (** a trailing comma changes nothing *)
  Lemma types_trailing_comma name (segs : list (list tok * ty)) :
    Forall (fun sa => complete parse_type (fst sa) (snd sa)) segs -> segs <> [] ->
    parse_attrs P name [mk name (join (map fst segs) ++ [TComma])] =
    parse_attrs P name [mk name (join (map fst segs))].
  Proof.
    intros HF Hne. unfold parse_attrs. cbn. rewrite N.eqb_refl. cbn [fold_left]. unfold pa_step.
    pose proof (types_attr_join name [] segs (or_introl eq_refl) HF Hne) as H1. rewrite app_nil_r in H1.
    pose proof (types_attr_join name [TComma] segs (or_intror eq_refl) HF Hne) as H2.
    rewrite H1, H2. reflexivity.
  Qed.

  Lemma Permutation_filter_ {X} (f : X -> bool) l l' : Permutation l l' -> Permutation (filter f l) (filter f l').
  Proof.
    induction 1; cbn; auto.
    - destruct (f x); auto.
    - destruct (f x), (f y); auto. apply perm_swap.
    - eapply perm_trans; eauto.
  Qed.

  Lemma Permutation_concat_ {X} (l l' : list (list X)) : Permutation l l' -> Permutation (concat l) (concat l').
  Proof.
    induction 1; cbn; auto.
    - apply Permutation_app_head; auto.
    - rewrite !app_assoc. apply Permutation_app_tail. apply Permutation_app_comm.
    - eapply perm_trans; eauto.
  Qed.

  (** independent attributes in any order: the listed types are permuted accordingly *)
  Lemma types_order_independent name attrs attrs' l :
    Permutation attrs attrs' ->
    parse_attrs P name attrs = Ok (Some l) ->
    exists l', parse_attrs P name attrs' = Ok (Some l') /\ Permutation l l'.
  Proof.
    intros HP H. pose proof (parse_attrs_all_parsed _ _ _ _ H) as HF.
    apply types_result_inv in H.
    assert (HPn : Permutation (named name attrs) (named name attrs')) by (apply Permutation_filter_; auto).
    assert (HF' : Forall (fun a => exists x, pm_parse P a = Ok x) (named name attrs')).
    { eapply Permutation_Forall; eauto. }
    rewrite (types_result name attrs') by auto.
    destruct (named name attrs) as [|a0 l0] eqn:E; [discriminate|].
    destruct (named name attrs') as [|a1 l1] eqn:E'.
    { apply Permutation_sym, Permutation_nil in HPn. discriminate. }
    eexists. split; [reflexivity|]. injection H as ->.
    change (Permutation (concat (map tval (a0 :: l0))) (concat (map tval (a1 :: l1)))).
    apply Permutation_concat_. apply Permutation_map. exact HPn.
  Qed.

  (** the order of the types inside one attribute: the result is permuted the same way *)
  Lemma types_list_order name (segs segs' : list (list tok * ty)) :
    Forall (fun sa => complete parse_type (fst sa) (snd sa)) segs -> segs <> [] ->
    Permutation segs segs' ->
    exists l l', parse_attrs P name [mk name (join (map fst segs))] = Ok (Some l) /\
                 parse_attrs P name [mk name (join (map fst segs'))] = Ok (Some l') /\ Permutation l l'.
  Proof.
    intros HF Hne HP.
    assert (HF' : Forall (fun sa => complete parse_type (fst sa) (snd sa)) segs') by (eapply Permutation_Forall; eauto).
    assert (Hne' : segs' <> []).
    { intros ->. apply Permutation_sym, Permutation_nil in HP. congruence. }
    exists (map snd segs), (map snd segs'). repeat split.
    - apply types_merge; auto.
    - apply types_merge; auto.
    - apply Permutation_map; auto.
  Qed.
End Types.

(* ------------------------------------------------------------------ kinds: duplicates and mixtures are rejected *)

Section Kinds.
  Variable ty : Type.
  Variable parse_type : list tok -> option (ty * list tok).
  Variable lg : bool.
  Let P := fieldconv_pm ty parse_type lg.

  Definition fc_kind (c : fieldconv ty) : nat :=
    match c with FEmpty _ => 0 | FSkip _ _ => 1 | FForward _ => 2 | FTypes _ _ => 3 end%nat.

  Lemma fieldconv_merge_ok p n r :
    pm_merge P p n = Ok r -> fc_kind p = 3%nat /\ fc_kind n = 3%nat /\ fc_kind r = 3%nat.
  Proof. destruct p, n; cbn; intros H; try discriminate. injection H as <-. auto. Qed.

  Lemma fieldconv_merge_mixed p n : fc_kind p <> fc_kind n -> pm_merge P p n = Err EKind.
  Proof. destruct p, n; cbn; intros H; try reflexivity; congruence. Qed.

  Lemma fieldconv_merge_dup p n :
    fc_kind p = fc_kind n -> fc_kind p <> 3%nat -> pm_merge P p n = Err ESingle.
  Proof. destruct p, n; cbn; intros H H'; try reflexivity; try discriminate; congruence. Qed.

  Lemma fc_fold_inv : forall (l : list attr) acc r,
    fold_left (pa_step P) l (Ok (Some acc)) = Ok (Some r) ->
    fc_kind r = fc_kind acc /\
    Forall (fun a => exists x, pm_parse P a = Ok x /\ fc_kind x = fc_kind acc) l /\
    (l <> [] -> fc_kind acc = 3%nat).
  Proof.
    induction l as [|a l IH]; intros acc r H; cbn [fold_left] in H.
    - injection H as <-. repeat split; auto. congruence.
    - unfold pa_step at 2 in H. destruct (pm_parse P a) as [x|e] eqn:Ea; [|rewrite fold_err in H; discriminate].
      destruct (pm_merge P acc x) as [acc'|e] eqn:Em; cbn [rmap] in H; [|rewrite fold_err in H; discriminate].
      apply fieldconv_merge_ok in Em. destruct Em as (K1 & K2 & K3).
      destruct (IH _ _ H) as (R1 & R2 & R3). repeat split; try congruence.
      constructor; [exists x; split; congruence|].
      eapply Forall_impl; [|exact R2]. intros b (y & Hy & Ky). exists y. split; congruence.
  Qed.

  (** accepted => all the attributes of that name are of one kind, and only `<types>` may repeat *)
  Lemma fieldconv_one_kind name attrs r :
    parse_attrs P name attrs = Ok (Some r) ->
    Forall (fun a => exists x, pm_parse P a = Ok x /\ fc_kind x = fc_kind r) (named name attrs) /\
    (fc_kind r <> 3%nat -> length (named name attrs) = 1%nat).
  Proof.
    unfold parse_attrs. destruct (named name attrs) as [|a l]; cbn [fold_left]; [discriminate|].
    unfold pa_step at 2. destruct (pm_parse P a) as [x|e] eqn:Ea; [|rewrite fold_err; discriminate].
    intros H. destruct (fc_fold_inv _ _ _ H) as (R1 & R2 & R3). split.
    - constructor; [exists x; split; congruence|].
      eapply Forall_impl; [|exact R2]. intros b (y & Hy & Ky). exists y. split; congruence.
    - intros Hk. destruct l; [reflexivity|]. exfalso. apply Hk. rewrite R1. apply R3. congruence.
  Qed.

  (** the contrapositive, as rejections *)
  Lemma fieldconv_duplicate_rejected name attrs a b x y :
    named name attrs = [a; b] -> pm_parse P a = Ok x -> pm_parse P b = Ok y ->
    fc_kind x <> 3%nat -> exists e, parse_attrs P name attrs = Err e.
  Proof.
    intros Hn Ha Hb Hk. destruct (parse_attrs P name attrs) as [[r|]|e] eqn:E; eauto; exfalso.
    - destruct (fieldconv_one_kind _ _ _ E) as (HF & HL). rewrite Hn in *.
      inversion HF as [|? ? (x' & Hx' & Kx) HF']; subst. rewrite Ha in Hx'. injection Hx' as <-.
      rewrite <- Kx in HL. specialize (HL Hk). discriminate.
    - unfold parse_attrs in E. rewrite Hn in E. cbn [fold_left] in E. unfold pa_step in E. rewrite Ha, Hb in E.
      destruct (pm_merge P x y); discriminate.
  Qed.

  Lemma fieldconv_mixed_rejected name attrs a b x y :
    In a attrs -> In b attrs -> a_name a = name -> a_name b = name ->
    pm_parse P a = Ok x -> pm_parse P b = Ok y -> fc_kind x <> fc_kind y ->
    exists e, parse_attrs P name attrs = Err e.
  Proof.
    intros Ia Ib Na Nb Ha Hb Hk. destruct (parse_attrs P name attrs) as [[r|]|e] eqn:E; eauto; exfalso.
    - destruct (fieldconv_one_kind _ _ _ E) as (HF & _). rewrite Forall_forall in HF.
      assert (In a (named name attrs)) as Ja by (apply filter_In; split; auto; apply N.eqb_eq; auto).
      assert (In b (named name attrs)) as Jb by (apply filter_In; split; auto; apply N.eqb_eq; auto).
      destruct (HF a Ja) as (x' & Hx' & Kx). destruct (HF b Jb) as (y' & Hy' & Ky). congruence.
    - unfold parse_attrs in E.
      assert (In a (named name attrs)) as Ja by (apply filter_In; split; auto; apply N.eqb_eq; auto).
      destruct (named name attrs) as [|c l]; [contradiction|]. cbn [fold_left] in E. unfold pa_step at 2 in E.
      destruct (pm_parse P c); [|rewrite fold_err in E; discriminate].
      assert (forall l0 v, fold_left (pa_step P) l0 (Ok (Some v)) <> Ok None) as G.
      { induction l0 as [|d l0 IH]; intros v; cbn [fold_left]; [discriminate|]. unfold pa_step at 2.
        destruct (pm_parse P d); [|rewrite fold_err; discriminate].
        destruct (pm_merge P v a1); cbn [rmap]; [apply IH|rewrite fold_err; discriminate]. }
      eapply G; eauto.
  Qed.
End Kinds.

(** Either<L, R>: values of different kinds never merge *)
Lemma either_mixed_rejected {A B} (L : PM A) (R : PM B) a b :
  pm_merge (either_pm L R) (inl a) (inr b) = Err EKind /\ pm_merge (either_pm L R) (inr b) (inl a) = Err EKind.
Proof. split; reflexivity. Qed.

(* ------------------------------------------------------------------ unknown / legacy / conflicting arguments *)

Section Reject.
  Variable ty : Type.
  Variable parse_type : list tok -> option (ty * list tok).
  Variable pred : Type.
  Variable parse_pred : list tok -> option (pred * list tok).
  Variable fmt_args_ok : list tok -> bool.

  (** an identifier that is none of the container keywords, on a Display-family container *)
  Lemma display_unknown_rejected n i rest :
    is_bound_kw i = false -> i <> k_rename_all ->
    exists e, pm_parse (dcont_pm pred parse_pred fmt_args_ok) (mk n (TId i :: rest)) = Err e.
  Proof.
    intros Hb Hr. cbn [pm_parse dcont_pm]. unfold parse_args, mk. cbn [a_meta]. unfold dcont_sp.
    destruct (check_legacy_fmt (TId i :: rest)); cbn [bind]; eauto.
    rewrite Hb. apply N.eqb_neq in Hr. rewrite Hr. eauto.
  Qed.

  (** Debug container: anything that is neither a literal nor `bound(..)` *)
  Lemma debug_unknown_rejected n i rest :
    is_bound_kw i = false ->
    exists e, pm_parse (fcont_pm pred parse_pred fmt_args_ok) (mk n (TId i :: rest)) = Err e.
  Proof.
    intros Hb. cbn [pm_parse fcont_pm]. unfold parse_args, mk. cbn [a_meta]. unfold fcont_sp.
    destruct (check_legacy_fmt (TId i :: rest)) eqn:El; cbn [bind]; eauto.
    unfold either_sp, fmt_sp. rewrite El. cbn [bind].
    unfold bounds_sp. destruct (check_legacy_bound (TId i :: rest)); cbn [bind]; eauto.
    destruct (path_ident (TId i :: rest)) as [[j r]|] eqn:Ep; eauto.
    assert (j = i) as ->.
    { unfold path_ident in Ep. destruct (is_rust_keyword i); [discriminate|].
      destruct rest as [|[ |c| | | ] r']; try (injection Ep as <- _; reflexivity).
      destruct ((c =? c_colon) || (c =? c_lt)); [discriminate|]. injection Ep as <- _; reflexivity. }
    rewrite Hb. eauto.
  Qed.

  (** Debug field: an identifier other than `skip`/`ignore` *)
  Lemma debug_field_unknown_rejected n i rest :
    i <> k_skip -> i <> k_ignore ->
    exists e, pm_parse (dfield_pm fmt_args_ok) (mk n (TId i :: rest)) = Err e.
  Proof.
    intros Hs Hi. cbn [pm_parse dfield_pm either_pm].
    assert (exists e, pm_parse skip_pm (mk n (TId i :: rest)) = Err e) as [e1 ->].
    { cbn [pm_parse skip_pm]. unfold parse_args, mk. cbn [a_meta]. unfold skip_sp.
      destruct (path_ident (TId i :: rest)) as [[j r]|] eqn:Ep; eauto.
      assert (j = i) as ->.
      { unfold path_ident in Ep. destruct (is_rust_keyword i); [discriminate|].
        destruct rest as [|[ |c| | | ] r']; try (injection Ep as <- _; reflexivity).
        destruct ((c =? c_colon) || (c =? c_lt)); [discriminate|]. injection Ep as <- _; reflexivity. }
      apply N.eqb_neq in Hs, Hi. rewrite Hs, Hi. eauto. }
    cbn [pm_parse fmt_pm]. unfold parse_args, mk. cbn [a_meta]. unfold fmt_sp.
    destruct (check_legacy_fmt (TId i :: rest)); cbn [bind rmap]; eauto.
  Qed.

  (** pre-1.0 syntax *)
  Lemma from_legacy_types_rejected n inner rest :
    pm_parse (fieldconv_pm ty parse_type true) (mk n (TId k_types :: TGr 0 inner :: rest)) = Err ELegacy /\
    pm_parse (conversion_pm ty parse_type true) (mk n (TId k_types :: TGr 0 inner :: rest)) = Err ELegacy.
  Proof. split; reflexivity. Qed.

  Lemma fmt_legacy_rejected n s :
    pm_parse (fcont_pm pred parse_pred fmt_args_ok) (mk n [TId k_fmt; TPu c_eq; TStr s]) = Err ELegacy /\
    pm_parse (dcont_pm pred parse_pred fmt_args_ok) (mk n [TId k_fmt; TPu c_eq; TStr s]) = Err ELegacy /\
    pm_parse (dfield_pm fmt_args_ok) (mk n [TId k_fmt; TPu c_eq; TStr s]) = Err ELegacy.
  Proof. repeat split; reflexivity. Qed.

  Lemma fmt_legacy_args_rejected n s x :
    is_rust_keyword x = false ->
    pm_parse (fcont_pm pred parse_pred fmt_args_ok) (mk n [TId k_fmt; TPu c_eq; TStr s; TComma; TId x]) = Err ELegacy /\
    pm_parse (dcont_pm pred parse_pred fmt_args_ok) (mk n [TId k_fmt; TPu c_eq; TStr s; TComma; TId x]) = Err ELegacy.
  Proof.
    intros Hx. split; cbn; unfold fcont_sp, dcont_sp, check_legacy_fmt; cbn; unfold legacy_elem at 1; cbn;
      rewrite Hx; reflexivity.
  Qed.

  Lemma bound_legacy_rejected n s rest :
    pm_parse (fcont_pm pred parse_pred fmt_args_ok) (mk n (TId k_bound :: TPu c_eq :: TStr s :: rest)) = Err ELegacy /\
    pm_parse (dcont_pm pred parse_pred fmt_args_ok) (mk n (TId k_bound :: TPu c_eq :: TStr s :: rest)) = Err ELegacy.
  Proof. split; reflexivity. Qed.

  (** one literal, one `rename_all` *)
  Lemma fmt_two_literals_rejected (p n : fcont pred) f g :
    fc_fmt pred p = Some f -> fc_fmt pred n = Some g -> fcont_merge pred p n = Err ESingle.
  Proof. intros Hp Hn. unfold fcont_merge. rewrite Hp, Hn. reflexivity. Qed.

  Lemma display_two_renames_rejected (p n : dcont pred) a b :
    dc_rename pred p = Some a -> dc_rename pred n = Some b -> dcont_merge pred p n = Err ESingle.
  Proof. intros Hp Hn. unfold dcont_merge. rewrite Hp, Hn. reflexivity. Qed.

  (** as_ref: attribute on the struct and on its field *)
  Lemma as_ref_struct_and_field_rejected name attrs f c x :
    parse_attrs (conversion_pm ty parse_type false) name attrs = Ok (Some c) ->
    parse_attrs (fieldconv_pm ty parse_type false) name (fd_attrs f) = Ok (Some x) ->
    as_ref_attrs ty parse_type name {| i_attrs := attrs; i_body := BStruct [f] |} = Err EConflict.
  Proof. intros H1 H2. unfold as_ref_attrs. cbn [i_body i_attrs]. rewrite H1. cbn [bind]. rewrite H2. reflexivity. Qed.

  (** as_ref: `skip` next to any other field attribute *)
  Lemma as_ref_skip_and_others_rejected name attrs fs fas :
    parse_attrs (conversion_pm ty parse_type false) name attrs = Ok None ->
    sequence (map (fun f => parse_attrs (fieldconv_pm ty parse_type false) name (fd_attrs f)) fs) = Ok fas ->
    existsb (is_fskip ty) fas = true ->
    (exists o x, In o fas /\ o = Some x /\ is_fskip ty o = false) ->
    as_ref_attrs ty parse_type name {| i_attrs := attrs; i_body := BStruct fs |} = Err EConflict.
  Proof.
    intros H1 H2 H3 (o & x & Hin & -> & Hns). unfold as_ref_attrs. cbn [i_body i_attrs]. rewrite H1. cbn [bind].
    rewrite H2. cbn [bind].
    set (present := filter _ fas).
    assert (existsb (is_fskip ty) present = true) as E1.
    { apply existsb_exists in H3. destruct H3 as (y & Hy & Ky). apply existsb_exists. exists y. split; auto.
      apply filter_In. split; auto. destruct y; [reflexivity|discriminate]. }
    assert (forallb (is_fskip ty) present = false) as E2.
    { destruct (forallb (is_fskip ty) present) eqn:E; auto. rewrite forallb_forall in E.
      assert (In (Some x) present) as Hp by (apply filter_In; split; auto).
      rewrite (E _ Hp) in Hns. discriminate. }
    rewrite E1, E2. reflexivity.
  Qed.

  (** Debug: a literal on the struct/variant and a literal on one of its fields *)
  Lemma debug_container_and_field_fmt_rejected fs f x :
    In f fs -> parse_attrs (dfield_pm fmt_args_ok) n_debug (fd_attrs f) = Ok (Some (inr x)) ->
    exists e, debug_fields fmt_args_ok true fs = Err e.
  Proof.
    induction fs as [|g fs IH]; intros Hin Hp; [contradiction|]. cbn [debug_fields].
    destruct Hin as [->|Hin].
    - rewrite Hp. cbn [bind]. eauto.
    - destruct (parse_attrs (dfield_pm fmt_args_ok) n_debug (fd_attrs g)) as [o|e]; cbn [bind]; eauto.
      destruct (IH Hin Hp) as [e He].
      destruct o as [[s|y]|]; eauto; rewrite He; cbn; eauto.
  Qed.

  (** Debug: a literal on the enum itself *)
  Lemma debug_enum_fmt_rejected attrs vs c f :
    parse_attrs (fcont_pm pred parse_pred fmt_args_ok) n_debug attrs = Ok (Some c) -> fc_fmt pred c = Some f ->
    debug_attrs pred parse_pred fmt_args_ok {| i_attrs := attrs; i_body := BEnum vs |} = Err ENotAllowed.
  Proof. intros H1 H2. unfold debug_attrs. cbn [i_attrs i_body]. rewrite H1. cbn [bind]. rewrite H2. reflexivity. Qed.

  (** try_from: `repr(<types>)` is refused, two `repr` are refused *)
  Lemma try_from_repr_twice_rejected : pm_merge (reprconv_pm ty parse_type) (RDiscriminant ty) (RDiscriminant ty) = Err ESingle.
  Proof. reflexivity. Qed.

  (** From on an enum never looks at the attributes of the enum itself: the defect
      `from-container-attr-on-enum-ignored`, stated for all inputs *)
  Lemma from_enum_container_ignored attrs attrs' vs :
    from_attrs ty parse_type {| i_attrs := attrs; i_body := BEnum vs |} =
    from_attrs ty parse_type {| i_attrs := attrs'; i_body := BEnum vs |}.
  Proof. reflexivity. Qed.

  (** Display: every explicit bound of the container and of the variants reaches the `where` clause,
      with or without a literal (fixes 12fe071, aea87eb) *)
  Lemma display_bounds_kept name it c vas bs :
    display_attrs pred parse_pred fmt_args_ok name it = Ok (c, vas, bs) ->
    bs = fc_bounds pred (dc_common pred c) ++ flat_map (fun a => fc_bounds pred (dc_common pred a)) vas.
  Proof.
    unfold display_attrs.
    destruct (parse_attrs (dcont_pm pred parse_pred fmt_args_ok) name (i_attrs it)) as [ca|e]; cbn [bind]; [|discriminate].
    destruct (i_body it) as [fs|vs].
    - destruct (fc_fmt pred (dc_common pred match ca with Some c0 => c0 | None => _ end)), fs as [|f1 [|f2 fs']];
        try discriminate; intros H; injection H as <- <- <-; cbn; rewrite app_nil_r; reflexivity.
    - match goal with |- bind ?X _ = _ -> _ => destruct X as [vas0|e]; cbn [bind]; [|discriminate] end.
      intros H; injection H as <- <- <-. reflexivity.
  Qed.
End Reject.

(* ------------------------------------------------------------------ the legacy meta parser *)

Lemma legacy_two_attrs_rejected name attrs allowed a b l :
  named name attrs = a :: b :: l -> allowed <> [] -> get_meta_info name attrs allowed = Err ESingle.
Proof. intros H Ha. unfold get_meta_info. rewrite H. destruct allowed; [congruence|reflexivity]. Qed.

Lemma legacy_not_allowed_here name attrs a l :
  named name attrs = a :: l -> get_meta_info name attrs [] = Err ENotAllowed.
Proof. intros H. unfold get_meta_info. rewrite H. reflexivity. Qed.

Lemma legacy_empty_attr name attrs a allowed :
  named name attrs = [a] -> a_meta a = MPath -> allowed <> [] -> mem k_ignore allowed = false ->
  get_meta_info name attrs allowed = Err EEmptyAttr.
Proof. intros H Hm Ha Hi. unfold get_meta_info. rewrite H, Hm, Hi. destruct allowed; [congruence|reflexivity]. Qed.

(** identifiers that start an element of a comma list *)
Fixpoint top_idents (ts : list tok) (start : bool) : list N :=
  match ts with
  | [] => []
  | t :: r => (if start then match t with TId i => [i] | _ => [] end else []) ++ top_idents r (is_comma t)
  end.

Lemma lmeta_sp_inv ts m rest :
  lmeta_sp ts = Some (m, rest) ->
  exists i r, ts = TId i :: r /\
    ((exists inner, r = TGr 0 inner :: rest /\ m = LList i inner) \/ (r = rest /\ m = LPath i)).
Proof.
  unfold lmeta_sp. destruct ts as [|[i| | | |] r]; try discriminate.
  destruct (match r with TPu c :: _ => (c =? c_colon) || (c =? c_lt) | _ => false end); [discriminate|].
  intros H. exists i, r. split; auto.
  destruct r as [|[ | | | |d inner] r']; try solve [injection H as <- <-; right; auto].
  destruct d; try solve [injection H as <- <-; right; auto].
  injection H as <- <-. left. eauto.
Qed.

(** accepted => every parameter (possibly behind `not(..)`) is on the position's allow-list *)
Lemma legacy_accepted_all_allowed fuel : forall info ts allowed w info',
  lmeta_list fuel info ts allowed w = Ok info' ->
  Forall (fun i => i = k_not \/ mem i allowed = true) (top_idents ts true).
Proof.
  induction fuel as [|f IH]; intros info ts allowed w info' H; [discriminate|].
  cbn [lmeta_list] in H. destruct ts as [|t ts']; [constructor|].
  destruct (lmeta_sp (t :: ts')) as [[m rest]|] eqn:Es; [|discriminate].
  destruct (lmeta_sp_inv _ _ _ Es) as (i & r & Hts & Hm). injection Hts as -> ->.
  cbn [top_idents app is_comma].
  match type of H with match ?here with _ => _ end = _ => destruct here as [info1|e] eqn:Eh; [|discriminate] end.
  assert (Hi : i = k_not \/ mem i allowed = true).
  { destruct Hm as [(inner & -> & ->)|(-> & ->)].
    - destruct (N.eqb_spec i k_not); auto. right.
      destruct (mem i allowed); auto. cbn in Eh. discriminate.
    - right. destruct (mem i allowed); auto. cbn in Eh. discriminate. }
  constructor; auto.
  assert (Hr : top_idents r false = top_idents rest false).
  { destruct Hm as [(inner & -> & ->)|(-> & ->)]; reflexivity. }
  rewrite Hr. destruct rest as [|c rest']; [constructor|].
  destruct (is_comma c) eqn:Ec; [|discriminate]. cbn [top_idents app]. rewrite Ec.
  eapply IH; eauto.
Qed.

Lemma legacy_unknown_head_rejected f info i rest allowed w :
  mem i allowed = false -> i <> k_not -> exists e, lmeta_list (S f) info (TId i :: rest) allowed w = Err e.
Proof.
  intros Hm Hn. destruct (lmeta_list (S f) info (TId i :: rest) allowed w) as [info'|e] eqn:E; eauto.
  apply legacy_accepted_all_allowed in E. cbn in E. inversion E as [|? ? [H|H] _]; subst; congruence.
Qed.

(** `name = value` (e.g. the pre-1.0 `forward = true`) *)
Lemma legacy_name_value_rejected f info i rest allowed w :
  exists e, lmeta_list (S f) info (TId i :: TPu c_eq :: rest) allowed w = Err e.
Proof.
  cbn [lmeta_list]. unfold lmeta_sp. cbn.
  match goal with |- exists e, match ?here with _ => _ end = _ => destruct here; eauto end.
Qed.

(** the `types` arm of `parse_punctuated_nested_meta` is dead: no derive allows `types` *)
Lemma types_never_allowed :
  forallb (fun r => let '(_, _, (e, v, s, f)) := r in
                    negb (mem k_types e) && negb (mem k_types v) && negb (mem k_types s) && negb (mem k_types f))
          c17_allow_table = true.
Proof. vm_compute. reflexivity. Qed.

Lemma legacy_types_arm_dead fuel : forall info ts allowed w,
  mem k_types allowed = false -> lmeta_list fuel info ts allowed w <> Err EUnsupported.
Proof.
  induction fuel as [|f IH]; intros info ts allowed w Ha; cbn [lmeta_list]; [discriminate|].
  destruct ts as [|t ts']; [discriminate|].
  destruct (lmeta_sp (t :: ts')) as [[m rest]|]; [|discriminate].
  assert (Hhere : forall here : res minfo,
            here <> Err EUnsupported ->
            match here with
            | Err e => Err e
            | Ok info'0 => match rest with
                           | [] => Ok info'0
                           | t0 :: rest' => if is_comma t0 then lmeta_list f info'0 rest' allowed w else Err EParse
                           end
            end <> Err EUnsupported).
  { intros [x|e] Hne; [|exact Hne]. destruct rest as [|c r]; [discriminate|].
    destruct (is_comma c); [apply IH; auto|discriminate]. }
  apply Hhere. destruct m as [i|i inner].
  - destruct (mem i allowed); cbn [negb]; [|discriminate].
    unfold lpath_apply. destruct w; repeat (match goal with |- context [if ?b then _ else _] => destruct b end); discriminate.
  - destruct (i =? k_not).
    + destruct w; try discriminate. apply IH; auto.
    + destruct (mem i allowed) eqn:Em; cbn [negb]; [|discriminate].
      assert (i =? k_types = false) as Et.
      { destruct (N.eqb_spec i k_types); auto. subst. congruence. }
      destruct w; try discriminate.
      * destruct (i =? k_owned); [apply IH; auto|]. destruct (i =? k_ref); [apply IH; auto|].
        destruct (i =? k_ref_mut); [apply IH; auto|]. rewrite Et. discriminate.
      * rewrite Et. cbn. discriminate.
Qed.

(* ------------------------------------------------------------------ witnesses: where the faithful model violates the property *)

Definition E_info := set_enabled minfo_default true.

(** `#[deref(forward, not(forward))]` is accepted; the later parameter silently wins *)
Lemma legacy_negation_accepted_witness :
  exists info, lmeta_list 10 E_info [TId k_forward; TComma; TId k_not; TGr 0 [TId k_forward]] [k_ignore; k_forward] WNone = Ok info
               /\ mi_forward info = Some false.
Proof. eexists. split; reflexivity. Qed.

(** `#[deref(forward, ignore)]`: accepted, the field is disabled, `forward` has no effect *)
Lemma legacy_ignore_with_other_witness :
  exists info, lmeta_list 10 E_info [TId k_forward; TComma; TId k_ignore] [k_ignore; k_forward] WNone = Ok info
               /\ mi_enabled info = Some false /\ mi_forward info = Some true.
Proof. eexists. repeat split; reflexivity. Qed.

(** `#[deref(forward, forward)]` == `#[deref(forward)]` *)
Lemma legacy_duplicate_accepted_witness :
  lmeta_list 10 E_info [TId k_forward; TComma; TId k_forward] [k_ignore; k_forward] WNone =
  lmeta_list 10 E_info [TId k_forward] [k_ignore; k_forward] WNone
  /\ exists info, lmeta_list 10 E_info [TId k_forward] [k_ignore; k_forward] WNone = Ok info.
Proof. split; [reflexivity|eexists; reflexivity]. Qed.

(** REMARK, not part of property C17 (the property text and impl/doc/*.md name only `bound`/`bounds`):
    the `where(..)` spelling that fmt/mod.rs:32 mentions is refused (`syn::Path` does not parse the keyword) *)
Definition w_preds := [TId 1000; TPu c_colon; TId 1001].
Lemma where_spelling_refuted :
  exists preds,
    is_ok (parse_attrs (fcont_pm tt_ty simple_pred simple_fmt_args) n_debug [mk n_debug [TId k_bound; TGr 0 preds]]) = true /\
    is_ok (parse_attrs (fcont_pm tt_ty simple_pred simple_fmt_args) n_debug [mk n_debug [TId k_bounds; TGr 0 preds]]) = true /\
    parse_attrs (fcont_pm tt_ty simple_pred simple_fmt_args) n_debug [mk n_debug [TId k_where; TGr 0 preds]] = Err EParse.
Proof. exists w_preds. repeat split; vm_compute; reflexivity. Qed.

(** `#[from(skip,)]`: with the comma the keyword is read as a type *)
Lemma keyword_trailing_comma_reinterpreted_witness :
  pm_parse (fieldconv_pm tt_ty simple_type true) (mk n_from [TId k_skip]) = Ok (FSkip tt_ty k_skip) /\
  pm_parse (fieldconv_pm tt_ty simple_type true) (mk n_from [TId k_skip; TComma]) = Ok (FTypes tt_ty [[TId k_skip]]).
Proof. split; vm_compute; reflexivity. Qed.

(* ------------------------------------------------------------------ non-vacuity *)

Example complete_inhabited : complete simple_type [TId 48] [TId 48].
Proof.
  split; [discriminate|]. intros rest [->|[r ->]]; vm_compute; reflexivity.
Qed.

Example complete_inhabited_generic :
  complete simple_type [TId 1000; TPu c_lt; TId 40; TPu c_comma; TId 41; TPu c_gt]
                       [TId 1000; TPu c_lt; TId 40; TPu c_comma; TId 41; TPu c_gt].
Proof.
  split; [discriminate|]. intros rest [->|[r ->]]; [vm_compute; reflexivity|].
  unfold simple_type. cbn [app length]. cbn. 
  replace (run_to_comma (length r) 0 (TComma :: r) [TPu c_gt; TId 41; TPu c_comma; TId 40; TPu c_lt; TId 1000])
    with (rev [TPu c_gt; TId 41; TPu c_comma; TId 40; TPu c_lt; TId 1000], TComma :: r).
  - reflexivity.
  - destruct r; reflexivity.
Qed.

Example types_merge_example :
  parse_attrs (types_pm tt_ty simple_type false) n_from [mk n_from [TId 48; TComma; TId 49]] =
  parse_attrs (types_pm tt_ty simple_type false) n_from [mk n_from [TId 48]; mk n_from [TId 49]].
Proof. vm_compute. reflexivity. Qed.

Example simple_type_prefix ts a rest : simple_type ts = Some (a, rest) -> exists pre, ts = pre ++ rest.
Proof.
  unfold simple_type.
  assert (G : forall fuel depth ts acc seg rest, run_to_comma fuel depth ts acc = (seg, rest) -> rev acc ++ ts = seg ++ rest).
  { induction fuel as [|f IH]; intros depth ts0 acc seg rest0 H; cbn [run_to_comma] in H.
    - injection H as <- <-. reflexivity.
    - destruct ts0 as [|t r].
      + injection H as <- <-. reflexivity.
      + assert (S : forall d, run_to_comma f d r (t :: acc) = (seg, rest0) -> rev acc ++ t :: r = seg ++ rest0).
        { intros d Hd. apply IH in Hd. cbn [rev] in Hd. rewrite <- app_assoc in Hd. exact Hd. }
        destruct t as [i|c|s|s|d inner]; eauto.
        destruct ((c =? c_comma) && Nat.eqb depth 0); [injection H as <- <-; reflexivity|].
        destruct (c =? c_lt); eauto. destruct (c =? c_gt); eauto. }
  destruct (run_to_comma (length ts) 0 ts []) as [seg r] eqn:E. apply G in E. cbn in E.
  destruct seg as [|t seg']; [discriminate|].
  intros H. exists a.
  destruct t; try discriminate; destruct (has_top_eq 0 _); try discriminate; injection H as <- <-; exact E.
Qed.

(* ------------------------------------------------------------------ lifting the list theorems to the grammars the derives use *)

Lemma parse_attrs_embed {A B} (P : PM A) (Q : PM B) (inj : A -> B) name attrs :
  Forall (fun a => pm_parse Q a = rmap inj (pm_parse P a)) (named name attrs) ->
  (forall x y, pm_merge Q (inj x) (inj y) = rmap inj (pm_merge P x y)) ->
  parse_attrs Q name attrs = rmap (option_map inj) (parse_attrs P name attrs).
Proof.
  intros HF Hm. unfold parse_attrs. revert HF. generalize (named name attrs). intros l HF.
  assert (G : forall acc, fold_left (pa_step Q) l (rmap (option_map inj) acc)
                          = rmap (option_map inj) (fold_left (pa_step P) l acc)).
  { induction l as [|a l IH]; intros acc; [reflexivity|]. cbn [fold_left].
    pose proof (Forall_inv HF) as Ha. rewrite <- IH by (eapply Forall_inv_tail; eauto). f_equal.
    unfold pa_step. destruct acc as [m|e]; [|reflexivity]. cbn [rmap]. rewrite Ha.
    destruct (pm_parse P a) as [x|e]; [|reflexivity]. cbn [rmap].
    destruct m as [p|]; [|reflexivity]. cbn [option_map]. rewrite Hm.
    destruct (pm_merge P p x); reflexivity. }
  apply (G (Ok None)).
Qed.

Section Lift.
  Variable ty : Type.
  Variable parse_type : list tok -> option (ty * list tok).

  (** the argument list is not one of the lone keywords `skip`, `ignore`, `forward` *)
  Definition not_lone_kw (ts : list tok) : Prop :=
    match ts with
    | [TId i] => i <> k_skip /\ i <> k_ignore /\ i <> k_forward
    | _ => True
    end.

  Lemma path_ident_rest ts i rest : path_ident ts = Some (i, rest) -> ts = TId i :: rest.
  Proof.
    unfold path_ident. destruct ts as [|[j| | | |] r]; try discriminate.
    destruct (is_rust_keyword j); [discriminate|].
    destruct r as [|[ |c| | | ] r']; try (intros H; injection H as <- <-; reflexivity).
    destruct ((c =? c_colon) || (c =? c_lt)); [discriminate|]. intros H; injection H as <- <-; reflexivity.
  Qed.

  Lemma fieldconv_types_only n ts :
    not_lone_kw ts ->
    pm_parse (fieldconv_pm ty parse_type false) (mk n ts) =
    rmap (FTypes ty) (pm_parse (types_pm ty parse_type false) (mk n ts)).
  Proof.
    intros Hk. cbn [pm_parse fieldconv_pm either_pm empty_pm]. unfold mk at 1. cbn [a_meta].
    assert (S : exists e, pm_parse skip_pm (mk n ts) = Err e).
    { cbn [pm_parse skip_pm]. unfold parse_args, mk. cbn [a_meta]. unfold skip_sp.
      destruct (path_ident ts) as [[i rest]|] eqn:Ep; eauto. apply path_ident_rest in Ep. subst ts.
      destruct rest as [|t r].
      - cbn in Hk. destruct Hk as (H1 & H2 & _). apply N.eqb_neq in H1, H2. rewrite H1, H2. eauto.
      - destruct (i =? k_skip); eauto. destruct (i =? k_ignore); eauto. }
    assert (F : exists e, pm_parse forward_pm (mk n ts) = Err e).
    { cbn [pm_parse forward_pm]. unfold parse_args, mk. cbn [a_meta]. unfold forward_sp.
      destruct (path_ident ts) as [[i rest]|] eqn:Ep; eauto. apply path_ident_rest in Ep. subst ts.
      destruct rest as [|t r].
      - cbn in Hk. destruct Hk as (_ & _ & H3). apply N.eqb_neq in H3. rewrite H3. eauto.
      - destruct (i =? k_forward); eauto. }
    destruct S as [e1 ->]. destruct F as [e2 ->]. cbn [rmap].
    destruct (pm_parse (types_pm ty parse_type false) (mk n ts)); reflexivity.
  Qed.

  (** `#[from(T1, .., Tn)]` == `#[from(T1)] .. #[from(Tn)]` on a variant / `#[as_ref(..)]` on a field *)
  Lemma fieldconv_types_merge name (segs : list (list tok * ty)) :
    Forall (fun sa => complete parse_type (fst sa) (snd sa)) segs -> segs <> [] ->
    Forall (fun sa => not_lone_kw (fst sa)) segs ->
    parse_attrs (fieldconv_pm ty parse_type false) name [mk name (join (map fst segs))]
      = Ok (Some (FTypes ty (map snd segs))) /\
    parse_attrs (fieldconv_pm ty parse_type false) name (map (fun sa => mk name (fst sa)) segs)
      = Ok (Some (FTypes ty (map snd segs))).
  Proof.
    intros HF Hne Hk. destruct (types_merge ty parse_type name segs HF Hne) as [T1 T2].
    assert (M : forall x y, pm_merge (fieldconv_pm ty parse_type false) (FTypes ty x) (FTypes ty y)
                            = rmap (FTypes ty) (pm_merge (types_pm ty parse_type false) x y)) by reflexivity.
    split.
    - rewrite (parse_attrs_embed (types_pm ty parse_type false) _ (FTypes ty)); auto.
      + rewrite T1. reflexivity.
      + replace (named name [mk name (join (map fst segs))]) with [mk name (join (map fst segs))]
          by (unfold named, mk; cbn [filter a_name]; rewrite N.eqb_refl; reflexivity).
        constructor; auto. apply fieldconv_types_only.
        destruct segs as [|[s a] [|[s2 a2] more]]; [congruence| |].
        * cbn. apply (Forall_inv Hk).
        * cbn [map fst join]. pose proof (Forall_inv HF) as [Hs _]. cbn in Hs.
          destruct s as [|t [|t2 s']]; [congruence| |]; cbn [app]; destruct t; exact I.
    - rewrite (parse_attrs_embed (types_pm ty parse_type false) _ (FTypes ty)); auto.
      + rewrite T2. reflexivity.
      + apply Forall_forall. intros a Ha. apply filter_In in Ha. destruct Ha as [Ha _].
        apply in_map_iff in Ha. destruct Ha as (sa & <- & Hin). apply fieldconv_types_only.
        rewrite Forall_forall in Hk. apply Hk; auto.
  Qed.
End Lift.

(* ------------------------------------------------------------------ the property theorems (stated in full; Props.v re-exports them) *)

Lemma L_C17_skip_ignore :
  forall (ty : Type) (parse_type : list tok -> option (ty * list tok)) (fmt_args_ok : list tok -> bool)
         (legacy : bool) (name : N) (attrs : list attr),
    req (option_map (norm_fc ty))
        (parse_attrs (fieldconv_pm ty parse_type legacy) name (map respell_skip attrs))
        (parse_attrs (fieldconv_pm ty parse_type legacy) name attrs) /\
    req (option_map norm_df)
        (parse_attrs (dfield_pm fmt_args_ok) name (map respell_skip attrs))
        (parse_attrs (dfield_pm fmt_args_ok) name attrs) /\
    req (option_map (norm_if ty))
        (parse_attrs (into_field_pm ty parse_type) name (map respell_skip attrs))
        (parse_attrs (into_field_pm ty parse_type) name attrs).
Proof.
  intros. repeat split.
  - exact (skip_ignore_fieldconv ty parse_type legacy name attrs).
  - exact (skip_ignore_debug_field fmt_args_ok name attrs).
  - exact (skip_ignore_into_field ty parse_type name attrs).
Qed.

Lemma L_C17_bound_bounds :
  forall (pred : Type) (parse_pred : list tok -> option (pred * list tok)) (fmt_args_ok : list tok -> bool)
         (name : N) (attrs : list attr),
    req (fun x => x)
        (parse_attrs (fcont_pm pred parse_pred fmt_args_ok) name (map respell_bound attrs))
        (parse_attrs (fcont_pm pred parse_pred fmt_args_ok) name attrs) /\
    req (fun x => x)
        (parse_attrs (dcont_pm pred parse_pred fmt_args_ok) name (map respell_bound attrs))
        (parse_attrs (dcont_pm pred parse_pred fmt_args_ok) name attrs).
Proof.
  intros. split.
  - exact (bound_bounds_debug pred parse_pred fmt_args_ok name attrs).
  - exact (bound_bounds_display pred parse_pred fmt_args_ok name attrs).
Qed.

Lemma L_C17_types_merge :
  forall (ty : Type) (parse_type : list tok -> option (ty * list tok)) (name : N) (segs : list (list tok * ty)),
    Forall (fun sa => complete parse_type (fst sa) (snd sa)) segs -> segs <> [] ->
    (parse_attrs (types_pm ty parse_type false) name [mk name (join (map fst segs))] = Ok (Some (map snd segs)) /\
     parse_attrs (types_pm ty parse_type false) name (map (fun sa => mk name (fst sa)) segs) = Ok (Some (map snd segs))) /\
    (Forall (fun sa => not_lone_kw (fst sa)) segs ->
     parse_attrs (fieldconv_pm ty parse_type false) name [mk name (join (map fst segs))]
       = Ok (Some (FTypes ty (map snd segs))) /\
     parse_attrs (fieldconv_pm ty parse_type false) name (map (fun sa => mk name (fst sa)) segs)
       = Ok (Some (FTypes ty (map snd segs)))).
Proof.
  intros ty parse_type name segs HF Hne. split.
  - exact (types_merge ty parse_type name segs HF Hne).
  - intros Hk. exact (fieldconv_types_merge ty parse_type name segs HF Hne Hk).
Qed.

Lemma L_C17_trailing_comma :
  forall (ty : Type) (parse_type : list tok -> option (ty * list tok)) (name : N) (segs : list (list tok * ty)),
    Forall (fun sa => complete parse_type (fst sa) (snd sa)) segs -> segs <> [] ->
    parse_attrs (types_pm ty parse_type false) name [mk name (join (map fst segs) ++ [TComma])] =
    parse_attrs (types_pm ty parse_type false) name [mk name (join (map fst segs))].
Proof. exact types_trailing_comma. Qed.

Lemma L_C17_trailing_comma_any_list :
  forall (A : Type) (p : list tok -> option (A * list tok)) (segs : list (list tok * A)),
    Forall (fun sa => complete p (fst sa) (snd sa)) segs -> segs <> [] ->
    parse_terminated p (join (map fst segs) ++ [TComma]) = parse_terminated p (join (map fst segs)).
Proof.
  intros A p segs HF Hne.
  rewrite (parse_terminated_join p [TComma] segs (or_intror eq_refl) HF Hne).
  pose proof (parse_terminated_join p [] segs (or_introl eq_refl) HF Hne) as H. rewrite app_nil_r in H.
  rewrite H. reflexivity.
Qed.

Lemma L_C17_order_independent :
  forall (ty : Type) (parse_type : list tok -> option (ty * list tok)) (name : N) (attrs attrs' : list attr) (l : list ty),
    Permutation attrs attrs' ->
    parse_attrs (types_pm ty parse_type false) name attrs = Ok (Some l) ->
    exists l', parse_attrs (types_pm ty parse_type false) name attrs' = Ok (Some l') /\ Permutation l l'.
Proof. exact types_order_independent. Qed.

Lemma L_C17_list_order :
  forall (ty : Type) (parse_type : list tok -> option (ty * list tok)) (name : N) (segs segs' : list (list tok * ty)),
    Forall (fun sa => complete parse_type (fst sa) (snd sa)) segs -> segs <> [] -> Permutation segs segs' ->
    exists l l', parse_attrs (types_pm ty parse_type false) name [mk name (join (map fst segs))] = Ok (Some l) /\
                 parse_attrs (types_pm ty parse_type false) name [mk name (join (map fst segs'))] = Ok (Some l') /\
                 Permutation l l'.
Proof. exact types_list_order. Qed.

Lemma L_C17_unknown_rejected :
  (forall fuel info ts allowed w info',
      lmeta_list fuel info ts allowed w = Ok info' ->
      Forall (fun i => i = k_not \/ mem i allowed = true) (top_idents ts true)) /\
  (forall (pred : Type) parse_pred fmt_args_ok n i rest,
      is_bound_kw i = false -> i <> k_rename_all ->
      exists e, pm_parse (dcont_pm pred parse_pred fmt_args_ok) (mk n (TId i :: rest)) = Err e) /\
  (forall (pred : Type) parse_pred fmt_args_ok n i rest,
      is_bound_kw i = false ->
      exists e, pm_parse (fcont_pm pred parse_pred fmt_args_ok) (mk n (TId i :: rest)) = Err e) /\
  (forall fmt_args_ok n i rest,
      i <> k_skip -> i <> k_ignore ->
      exists e, pm_parse (dfield_pm fmt_args_ok) (mk n (TId i :: rest)) = Err e).
Proof.
  repeat split.
  - exact legacy_accepted_all_allowed.
  - exact display_unknown_rejected.
  - exact debug_unknown_rejected.
  - exact debug_field_unknown_rejected.
Qed.

Lemma L_C17_duplicate_rejected :
  (forall (A : Type) (P : PM A) name l,
      (forall p n, exists e, pm_merge P p n = Err e) ->
      (2 <= length (named name l))%nat -> exists e, parse_attrs P name l = Err e) /\
  (forall (ty : Type) parse_type lg name attrs a b x y,
      named name attrs = [a; b] ->
      pm_parse (fieldconv_pm ty parse_type lg) a = Ok x -> pm_parse (fieldconv_pm ty parse_type lg) b = Ok y ->
      fc_kind ty x <> 3%nat -> exists e, parse_attrs (fieldconv_pm ty parse_type lg) name attrs = Err e) /\
  (forall (pred : Type) (p n : fcont pred) f g,
      fc_fmt pred p = Some f -> fc_fmt pred n = Some g -> fcont_merge pred p n = Err ESingle) /\
  (forall (pred : Type) (p n : dcont pred) a b,
      dc_rename pred p = Some a -> dc_rename pred n = Some b -> dcont_merge pred p n = Err ESingle) /\
  (forall name attrs allowed a b l,
      named name attrs = a :: b :: l -> allowed <> [] -> get_meta_info name attrs allowed = Err ESingle).
Proof.
  repeat split.
  - intros A P. exact (parse_attrs_single_only P).
  - exact fieldconv_duplicate_rejected.
  - exact fmt_two_literals_rejected.
  - exact display_two_renames_rejected.
  - exact legacy_two_attrs_rejected.
Qed.

Lemma L_C17_mixed_kind_rejected :
  (forall (ty : Type) parse_type lg name attrs a b x y,
      In a attrs -> In b attrs -> a_name a = name -> a_name b = name ->
      pm_parse (fieldconv_pm ty parse_type lg) a = Ok x -> pm_parse (fieldconv_pm ty parse_type lg) b = Ok y ->
      fc_kind ty x <> fc_kind ty y ->
      exists e, parse_attrs (fieldconv_pm ty parse_type lg) name attrs = Err e) /\
  (forall (A B : Type) (L : PM A) (R : PM B) a b,
      pm_merge (either_pm L R) (inl a) (inr b) = Err EKind /\ pm_merge (either_pm L R) (inr b) (inl a) = Err EKind).
Proof.
  split.
  - exact fieldconv_mixed_rejected.
  - intros A B. exact (@either_mixed_rejected A B).
Qed.

Lemma L_C17_legacy_rejected :
  (forall (ty : Type) parse_type n inner rest,
      pm_parse (fieldconv_pm ty parse_type true) (mk n (TId k_types :: TGr 0 inner :: rest)) = Err ELegacy /\
      pm_parse (conversion_pm ty parse_type true) (mk n (TId k_types :: TGr 0 inner :: rest)) = Err ELegacy) /\
  (forall (pred : Type) parse_pred fmt_args_ok n s,
      pm_parse (fcont_pm pred parse_pred fmt_args_ok) (mk n [TId k_fmt; TPu c_eq; TStr s]) = Err ELegacy /\
      pm_parse (dcont_pm pred parse_pred fmt_args_ok) (mk n [TId k_fmt; TPu c_eq; TStr s]) = Err ELegacy /\
      pm_parse (dfield_pm fmt_args_ok) (mk n [TId k_fmt; TPu c_eq; TStr s]) = Err ELegacy) /\
  (forall (pred : Type) parse_pred fmt_args_ok n s rest,
      pm_parse (fcont_pm pred parse_pred fmt_args_ok) (mk n (TId k_bound :: TPu c_eq :: TStr s :: rest)) = Err ELegacy /\
      pm_parse (dcont_pm pred parse_pred fmt_args_ok) (mk n (TId k_bound :: TPu c_eq :: TStr s :: rest)) = Err ELegacy) /\
  (forall f info i rest allowed w,
      exists e, lmeta_list (S f) info (TId i :: TPu c_eq :: rest) allowed w = Err e).
Proof.
  split; [intros; apply from_legacy_types_rejected|].
  split; [intros; apply fmt_legacy_rejected|].
  split; [intros; apply bound_legacy_rejected|].
  exact legacy_name_value_rejected.
Qed.

Lemma L_C17_conflict_rejected :
  (forall (ty : Type) parse_type name attrs f c x,
      parse_attrs (conversion_pm ty parse_type false) name attrs = Ok (Some c) ->
      parse_attrs (fieldconv_pm ty parse_type false) name (fd_attrs f) = Ok (Some x) ->
      as_ref_attrs ty parse_type name {| i_attrs := attrs; i_body := BStruct [f] |} = Err EConflict) /\
  (forall (ty : Type) parse_type name attrs fs fas,
      parse_attrs (conversion_pm ty parse_type false) name attrs = Ok None ->
      sequence (map (fun f => parse_attrs (fieldconv_pm ty parse_type false) name (fd_attrs f)) fs) = Ok fas ->
      existsb (is_fskip ty) fas = true ->
      (exists o x, In o fas /\ o = Some x /\ is_fskip ty o = false) ->
      as_ref_attrs ty parse_type name {| i_attrs := attrs; i_body := BStruct fs |} = Err EConflict) /\
  (forall fmt_args_ok fs f x,
      In f fs -> parse_attrs (dfield_pm fmt_args_ok) n_debug (fd_attrs f) = Ok (Some (inr x)) ->
      exists e, debug_fields fmt_args_ok true fs = Err e) /\
  (forall (pred : Type) parse_pred fmt_args_ok attrs vs c f,
      parse_attrs (fcont_pm pred parse_pred fmt_args_ok) n_debug attrs = Ok (Some c) -> fc_fmt pred c = Some f ->
      debug_attrs pred parse_pred fmt_args_ok {| i_attrs := attrs; i_body := BEnum vs |} = Err ENotAllowed).
Proof.
  repeat split.
  - exact as_ref_struct_and_field_rejected.
  - exact as_ref_skip_and_others_rejected.
  - exact debug_container_and_field_fmt_rejected.
  - exact debug_enum_fmt_rejected.
Qed.

(** no silent ignore, as far as it holds: an accepted set has parsed every attribute of the name,
    an accepted comma list accounts for every token, and the accepted types are exactly those listed *)
Lemma L_C17_every_token_matters_partial :
  (forall (A : Type) (P : PM A) name attrs r,
      parse_attrs P name attrs = Ok r ->
      Forall (fun a => exists x, pm_parse P a = Ok x) (named name attrs)) /\
  (forall (A : Type) (p : list tok -> option (A * list tok)),
      (forall ts a rest, p ts = Some (a, rest) -> exists pre, ts = pre ++ rest) ->
      forall ts l, parse_terminated p ts = Ok l ->
      exists ps : list (piece (A:=A)), l = map snd ps /\ ts = flatten ps /\ Forall (piece_ok p) ps) /\
  (forall (ty : Type) parse_type name attrs r,
      parse_attrs (types_pm ty parse_type false) name attrs = Ok r ->
      r = match named name attrs with
          | [] => None
          | _ => Some (concat (map (tval ty parse_type) (named name attrs)))
          end) /\
  (forall (ty : Type) parse_type lg name attrs r,
      parse_attrs (fieldconv_pm ty parse_type lg) name attrs = Ok (Some r) ->
      Forall (fun a => exists x, pm_parse (fieldconv_pm ty parse_type lg) a = Ok x /\ fc_kind ty x = fc_kind ty r)
             (named name attrs) /\
      (fc_kind ty r <> 3%nat -> length (named name attrs) = 1%nat)).
Proof.
  repeat split.
  - intros A P. exact (parse_attrs_all_parsed P).
  - intros A p Hp ts l H. exact (pt_accounted p Hp _ ts l H).
  - exact types_result_inv.
  - eapply fieldconv_one_kind; eauto.
  - eapply fieldconv_one_kind; eauto.
Qed.

(** the full statement "accepted => nothing is silently ignored" is false of the faithful model *)
Lemma L_C17_no_silent_ignore_refuted :
  (exists info, lmeta_list 10 E_info [TId k_forward; TComma; TId k_not; TGr 0 [TId k_forward]] [k_ignore; k_forward] WNone = Ok info
                /\ mi_forward info = Some false) /\
  (exists info, lmeta_list 10 E_info [TId k_forward; TComma; TId k_ignore] [k_ignore; k_forward] WNone = Ok info
                /\ mi_enabled info = Some false /\ mi_forward info = Some true) /\
  (lmeta_list 10 E_info [TId k_forward; TComma; TId k_forward] [k_ignore; k_forward] WNone =
   lmeta_list 10 E_info [TId k_forward] [k_ignore; k_forward] WNone
   /\ exists info, lmeta_list 10 E_info [TId k_forward] [k_ignore; k_forward] WNone = Ok info) /\
  (forall (ty : Type) parse_type attrs attrs' vs,
      from_attrs ty parse_type {| i_attrs := attrs; i_body := BEnum vs |} =
      from_attrs ty parse_type {| i_attrs := attrs'; i_body := BEnum vs |}) /\
  (pm_parse (fieldconv_pm tt_ty simple_type true) (mk n_from [TId k_skip]) = Ok (FSkip tt_ty k_skip) /\
   pm_parse (fieldconv_pm tt_ty simple_type true) (mk n_from [TId k_skip; TComma]) = Ok (FTypes tt_ty [[TId k_skip]])).
Proof.
  split; [exact legacy_negation_accepted_witness|].
  split; [exact legacy_ignore_with_other_witness|].
  split; [exact legacy_duplicate_accepted_witness|].
  split; [exact from_enum_container_ignored|].
  exact keyword_trailing_comma_reinterpreted_witness.
Qed.

Lemma L_C17_legacy_types_arm_dead :
  forallb (fun r => let '(_, _, (e, v, s, f)) := r in
                    negb (mem k_types e) && negb (mem k_types v) && negb (mem k_types s) && negb (mem k_types f))
          c17_allow_table = true /\
  (forall fuel info ts allowed w,
      mem k_types allowed = false -> lmeta_list fuel info ts allowed w <> Err EUnsupported).
Proof. split; [exact types_never_allowed|exact legacy_types_arm_dead]. Qed.

Lemma L_C17_display_bounds_kept :
  forall (pred : Type) parse_pred fmt_args_ok name it c vas bs,
    display_attrs pred parse_pred fmt_args_ok name it = Ok (c, vas, bs) ->
    bs = fc_bounds pred (dc_common pred c) ++ flat_map (fun a => fc_bounds pred (dc_common pred a)) vas.
Proof. exact display_bounds_kept. Qed.
