(** C17 - executable model of derive_more's attribute grammars (no proofs in this file).

    Every definition mirrors one Rust function; the comment in front names file/function/lines
    (line numbers of /repo at commit 7dc9fca).

    Abstractions (all glue is in tools/props/c17.py and is exercised by the tie on every run):
    - identifiers and string-literal values are interned as [N]: the keywords the macros compare
      against have the fixed codes below, every other identifier gets a code >= 100;
      a string literal whose value is one of the eight `rename_all` casings (after the
      normalisation of display.rs:243) has the code 1..8, any other string literal a code >= 100;
    - an attribute argument list is a list of token trees [tok];
    - syn's sub-parsers for types, where-predicates and format arguments are Section variables
      that either consume a prefix of the tokens or fail;
    - `syn::Path` is only ever inspected through `is_ident(..)`: [path_ident] answers
      "a path made of exactly this one identifier was parsed, and these tokens are left";
      a longer path and a parse failure have the same consequence at every call site. *)
From Coq Require Import List NArith Bool Arith.
Import ListNotations.
Open Scope N_scope.

(* ------------------------------------------------------------------ interned identifiers *)

Definition k_skip := 1.      Definition k_ignore := 2.   Definition k_forward := 3.
Definition k_types := 4.     Definition k_owned := 5.    Definition k_ref := 6.
Definition k_ref_mut := 7.   Definition k_bound := 8.    Definition k_bounds := 9.
Definition k_where := 10.    Definition k_rename_all := 11. Definition k_fmt := 12.
Definition k_repr := 13.     Definition k_not := 14.     Definition k_source := 15.
Definition k_backtrace := 16.
(* 20..29: other reserved words of Rust (for, fn, dyn, impl, mut, as, in, ...) *)
(* 40..51: u8 u16 u32 u64 u128 usize i8 i16 i32 i64 i128 isize *)

(** reserved words: `syn::Ident::parse` (hence `syn::Path::parse`) refuses them,
    `Ident::parse_any` / `Ident::peek_any` accept them *)
Definition is_rust_keyword (i : N) : bool :=
  (i =? k_where) || (i =? k_ref) || ((20 <=? i) && (i <? 30)).

Definition is_int_ty (i : N) : bool := (40 <=? i) && (i <? 52).

(* punctuation characters *)
Definition c_comma := 44.  Definition c_eq := 61.  Definition c_colon := 58.
Definition c_lt := 60.     Definition c_gt := 62.

(* ------------------------------------------------------------------ tokens, attributes, results *)

Inductive tok :=
| TId (i : N)                       (* identifier (interned) *)
| TPu (c : N)                       (* one punctuation character *)
| TStr (s : N)                      (* string literal (interned value) *)
| TLit (s : N)                      (* any other literal *)
| TGr (d : N) (ts : list tok).      (* delimited group: 0 = (), 1 = [], 2 = {} *)

Definition TComma := TPu c_comma.

(** [syn::Meta] of one attribute: `#[name]`, `#[name(tokens)]`, `#[name = tokens]` *)
Inductive meta := MPath | MList (ts : list tok) | MNameValue (ts : list tok).
Record attr := { a_name : N; a_meta : meta }.

(** classes of diagnostics (the message texts are not modelled) *)
Inductive err :=
| ESingle        (* "only single #[..] attribute is allowed here" / "multiple .. aren't allowed" *)
| EKind          (* "only single kind of #[..] attribute is allowed here" / mixing owned,ref with plain types *)
| EUnknown       (* unknown / unsupported argument at this position *)
| ELegacy        (* "legacy syntax, ..." *)
| EConflict      (* two attributes contradict each other *)
| EParse         (* syn parse error *)
| ENotAllowed    (* "Attribute is not allowed here" *)
| EEmptyAttr     (* "Empty attribute is not allowed" *)
| EShape         (* wrong item kind / field count (error or deliberate panic) *)
| EUnsupported   (* "not supported yet" *)
| EPanic.        (* internal panic that is not a diagnostic *)

Inductive res (A : Type) := Ok (a : A) | Err (e : err).
Arguments Ok {A} _.
Arguments Err {A} _.

Definition bind {A B} (r : res A) (f : A -> res B) : res B :=
  match r with Ok a => f a | Err e => Err e end.
Definition rmap {A B} (f : A -> B) (r : res A) : res B :=
  match r with Ok a => Ok (f a) | Err e => Err e end.
Definition is_ok {A} (r : res A) : bool := match r with Ok _ => true | Err _ => false end.

Definition is_comma (t : tok) : bool :=
  match t with TPu c => c =? c_comma | _ => false end.
Definition is_eq (t : tok) : bool :=
  match t with TPu c => c =? c_eq | _ => false end.

(** `input.parse::<syn::Path>()` followed by `p.is_ident(..)`: Some (i, rest) iff the path is
    the single plain identifier [i].  (syn-2 path.rs: a segment is an `Ident` - reserved words
    are refused -, a following `::` or `<` continues the path.) *)
Definition path_ident (ts : list tok) : option (N * list tok) :=
  match ts with
  | TId i :: rest =>
      if is_rust_keyword i then None else
      match rest with
      | TPu c :: _ => if (c =? c_colon) || (c =? c_lt) then None else Some (i, rest)
      | _ => Some (i, rest)
      end
  | _ => None
  end.

(** a stream parser (`impl Parse`): consumes a prefix or fails *)
Definition sparser (A : Type) := list tok -> res (A * list tok).

(** `syn::Attribute::parse_args_with(parser)` (syn-2 attr.rs): only `#[name(...)]` has
    arguments, and the parser has to consume all of them. *)
Definition parse_args {A} (p : sparser A) (a : attr) : res A :=
  match a_meta a with
  | MList ts =>
      match p ts with
      | Ok (x, []) => Ok x
      | Ok (_, _ :: _) => Err EParse
      | Err e => Err e
      end
  | _ => Err EParse
  end.

(* ------------------------------------------------------------------ ParseMultiple *)

(** utils.rs:1530-1612 `attr::ParseMultiple`: how one attribute is parsed and how a second
    occurrence is merged into the first. *)
Record PM (A : Type) := {
  pm_parse : attr -> res A;               (* parse_attr_with *)
  pm_merge : A -> A -> res A              (* merge_attrs prev new *)
}.
Arguments pm_parse {A} _ _.
Arguments pm_merge {A} _ _ _.

(** utils.rs:1580-1600 `parse_attrs_with`: filter by name, `try_fold` with `merge_attrs` *)
Definition pa_step {A} (P : PM A) (acc : res (option A)) (a : attr) : res (option A) :=
  match acc with
  | Err e => Err e
  | Ok merged =>
      match pm_parse P a with
      | Err e => Err e
      | Ok parsed =>
          match merged with
          | Some prev => rmap Some (pm_merge P prev parsed)
          | None => Ok (Some parsed)
          end
      end
  end.

Definition named (name : N) (attrs : list attr) : list attr :=
  filter (fun a => a_name a =? name) attrs.

Definition parse_attrs {A} (P : PM A) (name : N) (attrs : list attr) : res (option A) :=
  fold_left (pa_step P) (named name attrs) (Ok None).

(** utils.rs:1563-1574 `merge_opt_attrs` *)
Definition merge_opt {A} (P : PM A) (p n : option A) : res (option A) :=
  match p, n with
  | Some p, Some n => rmap Some (pm_merge P p n)
  | Some p, None => Ok (Some p)
  | None, Some n => Ok (Some n)
  | None, None => Ok None
  end.

(** utils.rs:1614-1644 `impl ParseMultiple for Either<L, R>`: try left then right (the error
    of the left alternative is dropped); merging keeps the kind *)
Definition either_pm {A B} (L : PM A) (R : PM B) : PM (A + B) := {|
  pm_parse := fun a =>
    match pm_parse L a with
    | Ok l => Ok (inl l)
    | Err _ => rmap inr (pm_parse R a)
    end;
  pm_merge := fun p n =>
    match p, n with
    | inl p, inl n => rmap inl (pm_merge L p n)
    | inr p, inr n => rmap inr (pm_merge R p n)
    | _, _ => Err EKind
    end
|}.

(** utils.rs:1336-1350 `impl Parse for Either<L, R>` (stream level) *)
Definition either_sp {A B} (l : sparser A) (r : sparser B) : sparser (A + B) :=
  fun ts =>
    match l ts with
    | Ok (x, rest) => Ok (inl x, rest)
    | Err _ => match r ts with Ok (y, rest) => Ok (inr y, rest) | Err e => Err e end
    end.

(** utils.rs:1666-1706 `attr::Empty` *)
Definition empty_pm : PM unit := {|
  pm_parse := fun a => match a_meta a with MPath => Ok tt | _ => Err EParse end;
  pm_merge := fun _ _ => Err ESingle
|}.

(** utils.rs:1854-1890 `attr::Skip` (the spelling is kept: it is quoted in one message) *)
Definition skip_sp : sparser N := fun ts =>
  match path_ident ts with
  | Some (i, rest) =>
      if i =? k_skip then Ok (k_skip, rest)
      else if i =? k_ignore then Ok (k_ignore, rest)
      else Err EUnknown
  | None => Err EParse
  end.
Definition skip_pm : PM N := {|
  pm_parse := parse_args skip_sp;
  pm_merge := fun _ _ => Err ESingle
|}.

(** utils.rs:1724-1735 `attr::Forward` (merge: the default, an error) *)
Definition forward_sp : sparser unit := fun ts =>
  match path_ident ts with
  | Some (i, rest) => if i =? k_forward then Ok (tt, rest) else Err EUnknown
  | None => Err EParse
  end.
Definition forward_pm : PM unit := {|
  pm_parse := parse_args forward_sp;
  pm_merge := fun _ _ => Err ESingle
|}.

(** syn `Punctuated::parse_terminated`: value (punct value)* punct? up to the end of the
    stream.  Fuel: every iteration but the last consumes a comma. *)
Section Terminated.
  Context {A : Type} (p : list tok -> option (A * list tok)).
  Fixpoint pt_loop (fuel : nat) (ts : list tok) : res (list A) :=
    match ts with
    | [] => Ok []
    | _ :: _ =>
        match fuel with
        | O => Err EParse
        | S f =>
            match p ts with
            | None => Err EParse
            | Some (a, rest) =>
                match rest with
                | [] => Ok [a]
                | t :: rest' =>
                    if is_comma t then rmap (cons a) (pt_loop f rest') else Err EParse
                end
            end
        end
    end.
  Definition parse_terminated (ts : list tok) : res (list A) := pt_loop (S (length ts)) ts.
End Terminated.

(* ================================================================== the typed attribute algebra *)

Section Algebra.
  (** syn sub-parsers: consume a prefix or fail *)
  Variable ty : Type.
  Variable parse_type : list tok -> option (ty * list tok).
  Variable pred : Type.
  Variable parse_pred : list tok -> option (pred * list tok).
  (** `Punctuated<FmtArgument, Comma>::parse_terminated` (fmt/mod.rs:124) on the rest of the stream *)
  Variable fmt_args_ok : list tok -> bool.

  (** utils.rs:1908-1930 `attr::Types`; [legacy] = the `ConsiderLegacySyntax` hook of from.rs:329-341
      (`#[from(types(..))]`; `legacy_error` always returns an error) *)
  Definition types_sp (legacy : bool) : sparser (list ty) := fun ts =>
    let plain := rmap (fun l => (l, @nil tok)) (parse_terminated parse_type ts) in
    if legacy then
      match path_ident ts with
      | Some (i, rest) =>
          if i =? k_types then
            match rest with TGr 0 _ :: _ => Err ELegacy | _ => Err EParse end
          else plain
      | None => plain
      end
    else plain.
  Definition types_pm (legacy : bool) : PM (list ty) := {|
    pm_parse := parse_args (types_sp legacy);
    pm_merge := fun p n => Ok (p ++ n)
  |}.

  (** utils.rs:1944-1997 `attr::Conversion` = Either<Forward, Types> *)
  Inductive conversion := CForward | CTypes (l : list ty).
  Definition conv_of (v : unit + list ty) : conversion :=
    match v with inl _ => CForward | inr l => CTypes l end.
  Definition conv_to (c : conversion) : unit + list ty :=
    match c with CForward => inl tt | CTypes l => inr l end.
  Definition conversion_pm (legacy : bool) : PM conversion :=
    let U := either_pm forward_pm (types_pm legacy) in {|
      pm_parse := fun a => rmap conv_of (pm_parse U a);
      pm_merge := fun p n => rmap conv_of (pm_merge U (conv_to p) (conv_to n))
    |}.

  (** utils.rs:2011-2097 `attr::FieldConversion` = Either<Empty, Either<Skip, Either<Forward, Types>>> *)
  Inductive fieldconv := FEmpty | FSkip (spelling : N) | FForward | FTypes (l : list ty).
  Definition fc_of (v : unit + (N + (unit + list ty))) : fieldconv :=
    match v with
    | inl _ => FEmpty
    | inr (inl s) => FSkip s
    | inr (inr (inl _)) => FForward
    | inr (inr (inr l)) => FTypes l
    end.
  Definition fc_to (c : fieldconv) : unit + (N + (unit + list ty)) :=
    match c with
    | FEmpty => inl tt
    | FSkip s => inr (inl s)
    | FForward => inr (inr (inl tt))
    | FTypes l => inr (inr (inr l))
    end.
  Definition fieldconv_pm (legacy : bool) : PM fieldconv :=
    let U := either_pm empty_pm (either_pm skip_pm (either_pm forward_pm (types_pm legacy))) in {|
      pm_parse := fun a => rmap fc_of (pm_parse U a);
      pm_merge := fun p n => rmap fc_of (pm_merge U (fc_to p) (fc_to n))
    |}.

  (** utils.rs:1755-1829 `attr::ReprInt`: `parse_nested_meta` over `#[repr(..)]`; the last integer
      type wins inside one attribute, a body such as `align(4)` is skipped *)
  Fixpoint repr_loop (ts : list tok) (acc : option N) : res (option N) :=
    match ts with
    | [] => Ok acc
    | TId i :: rest =>
        let acc' := if is_int_ty i then Some i else acc in
        let rest1 := match rest with TGr _ _ :: r => if is_int_ty i then rest else r | _ => rest end in
        match rest1 with
        | [] => Ok acc'
        | t :: rest2 => if is_comma t then repr_loop rest2 acc' else Err EParse
        end
    | _ => Err EParse
    end.
  Definition repr_int_pm : PM (option N) := {|
    pm_parse := fun a =>
      match a_meta a with MList ts => repr_loop ts None | _ => Err EParse end;
    pm_merge := fun p n =>
      match p, n with
      | Some _, Some _ => Err ESingle
      | None, Some _ => Ok n
      | _, None => Ok p
      end
  |}.

  (** utils.rs:2116-2168 `attr::ReprConversion`: `repr` | `repr(<types>)` *)
  Inductive reprconv := RDiscriminant | RTypes (l : list ty).
  Definition reprconv_sp : sparser reprconv := fun ts =>
    match ts with
    | TId i :: rest =>
        if is_rust_keyword i then Err EParse
        else if negb (i =? k_repr) then Err EUnknown
        else match rest with
             | [] => Ok (RDiscriminant, [])
             | TGr 0 inner :: rest' => rmap (fun l => (RTypes l, rest')) (parse_terminated parse_type inner)
             | _ => Err EParse
             end
    | _ => Err EParse
    end.
  Definition reprconv_pm : PM reprconv := {|
    pm_parse := parse_args reprconv_sp;
    pm_merge := fun p n =>
      match p, n with
      | RDiscriminant, RDiscriminant => Err ESingle
      | RTypes a, RTypes b => Ok (RTypes (a ++ b))
      | _, _ => Err EKind
      end
  |}.

  (* ---------------------------------------------------------------- fmt attributes *)

  (** fmt/mod.rs:340-379 `FmtAttribute::check_legacy_fmt`: `fmt = <lit-or-ident>,*` with at least
      one string literal or identifier is the pre-1.0 syntax *)
  Definition legacy_elem (ts : list tok) : option (bool * list tok) :=
    match ts with
    | TStr _ :: rest => Some (true, rest)
    | TLit _ :: rest => Some (false, rest)
    | TId i :: rest => if is_rust_keyword i then None else Some (true, rest)
    | _ => None
    end.
  Definition check_legacy_fmt (ts : list tok) : res unit :=
    match path_ident ts with
    | Some (i, t :: rest) =>
        if is_eq t && (i =? k_fmt) then
          match parse_terminated legacy_elem rest with
          | Ok l => if existsb (fun b => b) l then Err ELegacy else Ok tt
          | Err _ => Ok tt
          end
        else Ok tt
    | _ => Ok tt
    end.

  (** fmt/mod.rs:99-133 `FmtAttribute`: literal, optional comma, arguments (the comma after a lone
      literal is dropped - fix 10a9ec3 -, so only literal and arguments are kept) *)
  Record fmtattr := { fa_lit : N; fa_args : list tok }.
  Definition fmt_sp : sparser fmtattr := fun ts =>
    bind (check_legacy_fmt ts) (fun _ =>
      match ts with
      | TStr s :: rest =>
          let args := match rest with t :: r => if is_comma t then r else rest | [] => rest end in
          if fmt_args_ok args then Ok ({| fa_lit := s; fa_args := args |}, []) else Err EParse
      | _ => Err EParse
      end).
  (** fmt/mod.rs:131 `impl attr::ParseMultiple for FmtAttribute {}` *)
  Definition fmt_pm : PM fmtattr := {|
    pm_parse := parse_args fmt_sp;
    pm_merge := fun _ _ => Err ESingle
  |}.

  (** fmt/mod.rs:64-88 `BoundsAttribute::check_legacy_fmt`: `bound = "..."` *)
  Definition check_legacy_bound (ts : list tok) : res unit :=
    match path_ident ts with
    | Some (i, t :: rest) =>
        if is_eq t && (i =? k_bound) then
          match rest with TStr _ :: _ => Err ELegacy | _ => Ok tt end
        else Ok tt
    | _ => Ok tt
    end.

  (** fmt/mod.rs:37-61 `impl Parse for BoundsAttribute` *)
  Definition is_bound_kw (i : N) : bool := (i =? k_bound) || (i =? k_bounds) || (i =? k_where).
  Definition bounds_sp : sparser (list pred) := fun ts =>
    bind (check_legacy_bound ts) (fun _ =>
      match path_ident ts with
      | Some (i, rest) =>
          if is_bound_kw i then
            match rest with
            | TGr 0 inner :: rest' => rmap (fun l => (l, rest')) (parse_terminated parse_pred inner)
            | _ => Err EParse
            end
          else Err EUnknown
      | None => Err EParse
      end).

  (** fmt/mod.rs:524-575 `ContainerAttributes` (shared by Debug and the Display family):
      Either<FmtAttribute, BoundsAttribute>; one literal only, bounds accumulate *)
  Record fcont := { fc_fmt : option fmtattr; fc_bounds : list pred }.
  Definition fcont_sp : sparser fcont := fun ts =>
    bind (check_legacy_fmt ts) (fun _ =>
      match either_sp fmt_sp bounds_sp ts with
      | Ok (inl f, rest) => Ok ({| fc_fmt := Some f; fc_bounds := [] |}, rest)
      | Ok (inr b, rest) => Ok ({| fc_fmt := None; fc_bounds := b |}, rest)
      | Err e => Err e
      end).
  Definition fcont_merge (p n : fcont) : res fcont :=
    match fc_fmt n, fc_fmt p with
    | Some _, Some _ => Err ESingle
    | nf, pf =>
        Ok {| fc_fmt := match nf with Some f => Some f | None => pf end;
              fc_bounds := fc_bounds p ++ fc_bounds n |}
    end.
  Definition fcont_pm : PM fcont := {| pm_parse := parse_args fcont_sp; pm_merge := fcont_merge |}.

  (** fmt/display.rs:227-254 `RenameAllAttribute` (casing = interned literal 1..8) *)
  Definition casing_ok (s : N) : bool := (1 <=? s) && (s <=? 8).
  Definition rename_sp : sparser N := fun ts =>
    match path_ident ts with
    | Some (i, rest) =>
        if i =? k_rename_all then
          match rest with
          | t :: TStr s :: rest' =>
              if is_eq t then (if casing_ok s then Ok (s, rest') else Err EUnknown) else Err EParse
          | _ => Err EParse
          end
        else Err EUnknown
    | None => Err EParse
    end.

  (** fmt/display.rs:96-181 `ContainerAttributes` of the Display family: `lookahead1` dispatch,
      then merge (one `rename_all`, one literal, bounds accumulate) *)
  Record dcont := { dc_rename : option N; dc_common : fcont }.
  Definition fcont_default : fcont := {| fc_fmt := None; fc_bounds := [] |}.
  Definition dcont_sp : sparser dcont := fun ts =>
    bind (check_legacy_fmt ts) (fun _ =>
      match ts with
      | TStr _ :: _ => rmap (fun '(c, r) => ({| dc_rename := None; dc_common := c |}, r)) (fcont_sp ts)
      | TId i :: _ =>
          if is_bound_kw i then
            rmap (fun '(c, r) => ({| dc_rename := None; dc_common := c |}, r)) (fcont_sp ts)
          else if i =? k_rename_all then
            rmap (fun '(s, r) => ({| dc_rename := Some s; dc_common := fcont_default |}, r)) (rename_sp ts)
          else Err EUnknown
      | _ => Err EUnknown
      end).
  Definition dcont_merge (p n : dcont) : res dcont :=
    match dc_rename n, dc_rename p with
    | Some _, Some _ => Err ESingle
    | nr, pr =>
        rmap (fun c => {| dc_rename := match nr with Some r => Some r | None => pr end;
                          dc_common := c |})
             (fcont_merge (dc_common p) (dc_common n))
    end.
  Definition dcont_pm : PM dcont := {| pm_parse := parse_args dcont_sp; pm_merge := dcont_merge |}.

  (** fmt/debug.rs:203 `FieldAttribute = Either<attr::Skip, FmtAttribute>` *)
  Definition dfield_pm : PM (N + fmtattr) := either_pm skip_pm fmt_pm.

  (* ---------------------------------------------------------------- into.rs *)

  (** into.rs:296-334 `Conversions` / `ConversionsAttribute`; a `Punctuated` is a list plus
      "ends with a comma" *)
  Record convs1 := { cv_fields : bool; cv_tys : list ty; cv_trailing : bool }.
  Record convs := { cv_owned : convs1; cv_ref : convs1; cv_ref_mut : convs1 }.
  Definition convs1_empty := {| cv_fields := false; cv_tys := []; cv_trailing := false |}.
  Definition convs_empty := {| cv_owned := convs1_empty; cv_ref := convs1_empty; cv_ref_mut := convs1_empty |}.
  Definition convs_default :=
    {| cv_owned := {| cv_fields := true; cv_tys := []; cv_trailing := false |};
       cv_ref := convs1_empty; cv_ref_mut := convs1_empty |}.
  Definition empty_or_trailing (c : convs1) : bool :=
    match cv_tys c with [] => true | _ => cv_trailing c end.

  (** into.rs:344-368 `parse_inner`: `(types)` extends the list, no parentheses means the field
      types themselves; an optional comma follows *)
  Definition conv_inner (c : convs1) (rest : list tok) : res (convs1 * list tok) :=
    bind
      (match rest with
       | TGr 0 inner :: r =>
           match parse_terminated parse_type inner with
           | Ok l =>
               if empty_or_trailing c then
                 Ok ({| cv_fields := cv_fields c; cv_tys := cv_tys c ++ l;
                        cv_trailing := match l with [] => cv_trailing c
                                       | _ => match rev inner with t :: _ => is_comma t | [] => false end end |}, r)
               else Err EPanic
           | Err e => Err e
           end
       | _ => Ok ({| cv_fields := true; cv_tys := cv_tys c; cv_trailing := cv_trailing c |}, rest)
       end)
      (fun '(c', r) =>
         match r with
         | t :: r' =>
             if is_comma t then
               Ok (if empty_or_trailing c' then c'
                   else {| cv_fields := cv_fields c'; cv_tys := cv_tys c'; cv_trailing := true |}, r')
             else Err EParse          (* into.rs:364 "expected `,`" (fix 4f1b004) *)
         | [] => Ok (c', r)
         end).

  (** into.rs:336-418 `impl Parse for ConversionsAttribute` *)
  Fixpoint conv_loop (fuel : nat) (ts : list tok) (out : convs) (wrapped top : bool) : res (convs * bool * bool) :=
    match ts with
    | [] => Ok (out, wrapped, top)
    | t0 :: _ =>
        match fuel with
        | O => Err EParse
        | S f =>
            let ty_branch :=
              match parse_type ts with
              | None => Err EParse
              | Some (T, rest) =>
                  let o := cv_owned out in
                  if empty_or_trailing o then
                    let o1 := fun tr => {| cv_fields := cv_fields o; cv_tys := cv_tys o ++ [T]; cv_trailing := tr |} in
                    let upd := fun tr => {| cv_owned := o1 tr; cv_ref := cv_ref out; cv_ref_mut := cv_ref_mut out |} in
                    match rest with
                    | [] => conv_loop f [] (upd false) wrapped true
                    | t :: r =>
                        if is_comma t then conv_loop f r (upd true) wrapped true
                        else Err EParse       (* into.rs:400 "expected `,`" (fix 04051df) *)
                    end
                  else Err EPanic
              end in
            match t0 with
            | TId i =>
                let rest := tl ts in
                if i =? k_owned then
                  bind (conv_inner (cv_owned out) rest) (fun '(c, r) =>
                    conv_loop f r {| cv_owned := c; cv_ref := cv_ref out; cv_ref_mut := cv_ref_mut out |} true top)
                else if i =? k_ref then
                  bind (conv_inner (cv_ref out) rest) (fun '(c, r) =>
                    conv_loop f r {| cv_owned := cv_owned out; cv_ref := c; cv_ref_mut := cv_ref_mut out |} true top)
                else if i =? k_ref_mut then
                  bind (conv_inner (cv_ref_mut out) rest) (fun '(c, r) =>
                    conv_loop f r {| cv_owned := cv_owned out; cv_ref := cv_ref out; cv_ref_mut := c |} true top)
                else ty_branch
            | _ => ty_branch
            end
        end
    end.

  (** into.rs:469-628 `check_legacy_syntax`: the whole argument list is a list of old-style metas,
      each `types(..)`, or `owned|ref|ref_mut` alone or wrapping a final `types(..)`, and at least
      one `types(..)` is not empty *)
  Definition lmeta_elem (ts : list tok) : option ((N * option (list tok)) * list tok) :=
    match ts with
    | TId i :: TGr 0 inner :: rest => Some ((i, Some inner), rest)
    | TId i :: rest =>
        match rest with
        | TPu c :: _ => if (c =? c_colon) || (c =? c_lt) then None else Some ((i, None), rest)
        | _ => Some ((i, None), rest)
        end
    | _ => None
    end.
  (** one `NestedMeta`: a literal, a path, or a list *)
  Inductive nmeta := NStr | NLit | NPath | NList (i : N) (inner : list tok).
  Definition nmeta_elem (ts : list tok) : option (nmeta * list tok) :=
    match ts with
    | TStr _ :: rest => Some (NStr, rest)
    | TLit _ :: rest => Some (NLit, rest)
    | _ => match lmeta_elem ts with
           | Some ((i, Some inner), rest) => Some (NList i inner, rest)
           | Some ((_, None), rest) => Some (NPath, rest)
           | None => None
           end
    end.
  (** `parse_list`: Some n = it is `types(..)` with n well-formed elements *)
  Definition legacy_types_list (i : N) (inner : list tok) : option nat :=
    if i =? k_types then
      match parse_terminated nmeta_elem inner with
      | Ok l => if forallb (fun m => match m with NStr | NPath => true | _ => false end) l
                then Some (length l) else None
      | Err _ => None
      end
    else None.
  Definition is_ref_kw (i : N) : bool := (i =? k_owned) || (i =? k_ref) || (i =? k_ref_mut).
  (** one step of the `try_fold`: Some n = still a candidate, n elements of `types` seen *)
  Definition legacy_into_step (m : N * option (list tok)) : option nat :=
    let '(i, inner) := m in
    if is_ref_kw i then
      match inner with
      | None => Some O
      | Some inner =>
          match parse_terminated nmeta_elem inner with
          | Ok l => match rev l with
                    | NList j inner' :: _ => legacy_types_list j inner'
                    | _ => None
                    end
          | Err _ => None
          end
      end
    else match inner with
         | Some inner => legacy_types_list i inner
         | None => None
         end.
  Fixpoint legacy_into_fold (ms : list (N * option (list tok))) (seen : nat) : option nat :=
    match ms with
    | [] => Some seen
    | m :: ms' => match legacy_into_step m with
                  | Some n => legacy_into_fold ms' (seen + n)%nat
                  | None => None
                  end
    end.
  Definition check_legacy_into (ts : list tok) : res unit :=
    match parse_terminated lmeta_elem ts with
    | Ok ms => match legacy_into_fold ms O with
               | Some (S _) => Err ELegacy
               | _ => Ok tt
               end
    | Err _ => Ok tt
    end.

  Definition convs_sp (legacy : bool) : sparser convs := fun ts =>
    bind (if legacy then check_legacy_into ts else Ok tt) (fun _ =>
      bind (conv_loop (S (length ts)) ts convs_empty false false) (fun '(out, wrapped, top) =>
        if wrapped && top then Err EKind else Ok (out, [])))
  .
  (** into.rs:420-447 `merge_attrs`: append lists, or flags *)
  Definition convs1_merge (p n : convs1) : convs1 :=
    {| cv_fields := cv_fields p || cv_fields n; cv_tys := cv_tys p ++ cv_tys n;
       cv_trailing := match cv_tys n with [] => cv_trailing p | _ => cv_trailing n end |}.
  Definition convs_merge (p n : convs) : convs :=
    {| cv_owned := convs1_merge (cv_owned p) (cv_owned n);
       cv_ref := convs1_merge (cv_ref p) (cv_ref n);
       cv_ref_mut := convs1_merge (cv_ref_mut p) (cv_ref_mut n) |}.
  Definition convs_pm (legacy : bool) : PM convs := {|
    pm_parse := parse_args (convs_sp legacy);
    pm_merge := fun p n => Ok (convs_merge p n)
  |}.

  (** into.rs:211 `StructAttribute = Either<attr::Empty, ConversionsAttribute>` *)
  Definition into_struct_pm : PM (unit + convs) := either_pm empty_pm (convs_pm true).

  (** into.rs:222-293 `FieldAttribute`: Either<Skip, Either<Empty, ConversionsAttribute>>, merged
      component-wise with `merge_opt_attrs` *)
  Record into_field := { if_skip : option N; if_convs : option convs }.
  Definition into_field_of (v : N + (unit + convs)) : into_field :=
    match v with
    | inl s => {| if_skip := Some s; if_convs := None |}
    | inr (inl _) => {| if_skip := None; if_convs := Some convs_default |}
    | inr (inr c) => {| if_skip := None; if_convs := Some c |}
    end.
  Definition into_field_pm : PM into_field := {|
    pm_parse := fun a => rmap into_field_of (pm_parse (either_pm skip_pm (either_pm empty_pm (convs_pm true))) a);
    pm_merge := fun p n =>
      bind (merge_opt skip_pm (if_skip p) (if_skip n)) (fun s =>
        bind (merge_opt (convs_pm true) (if_convs p) (if_convs n)) (fun c =>
          Ok {| if_skip := s; if_convs := c |}))
  |}.

  (* ================================================================ derive inputs *)

  Record field := { fd_attrs : list attr }.
  Record variant := { v_attrs : list attr; v_fields : list field }.
  Inductive body := BStruct (fs : list field) | BEnum (vs : list variant).
  Record item := { i_attrs : list attr; i_body : body }.

  (** all elements Ok, first error wins (`collect::<syn::Result<Vec<_>>>()`) *)
  Fixpoint sequence {A} (l : list (res A)) : res (list A) :=
    match l with
    | [] => Ok []
    | Ok a :: l' => rmap (cons a) (sequence l')
    | Err e :: _ => Err e
    end.

  Definition n_from := 100. Definition n_into := 101. Definition n_as_ref := 102.
  Definition n_as_mut := 103. Definition n_try_from := 104. Definition n_debug := 105.
  (* 106..113 display binary octal lower_hex upper_hex lower_exp upper_exp pointer *)
  Definition n_display := 106.

  (** from.rs:23-93 `expand`: which attributes are parsed (struct: the container's; enum: each
      variant's; nothing else is looked at) *)
  Definition from_attrs (it : item) : res (list (option fieldconv)) :=
    match i_body it with
    | BStruct _ =>
        rmap (fun o => [match o with
                        | Some CForward => Some FForward
                        | Some (CTypes l) => Some (FTypes l)
                        | None => None end])
             (parse_attrs (conversion_pm true) n_from (i_attrs it))
    | BEnum vs =>
        sequence (map (fun v => parse_attrs (fieldconv_pm true) n_from (v_attrs v)) vs)
    end.

  (** as/mod.rs:18-140 `expand` up to the choice of the expansions *)
  Definition is_fskip (o : option fieldconv) : bool :=
    match o with Some (FSkip _) => true | _ => false end.
  Definition as_ref_attrs (name : N) (it : item) : res (option conversion * list (option fieldconv)) :=
    match i_body it with
    | BEnum _ => Err EShape
    | BStruct fs =>
        bind (parse_attrs (conversion_pm false) name (i_attrs it)) (fun sa =>
          match sa with
          | Some c =>
              match fs with
              | [f] =>
                  bind (parse_attrs (fieldconv_pm false) name (fd_attrs f)) (fun fa =>
                    match fa with
                    | Some _ => Err EConflict            (* struct and field attribute *)
                    | None => Ok (Some c, [None])
                    end)
              | _ => Err EShape
              end
          | None =>
              bind (sequence (map (fun f => parse_attrs (fieldconv_pm false) name (fd_attrs f)) fs)) (fun fas =>
                let present := filter (fun o => match o with Some _ => true | None => false end) fas in
                let all := forallb is_fskip present in
                if negb all && existsb is_fskip present then Err EConflict   (* skip + others *)
                else Ok (None, fas))
          end)
    end.

  (** into.rs:25-107 `expand`: attribute parsing part *)
  Definition into_attrs (it : item) : res (option (unit + convs) * list (option into_field)) :=
    match i_body it with
    | BEnum _ => Err EShape
    | BStruct fs =>
        bind (parse_attrs into_struct_pm n_into (i_attrs it)) (fun sa =>
          bind (sequence (map (fun f => parse_attrs into_field_pm n_into (fd_attrs f)) fs)) (fun fas =>
            Ok (sa, fas)))
    end.

  (** try_from.rs:13-45 `expand` *)
  Definition n_repr_attr := 13.  (* `#[repr(..)]`: the attribute name is the identifier `repr` *)
  Definition try_from_attrs (it : item) : res (option N * option reprconv) :=
    match i_body it with
    | BStruct _ => Err EShape
    | BEnum _ =>
        bind (parse_attrs repr_int_pm n_repr_attr (i_attrs it)) (fun r =>
          bind (parse_attrs reprconv_pm n_try_from (i_attrs it)) (fun a =>
            match a with
            | Some (RTypes _) => Err EUnsupported
            | _ => Ok (match r with Some r => r | None => None end, a)
            end))
    end.

  (** fmt/display.rs:35-60, 274-400: container attributes, then per variant; a struct or variant
      without a literal must have at most one field; a unit variant without a literal is only
      formatted by `Display`.  Also returns the explicit bounds that reach the `where` clause
      (`generate_bounds`: those of the struct/variant, with or without a literal - fix 12fe071 -;
      `expand_enum`: preceded by those of the enum itself - fix aea87eb). *)
  Definition display_bounds_of (c : dcont) : list pred := fc_bounds (dc_common c).
  Definition display_attrs (name : N) (it : item) : res (dcont * list dcont * list pred) :=
    bind (parse_attrs dcont_pm name (i_attrs it)) (fun ca =>
      let c := match ca with Some c => c | None => {| dc_rename := None; dc_common := fcont_default |} end in
      match i_body it with
      | BStruct fs =>
          match fc_fmt (dc_common c), fs with
          | None, _ :: _ :: _ => Err EShape
          | _, _ => Ok (c, [], display_bounds_of c)
          end
      | BEnum vs =>
          bind (sequence (map (fun v =>
                  bind (parse_attrs dcont_pm name (v_attrs v)) (fun va =>
                    let a := match va with Some a => a | None => {| dc_rename := None; dc_common := fcont_default |} end in
                    match fc_fmt (dc_common a), v_fields v with
                    | None, [] => if name =? n_display then Ok a else Err EShape
                    | None, _ :: _ :: _ =>
                        match fc_fmt (dc_common c) with None => Err EShape | Some _ => Ok a end
                    | _, _ => Ok a
                    end)) vs)) (fun vas =>
            Ok (c, vas, display_bounds_of c ++ flat_map display_bounds_of vas))
      end).

  (** fmt/debug.rs:22-193, 228-247: container attributes; an enum takes no literal; every
      variant: literals of its own (`parse_args::<FmtAttribute>`, one at most); every field:
      Either<Skip, Fmt>; a literal on the struct/variant excludes literals on its fields.
      Explicit bounds: debug.rs:376-377 (the container's, once per struct / once per variant). *)
  Fixpoint debug_fields (cfmt : bool) (fs : list field) : res (list (option (N + fmtattr))) :=
    match fs with
    | [] => Ok []
    | f :: fs' =>
        bind (parse_attrs dfield_pm n_debug (fd_attrs f)) (fun fa =>
          match fa with
          | Some (inr _) => if cfmt then Err EConflict else rmap (cons fa) (debug_fields cfmt fs')
          | _ => rmap (cons fa) (debug_fields cfmt fs')
          end)
    end.
  Definition debug_variant_fmt (attrs : list attr) : res (option fmtattr) :=
    fold_left (fun acc a =>
                 bind acc (fun o =>
                   bind (parse_args fmt_sp a) (fun f =>
                     match o with Some _ => Err ESingle | None => Ok (Some f) end)))
              (named n_debug attrs) (Ok None).
  Definition debug_attrs (it : item) : res (fcont * list pred) :=
    bind (parse_attrs fcont_pm n_debug (i_attrs it)) (fun ca =>
      let c := match ca with Some c => c | None => fcont_default end in
      match i_body it with
      | BStruct fs =>
          bind (debug_fields (match fc_fmt c with Some _ => true | None => false end) fs) (fun _ =>
            Ok (c, fc_bounds c))
      | BEnum vs =>
          match fc_fmt c with
          | Some _ => Err ENotAllowed
          | None =>
              bind (sequence (map (fun v =>
                      bind (debug_variant_fmt (v_attrs v)) (fun vf =>
                        debug_fields (match vf with Some _ => true | None => false end) (v_fields v))) vs))
                   (fun _ => Ok (c, flat_map (fun _ => fc_bounds c) vs))
          end
      end).

End Algebra.

(* ================================================================== the legacy meta parser *)

(** utils.rs:1214-1224 `MetaInfo` *)
Record minfo := {
  mi_enabled : option bool; mi_forward : option bool; mi_owned : option bool;
  mi_ref : option bool; mi_ref_mut : option bool; mi_source : option bool;
  mi_backtrace : option bool
}.
Definition minfo_default :=
  {| mi_enabled := None; mi_forward := None; mi_owned := None; mi_ref := None;
     mi_ref_mut := None; mi_source := None; mi_backtrace := None |}.

Definition mem (i : N) (l : list N) : bool := existsb (N.eqb i) l.

(** utils.rs:1146-1160 `polyfill::Meta::parse`: a path or reserved word, optionally followed by a
    parenthesised list (a multi-segment path is [None]: no allow-list entry can match it) *)
Inductive lmeta := LPath (i : N) | LList (i : N) (inner : list tok).
Definition lmeta_sp (ts : list tok) : option (lmeta * list tok) :=
  match ts with
  | TId i :: rest =>
      let complex := match rest with
                     | TPu c :: _ => (c =? c_colon) || (c =? c_lt)
                     | _ => false end in
      if complex then
        (* `a::b`, `a<..>`: skip the rest of this element *)
        None
      else match rest with
           | TGr 0 inner :: rest' => Some (LList i inner, rest')
           | _ => Some (LPath i, rest)
           end
  | _ => None
  end.

Definition set_enabled (m : minfo) (b : bool) := {| mi_enabled := Some b; mi_forward := mi_forward m; mi_owned := mi_owned m; mi_ref := mi_ref m; mi_ref_mut := mi_ref_mut m; mi_source := mi_source m; mi_backtrace := mi_backtrace m |}.
Definition set_forward (m : minfo) (b : bool) := {| mi_enabled := mi_enabled m; mi_forward := Some b; mi_owned := mi_owned m; mi_ref := mi_ref m; mi_ref_mut := mi_ref_mut m; mi_source := mi_source m; mi_backtrace := mi_backtrace m |}.
Definition set_owned (m : minfo) (b : bool) := {| mi_enabled := mi_enabled m; mi_forward := mi_forward m; mi_owned := Some b; mi_ref := mi_ref m; mi_ref_mut := mi_ref_mut m; mi_source := mi_source m; mi_backtrace := mi_backtrace m |}.
Definition set_ref (m : minfo) (b : bool) := {| mi_enabled := mi_enabled m; mi_forward := mi_forward m; mi_owned := mi_owned m; mi_ref := Some b; mi_ref_mut := mi_ref_mut m; mi_source := mi_source m; mi_backtrace := mi_backtrace m |}.
Definition set_ref_mut (m : minfo) (b : bool) := {| mi_enabled := mi_enabled m; mi_forward := mi_forward m; mi_owned := mi_owned m; mi_ref := mi_ref m; mi_ref_mut := Some b; mi_source := mi_source m; mi_backtrace := mi_backtrace m |}.
Definition set_source (m : minfo) (b : bool) := {| mi_enabled := mi_enabled m; mi_forward := mi_forward m; mi_owned := mi_owned m; mi_ref := mi_ref m; mi_ref_mut := mi_ref_mut m; mi_source := Some b; mi_backtrace := mi_backtrace m |}.
Definition set_backtrace (m : minfo) (b : bool) := {| mi_enabled := mi_enabled m; mi_forward := mi_forward m; mi_owned := mi_owned m; mi_ref := mi_ref m; mi_ref_mut := mi_ref_mut m; mi_source := mi_source m; mi_backtrace := Some b |}.

(** wrapper_name of `parse_punctuated_nested_meta` *)
Inductive wrapper := WNone | WNot | WOther (i : N).

(** utils.rs:1003-1037: a bare path *)
Definition lpath_apply (info : minfo) (w : wrapper) (i : N) : res minfo :=
  match w with
  | WNone =>
      if i =? k_ignore then Ok (set_enabled info false)
      else if i =? k_forward then Ok (set_forward info true)
      else if i =? k_owned then Ok (set_owned info true)
      else if i =? k_ref then Ok (set_ref info true)
      else if i =? k_ref_mut then Ok (set_ref_mut info true)
      else if i =? k_source then Ok (set_source info true)
      else if i =? k_backtrace then Ok (set_backtrace info true)
      else Err EUnknown
  | WNot =>
      if i =? k_forward then Ok (set_forward info false)
      else if i =? k_source then Ok (set_source info false)
      else if i =? k_backtrace then Ok (set_backtrace info false)
      else Err EUnknown
  | WOther _ => Err EUnknown
  end.

(** utils.rs:879-1042 `parse_punctuated_nested_meta`.  Nesting depth is bounded by the fuel
    (the depth of the token tree).  The `types` arm (utils.rs:925-980) is modelled as
    [EUnsupported]: no derive lists `types` among its allowed parameters
    (Proofs.types_never_allowed over the table regenerated from the sources). *)
Fixpoint lmeta_list (fuel : nat) (info : minfo) (ts : list tok) (allowed : list N) (w : wrapper) {struct fuel} : res minfo :=
  match fuel with
  | O => Err EParse
  | S f =>
      match ts with
      | [] => Ok info
      | _ :: _ =>
          match lmeta_sp ts with
          | None => Err EParse
          | Some (m, rest) =>
              let here :=
                match m with
                | LList i inner =>
                    if i =? k_not then
                      match w with
                      | WNone => lmeta_list f info inner allowed WNot
                      | _ => Err EUnknown
                      end
                    else if negb (mem i allowed) then Err EUnknown
                    else match w with
                         | WNone =>
                             if i =? k_owned then lmeta_list f (set_owned info true) inner allowed (WOther i)
                             else if i =? k_ref then lmeta_list f (set_ref info true) inner allowed (WOther i)
                             else if i =? k_ref_mut then lmeta_list f (set_ref_mut info true) inner allowed (WOther i)
                             else if i =? k_types then Err EUnsupported
                             else Err EUnknown
                         | WOther j =>
                             if (i =? k_types) && ((j =? k_owned) || (j =? k_ref) || (j =? k_ref_mut))
                             then Err EUnsupported else Err EUnknown
                         | WNot => Err EUnknown
                         end
                | LPath i =>
                    if negb (mem i allowed) then Err EUnknown else lpath_apply info w i
                end in
              match here with
              | Err e => Err e
              | Ok info' =>
                  match rest with
                  | [] => Ok info'
                  | t :: rest' => if is_comma t then lmeta_list f info' rest' allowed w else Err EParse
                  end
              end
          end
      end
  end.

Fixpoint tok_size (t : tok) : nat :=
  match t with
  | TGr _ ts => S (fold_right (fun t n => (tok_size t + n)%nat) O ts)
  | _ => 1%nat
  end.
Definition toks_size (ts : list tok) : nat := fold_right (fun t n => (tok_size t + n)%nat) O ts.

(** utils.rs:813-877 `get_meta_info` *)
Definition get_meta_info (name : N) (attrs : list attr) (allowed : list N) : res minfo :=
  match named name attrs with
  | [] => Ok minfo_default
  | a :: more =>
      match allowed with
      | [] => Err ENotAllowed
      | _ =>
          match more with
          | _ :: _ => Err ESingle
          | [] =>
              let info := set_enabled minfo_default true in
              match a_meta a with
              | MPath => if mem k_ignore allowed then Ok info else Err EEmptyAttr
              | MNameValue _ => Err EParse
              | MList ts => lmeta_list (S (toks_size ts)) info ts allowed WNone
              end
          end
      end
  end.

(** utils.rs:1204-1237 `FullMetaInfo`, `into_full` *)
Record finfo := { fi_enabled : bool; fi_forward : bool; fi_owned : bool; fi_ref : bool; fi_ref_mut : bool; fi_info : minfo }.
Definition odef (o : option bool) (d : bool) := match o with Some b => b | None => d end.
Definition into_full (m : minfo) (d : finfo) : finfo :=
  {| fi_enabled := odef (mi_enabled m) (fi_enabled d); fi_forward := odef (mi_forward m) (fi_forward d);
     fi_owned := odef (mi_owned m) (fi_owned d); fi_ref := odef (mi_ref m) (fi_ref d);
     fi_ref_mut := odef (mi_ref_mut m) (fi_ref_mut d); fi_info := m |}.

(** allow-lists of one derive: enum, variant, struct, field (utils.rs:279-303 `AttrParams`) *)
Record allow := { al_enum : list N; al_variant : list N; al_struct : list N; al_field : list N }.

Section Legacy.
  Definition is_some_b (o : option bool) : bool := match o with Some _ => true | None => false end.
  Definition is_none_b (o : option bool) : bool := negb (is_some_b o).

  Record lstate := {
    ls_enum : bool;
    ls_default : finfo;
    ls_infos : list finfo;                 (* per field (struct) / per variant (enum) *)
    ls_variant_infos : list (list finfo)   (* enum: per variant, per field *)
  }.

  (** utils.rs:365-503 `State::new_impl` and :505-556 `from_variant` *)
  Definition state_new (is_error : bool) (name : N) (al : allow) (it : item) : res lstate :=
    let is_enum := match i_body it with BEnum _ => true | BStruct _ => false end in
    let inner_attrs := match i_body it with
                       | BEnum vs => map v_attrs vs
                       | BStruct fs => map fd_attrs fs end in
    let outer_al := if is_enum then al_enum al else al_struct al in
    let inner_al := if is_enum then al_variant al else al_field al in
    bind (get_meta_info name (i_attrs it) outer_al) (fun smeta =>
      bind (sequence (map (fun ats => get_meta_info name ats inner_al) inner_attrs)) (fun metas =>
        let first := find (fun m => is_some_b (mi_enabled m)) metas in
        let default_enabled :=
          if is_error then true
          else match first with
               | Some m => negb (odef (mi_enabled m) false)
               | None => true end in
        let default_owned :=
          match first with
          | Some m => (is_none_b (mi_owned m) && is_none_b (mi_ref m)) || is_none_b (mi_ref_mut m)
          | None => true end in
        let defaults := into_full smeta
          {| fi_enabled := default_enabled; fi_forward := false; fi_owned := default_owned;
             fi_ref := false; fi_ref_mut := false; fi_info := minfo_default |} in
        let fulls := map (fun m => into_full m defaults) metas in
        bind (match i_body it with
              | BStruct _ => Ok []
              | BEnum vs =>
                  sequence (map (fun '(v, info) =>
                             rmap (map (fun m => into_full m info))
                                  (sequence (map (fun f => get_meta_info name (fd_attrs f) (al_field al)) (v_fields v))))
                           (combine vs fulls))
              end) (fun vinfos =>
          Ok {| ls_enum := is_enum; ls_default := defaults; ls_infos := fulls; ls_variant_infos := vinfos |}))).

  Definition count_enabled (l : list finfo) : nat := length (filter fi_enabled l).

  (** kinds of derives built on `State` *)
  Inductive lkind :=
  | LSingleField      (* Deref DerefMut Index IndexMut IntoIterator: utils.rs:561-585 *)
  | LEnumOnly         (* IsVariant Unwrap TryUnwrap TryInto *)
  | LMulLike          (* Mul.. MulAssign..: mul_like.rs:10-22 *)
  | LError.           (* error.rs *)

  (** error.rs:442-480 `parse_field_impl`: more than one enabled field explicitly marked *)
  Definition explicit_dup (sel : minfo -> option bool) (l : list finfo) : bool :=
    Nat.ltb 1 (length (filter (fun f => match sel (fi_info f) with Some true => true | _ => false end)
                              (filter fi_enabled l))).

  Definition legacy_attrs (k : lkind) (name : N) (al : allow) (it : item) : res lstate :=
    bind (state_new (match k with LError => true | _ => false end) name al it) (fun st =>
      match k with
      | LSingleField =>
          if ls_enum st then Err EShape
          else if Nat.eqb (count_enabled (ls_infos st)) 1 then Ok st else Err EShape
      | LEnumOnly => if ls_enum st then Ok st else Err EShape
      | LMulLike =>
          if fi_forward (ls_default st) then Ok st
          else if ls_enum st then Err EShape else Ok st
      | LError =>
          let bad l := explicit_dup mi_source l || explicit_dup mi_backtrace l in
          if ls_enum st then
            if existsb (fun '(vi, fs) => fi_enabled vi && bad (map (fun f => into_full (fi_info f)
                          {| fi_enabled := true; fi_forward := false; fi_owned := false; fi_ref := false;
                             fi_ref_mut := false; fi_info := minfo_default |}) fs))
                       (combine (ls_infos st) (ls_variant_infos st))
            then Err EConflict else Ok st
          else if bad (ls_infos st) then Err EConflict else Ok st
      end).
End Legacy.

(* ================================================================== concrete sub-parsers (tie glue) *)

(** The instance the correspondence check runs: a type / where-predicate / format argument is the
    non-empty run of tokens up to the next comma outside `<..>` (groups are single tokens), and a
    type does not contain `=` outside `<..>` nor start with a literal.  Adequate for the inputs
    the generator produces; measured against syn by the tie. *)
Fixpoint run_to_comma (fuel : nat) (depth : nat) (ts acc : list tok) : list tok * list tok :=
  match fuel with
  | O => (rev acc, ts)
  | S f =>
      match ts with
      | [] => (rev acc, [])
      | TPu c :: rest =>
          if (c =? c_comma) && Nat.eqb depth 0 then (rev acc, ts)
          else if c =? c_lt then run_to_comma f (S depth) rest (TPu c :: acc)
          else if c =? c_gt then run_to_comma f (Nat.pred depth) rest (TPu c :: acc)
          else run_to_comma f depth rest (TPu c :: acc)
      | t :: rest => run_to_comma f depth rest (t :: acc)
      end
  end.

Fixpoint has_top_eq (depth : nat) (ts : list tok) : bool :=
  match ts with
  | [] => false
  | TPu c :: rest =>
      if (c =? c_eq) && Nat.eqb depth 0 then true
      else if c =? c_lt then has_top_eq (S depth) rest
      else if c =? c_gt then has_top_eq (Nat.pred depth) rest
      else has_top_eq depth rest
  | _ :: rest => has_top_eq depth rest
  end.

Definition simple_type (ts : list tok) : option (list tok * list tok) :=
  let '(seg, rest) := run_to_comma (length ts) 0 ts [] in
  match seg with
  | [] => None
  | TStr _ :: _ | TLit _ :: _ => None
  | _ => if has_top_eq 0 seg then None else Some (seg, rest)
  end.

Definition simple_pred (ts : list tok) : option (list tok * list tok) :=
  let '(seg, rest) := run_to_comma (length ts) 0 ts [] in
  match seg with
  | [] => None
  | _ => if existsb (fun t => match t with TPu c => c =? c_colon | _ => false end) seg
         then Some (seg, rest) else None
  end.

Definition simple_fmt_args (ts : list tok) : bool :=
  match parse_terminated (fun ts => let '(seg, rest) := run_to_comma (length ts) 0 ts [] in
                                   match seg with [] => None | _ => Some (seg, rest) end) ts with
  | Ok _ => true
  | Err _ => false
  end.

Definition tt_ty := list tok.

Definition I_from_attrs := from_attrs tt_ty simple_type.
Definition I_as_ref_attrs := as_ref_attrs tt_ty simple_type.
Definition I_into_attrs := into_attrs tt_ty simple_type.
Definition I_try_from_attrs := try_from_attrs tt_ty simple_type.
Definition I_display_attrs := display_attrs tt_ty simple_pred simple_fmt_args.
Definition I_debug_attrs := debug_attrs tt_ty simple_pred simple_fmt_args.

(** verdict + class only (what the tie compares) *)
Definition verdict {A} (r : res A) : option err := match r with Ok _ => None | Err e => Some e end.

(* ================================================================== growth round: results that reach the expansion *)

(** fmt/display.rs:489-503 `generate_body`: the name literal of a struct / variant (the only place where
    `rename_all` is used) is produced iff it has no literal of its own and no field *)
Definition display_uses_rename (has_fmt : bool) (nfields : nat) : bool := negb has_fmt && Nat.eqb nfields 0.

(** what the tie reads back: explicit bounds of a Display-family / Debug item, enabled variants of an
    enum-only legacy derive *)
Definition I_display_bounds (name : N) (it : item) : option (list tt_ty) :=
  match I_display_attrs name it with Ok (_, _, bs) => Some bs | Err _ => None end.
Definition I_debug_bounds (it : item) : option (list tt_ty) :=
  match I_debug_attrs it with Ok (_, bs) => Some bs | Err _ => None end.
Definition enabled_count (r : res lstate) : option nat :=
  match r with Ok st => Some (count_enabled (ls_infos st)) | Err _ => None end.
