From Coq Require Import List NArith Bool Arith Permutation.
Import ListNotations.
Require Import Verif.C17.Model Verif.C17.Proofs Verif.C17.Proofs2 Verif.Gen.C17Allow.
Open Scope N_scope.

Theorem C17_skip_ignore :
  forall (ty : Type) (parse_type : list tok -> option (ty * list tok)) (fmt_args_ok : list tok -> bool)
         (legacy : bool) (name : N) (attrs : list attr),
    req (option_map (norm_fc ty))
        (parse_attrs (fieldconv_pm ty parse_type legacy) name (map respell_skip attrs))
        (parse_attrs (fieldconv_pm ty parse_type legacy) name attrs) /\
    req (option_map norm_df)
        (parse_attrs (dfield_pm fmt_args_ok) name (map respell_skip attrs))
        (parse_attrs (dfield_pm fmt_args_ok) name attrs) /\
    req (option_map (norm_if ty))
        (parse_attrs (into_field_pm ty parse_type) name (map respell_skip attrs))
        (parse_attrs (into_field_pm ty parse_type) name attrs).
Proof. exact L_C17_skip_ignore. Qed.
Print Assumptions C17_skip_ignore.

Theorem C17_bound_bounds :
  forall (pred : Type) (parse_pred : list tok -> option (pred * list tok)) (fmt_args_ok : list tok -> bool)
         (name : N) (attrs : list attr),
    req (fun x => x)
        (parse_attrs (fcont_pm pred parse_pred fmt_args_ok) name (map respell_bound attrs))
        (parse_attrs (fcont_pm pred parse_pred fmt_args_ok) name attrs) /\
    req (fun x => x)
        (parse_attrs (dcont_pm pred parse_pred fmt_args_ok) name (map respell_bound attrs))
        (parse_attrs (dcont_pm pred parse_pred fmt_args_ok) name attrs).
Proof. exact L_C17_bound_bounds. Qed.
Print Assumptions C17_bound_bounds.

Theorem C17_types_merge :
  forall (ty : Type) (parse_type : list tok -> option (ty * list tok)) (name : N) (segs : list (list tok * ty)),
    Forall (fun sa => complete parse_type (fst sa) (snd sa)) segs -> segs <> [] ->
    (parse_attrs (types_pm ty parse_type false) name [mk name (join (map fst segs))] = Ok (Some (map snd segs)) /\
     parse_attrs (types_pm ty parse_type false) name (map (fun sa => mk name (fst sa)) segs) = Ok (Some (map snd segs))) /\
    (Forall (fun sa => not_lone_kw (fst sa)) segs ->
     parse_attrs (fieldconv_pm ty parse_type false) name [mk name (join (map fst segs))]
       = Ok (Some (FTypes ty (map snd segs))) /\
     parse_attrs (fieldconv_pm ty parse_type false) name (map (fun sa => mk name (fst sa)) segs)
       = Ok (Some (FTypes ty (map snd segs)))).
Proof. exact L_C17_types_merge. Qed.
Print Assumptions C17_types_merge.

Theorem C17_trailing_comma :
  forall (ty : Type) (parse_type : list tok -> option (ty * list tok)) (name : N) (segs : list (list tok * ty)),
    Forall (fun sa => complete parse_type (fst sa) (snd sa)) segs -> segs <> [] ->
    parse_attrs (types_pm ty parse_type false) name [mk name (join (map fst segs) ++ [TComma])] =
    parse_attrs (types_pm ty parse_type false) name [mk name (join (map fst segs))].
Proof. exact L_C17_trailing_comma. Qed.
Print Assumptions C17_trailing_comma.

Theorem C17_trailing_comma_any_list :
  forall (A : Type) (p : list tok -> option (A * list tok)) (segs : list (list tok * A)),
    Forall (fun sa => complete p (fst sa) (snd sa)) segs -> segs <> [] ->
    parse_terminated p (join (map fst segs) ++ [TComma]) = parse_terminated p (join (map fst segs)).
Proof. exact L_C17_trailing_comma_any_list. Qed.
Print Assumptions C17_trailing_comma_any_list.

Theorem C17_order_independent :
  forall (ty : Type) (parse_type : list tok -> option (ty * list tok)) (name : N) (attrs attrs' : list attr) (l : list ty),
    Permutation attrs attrs' ->
    parse_attrs (types_pm ty parse_type false) name attrs = Ok (Some l) ->
    exists l', parse_attrs (types_pm ty parse_type false) name attrs' = Ok (Some l') /\ Permutation l l'.
Proof. exact L_C17_order_independent. Qed.
Print Assumptions C17_order_independent.

Theorem C17_list_order :
  forall (ty : Type) (parse_type : list tok -> option (ty * list tok)) (name : N) (segs segs' : list (list tok * ty)),
    Forall (fun sa => complete parse_type (fst sa) (snd sa)) segs -> segs <> [] -> Permutation segs segs' ->
    exists l l', parse_attrs (types_pm ty parse_type false) name [mk name (join (map fst segs))] = Ok (Some l) /\
                 parse_attrs (types_pm ty parse_type false) name [mk name (join (map fst segs'))] = Ok (Some l') /\
                 Permutation l l'.
Proof. exact L_C17_list_order. Qed.
Print Assumptions C17_list_order.

Theorem C17_unknown_rejected :
  (forall fuel info ts allowed w info',
      lmeta_list fuel info ts allowed w = Ok info' ->
      Forall (fun i => i = k_not \/ mem i allowed = true) (top_idents ts true)) /\
  (forall (pred : Type) parse_pred fmt_args_ok n i rest,
      is_bound_kw i = false -> i <> k_rename_all ->
      exists e, pm_parse (dcont_pm pred parse_pred fmt_args_ok) (mk n (TId i :: rest)) = Err e) /\
  (forall (pred : Type) parse_pred fmt_args_ok n i rest,
      is_bound_kw i = false ->
      exists e, pm_parse (fcont_pm pred parse_pred fmt_args_ok) (mk n (TId i :: rest)) = Err e) /\
  (forall fmt_args_ok n i rest,
      i <> k_skip -> i <> k_ignore ->
      exists e, pm_parse (dfield_pm fmt_args_ok) (mk n (TId i :: rest)) = Err e).
Proof. exact L_C17_unknown_rejected. Qed.
Print Assumptions C17_unknown_rejected.

Theorem C17_duplicate_rejected :
  (forall (A : Type) (P : PM A) name l,
      (forall p n, exists e, pm_merge P p n = Err e) ->
      (2 <= length (named name l))%nat -> exists e, parse_attrs P name l = Err e) /\
  (forall (ty : Type) parse_type lg name attrs a b x y,
      named name attrs = [a; b] ->
      pm_parse (fieldconv_pm ty parse_type lg) a = Ok x -> pm_parse (fieldconv_pm ty parse_type lg) b = Ok y ->
      fc_kind ty x <> 3%nat -> exists e, parse_attrs (fieldconv_pm ty parse_type lg) name attrs = Err e) /\
  (forall (pred : Type) (p n : fcont pred) f g,
      fc_fmt pred p = Some f -> fc_fmt pred n = Some g -> fcont_merge pred p n = Err ESingle) /\
  (forall (pred : Type) (p n : dcont pred) a b,
      dc_rename pred p = Some a -> dc_rename pred n = Some b -> dcont_merge pred p n = Err ESingle) /\
  (forall name attrs allowed a b l,
      named name attrs = a :: b :: l -> allowed <> [] -> get_meta_info name attrs allowed = Err ESingle).
Proof. exact L_C17_duplicate_rejected. Qed.
Print Assumptions C17_duplicate_rejected.

Theorem C17_mixed_kind_rejected :
  (forall (ty : Type) parse_type lg name attrs a b x y,
      In a attrs -> In b attrs -> a_name a = name -> a_name b = name ->
      pm_parse (fieldconv_pm ty parse_type lg) a = Ok x -> pm_parse (fieldconv_pm ty parse_type lg) b = Ok y ->
      fc_kind ty x <> fc_kind ty y ->
      exists e, parse_attrs (fieldconv_pm ty parse_type lg) name attrs = Err e) /\
  (forall (A B : Type) (L : PM A) (R : PM B) a b,
      pm_merge (either_pm L R) (inl a) (inr b) = Err EKind /\ pm_merge (either_pm L R) (inr b) (inl a) = Err EKind).
Proof. exact L_C17_mixed_kind_rejected. Qed.
Print Assumptions C17_mixed_kind_rejected.

Theorem C17_legacy_rejected :
  (forall (ty : Type) parse_type n inner rest,
      pm_parse (fieldconv_pm ty parse_type true) (mk n (TId k_types :: TGr 0 inner :: rest)) = Err ELegacy /\
      pm_parse (conversion_pm ty parse_type true) (mk n (TId k_types :: TGr 0 inner :: rest)) = Err ELegacy) /\
  (forall (pred : Type) parse_pred fmt_args_ok n s,
      pm_parse (fcont_pm pred parse_pred fmt_args_ok) (mk n [TId k_fmt; TPu c_eq; TStr s]) = Err ELegacy /\
      pm_parse (dcont_pm pred parse_pred fmt_args_ok) (mk n [TId k_fmt; TPu c_eq; TStr s]) = Err ELegacy /\
      pm_parse (dfield_pm fmt_args_ok) (mk n [TId k_fmt; TPu c_eq; TStr s]) = Err ELegacy) /\
  (forall (pred : Type) parse_pred fmt_args_ok n s rest,
      pm_parse (fcont_pm pred parse_pred fmt_args_ok) (mk n (TId k_bound :: TPu c_eq :: TStr s :: rest)) = Err ELegacy /\
      pm_parse (dcont_pm pred parse_pred fmt_args_ok) (mk n (TId k_bound :: TPu c_eq :: TStr s :: rest)) = Err ELegacy) /\
  (forall f info i rest allowed w,
      exists e, lmeta_list (S f) info (TId i :: TPu c_eq :: rest) allowed w = Err e).
Proof. exact L_C17_legacy_rejected. Qed.
Print Assumptions C17_legacy_rejected.

Theorem C17_conflict_rejected :
  (forall (ty : Type) parse_type name attrs f c x,
      parse_attrs (conversion_pm ty parse_type false) name attrs = Ok (Some c) ->
      parse_attrs (fieldconv_pm ty parse_type false) name (fd_attrs f) = Ok (Some x) ->
      as_ref_attrs ty parse_type name {| i_attrs := attrs; i_body := BStruct [f] |} = Err EConflict) /\
  (forall (ty : Type) parse_type name attrs fs fas,
      parse_attrs (conversion_pm ty parse_type false) name attrs = Ok None ->
      sequence (map (fun f => parse_attrs (fieldconv_pm ty parse_type false) name (fd_attrs f)) fs) = Ok fas ->
      existsb (is_fskip ty) fas = true ->
      (exists o x, In o fas /\ o = Some x /\ is_fskip ty o = false) ->
      as_ref_attrs ty parse_type name {| i_attrs := attrs; i_body := BStruct fs |} = Err EConflict) /\
  (forall fmt_args_ok fs f x,
      In f fs -> parse_attrs (dfield_pm fmt_args_ok) n_debug (fd_attrs f) = Ok (Some (inr x)) ->
      exists e, debug_fields fmt_args_ok true fs = Err e) /\
  (forall (pred : Type) parse_pred fmt_args_ok attrs vs c f,
      parse_attrs (fcont_pm pred parse_pred fmt_args_ok) n_debug attrs = Ok (Some c) -> fc_fmt pred c = Some f ->
      debug_attrs pred parse_pred fmt_args_ok {| i_attrs := attrs; i_body := BEnum vs |} = Err ENotAllowed).
Proof. exact L_C17_conflict_rejected. Qed.
Print Assumptions C17_conflict_rejected.

(** no silent ignore, as far as it holds: an accepted set has parsed every attribute of the name,
    an accepted comma list accounts for every token, and the accepted types are exactly those listed *)
Theorem C17_every_token_matters_partial :
  (forall (A : Type) (P : PM A) name attrs r,
      parse_attrs P name attrs = Ok r ->
      Forall (fun a => exists x, pm_parse P a = Ok x) (named name attrs)) /\
  (forall (A : Type) (p : list tok -> option (A * list tok)),
      (forall ts a rest, p ts = Some (a, rest) -> exists pre, ts = pre ++ rest) ->
      forall ts l, parse_terminated p ts = Ok l ->
      exists ps : list (piece (A:=A)), l = map snd ps /\ ts = flatten ps /\ Forall (piece_ok p) ps) /\
  (forall (ty : Type) parse_type name attrs r,
      parse_attrs (types_pm ty parse_type false) name attrs = Ok r ->
      r = match named name attrs with
          | [] => None
          | _ => Some (concat (map (tval ty parse_type) (named name attrs)))
          end) /\
  (forall (ty : Type) parse_type lg name attrs r,
      parse_attrs (fieldconv_pm ty parse_type lg) name attrs = Ok (Some r) ->
      Forall (fun a => exists x, pm_parse (fieldconv_pm ty parse_type lg) a = Ok x /\ fc_kind ty x = fc_kind ty r)
             (named name attrs) /\
      (fc_kind ty r <> 3%nat -> length (named name attrs) = 1%nat)).
Proof. exact L_C17_every_token_matters_partial. Qed.
Print Assumptions C17_every_token_matters_partial.

(** the full statement "accepted => nothing is silently ignored" is false of the faithful model *)
Theorem C17_no_silent_ignore_refuted :
  (exists info, lmeta_list 10 E_info [TId k_forward; TComma; TId k_not; TGr 0 [TId k_forward]] [k_ignore; k_forward] WNone = Ok info
                /\ mi_forward info = Some false) /\
  (exists info, lmeta_list 10 E_info [TId k_forward; TComma; TId k_ignore] [k_ignore; k_forward] WNone = Ok info
                /\ mi_enabled info = Some false /\ mi_forward info = Some true) /\
  (lmeta_list 10 E_info [TId k_forward; TComma; TId k_forward] [k_ignore; k_forward] WNone =
   lmeta_list 10 E_info [TId k_forward] [k_ignore; k_forward] WNone
   /\ exists info, lmeta_list 10 E_info [TId k_forward] [k_ignore; k_forward] WNone = Ok info) /\
  (forall (ty : Type) parse_type attrs attrs' vs,
      from_attrs ty parse_type {| i_attrs := attrs; i_body := BEnum vs |} =
      from_attrs ty parse_type {| i_attrs := attrs'; i_body := BEnum vs |}) /\
  (pm_parse (fieldconv_pm tt_ty simple_type true) (mk n_from [TId k_skip]) = Ok (FSkip tt_ty k_skip) /\
   pm_parse (fieldconv_pm tt_ty simple_type true) (mk n_from [TId k_skip; TComma]) = Ok (FTypes tt_ty [[TId k_skip]])).
Proof. exact L_C17_no_silent_ignore_refuted. Qed.
Print Assumptions C17_no_silent_ignore_refuted.

Theorem C17_legacy_types_arm_dead :
  forallb (fun r => let '(_, _, (e, v, s, f)) := r in
                    negb (mem k_types e) && negb (mem k_types v) && negb (mem k_types s) && negb (mem k_types f))
          c17_allow_table = true /\
  (forall fuel info ts allowed w,
      mem k_types allowed = false -> lmeta_list fuel info ts allowed w <> Err EUnsupported).
Proof. exact L_C17_legacy_types_arm_dead. Qed.
Print Assumptions C17_legacy_types_arm_dead.

Theorem C17_display_bounds_kept :
  forall (pred : Type) parse_pred fmt_args_ok name it c vas bs,
    display_attrs pred parse_pred fmt_args_ok name it = Ok (c, vas, bs) ->
    bs = fc_bounds pred (dc_common pred c) ++ flat_map (fun a => fc_bounds pred (dc_common pred a)) vas.
Proof. exact L_C17_display_bounds_kept. Qed.
Print Assumptions C17_display_bounds_kept.

(** `bound(p1, .., pn)` == n attributes `bound(pi)`; a trailing comma inside `bound(..)` changes nothing *)
Theorem C17_bounds_merge :
  forall (pred : Type) (parse_pred : list tok -> option (pred * list tok)) (fmt_args_ok : list tok -> bool)
         (name kw : N) (segs : list (list tok * pred)),
    kw = k_bound \/ kw = k_bounds ->
    Forall (fun sa => complete parse_pred (fst sa) (snd sa)) segs -> segs <> [] ->
    (parse_attrs (fcont_pm pred parse_pred fmt_args_ok) name [mk name [TId kw; TGr 0 (join (map fst segs))]]
       = Ok (Some {| fc_fmt := None; fc_bounds := map snd segs |}) /\
     parse_attrs (fcont_pm pred parse_pred fmt_args_ok) name (map (fun sa => mk name [TId kw; TGr 0 (fst sa)]) segs)
       = Ok (Some {| fc_fmt := None; fc_bounds := map snd segs |})) /\
    pm_parse (fcont_pm pred parse_pred fmt_args_ok) (mk name [TId kw; TGr 0 (join (map fst segs) ++ [TComma])]) =
    pm_parse (fcont_pm pred parse_pred fmt_args_ok) (mk name [TId kw; TGr 0 (join (map fst segs))]).
Proof. exact L_C17_bounds_merge. Qed.
Print Assumptions C17_bounds_merge.

(** any order of the literal, `rename_all` and `bound(..)` attributes of one struct / enum / variant *)
Theorem C17_fmt_container_order_independent :
  forall (pred : Type) (parse_pred : list tok -> option (pred * list tok)) (fmt_args_ok : list tok -> bool)
         (name : N) (attrs attrs' : list attr),
    Permutation attrs attrs' ->
    (forall c, parse_attrs (fcont_pm pred parse_pred fmt_args_ok) name attrs = Ok (Some c) ->
       exists c', parse_attrs (fcont_pm pred parse_pred fmt_args_ok) name attrs' = Ok (Some c') /\
                  fc_fmt pred c' = fc_fmt pred c /\ Permutation (fc_bounds pred c) (fc_bounds pred c')) /\
    (forall c, parse_attrs (dcont_pm pred parse_pred fmt_args_ok) name attrs = Ok (Some c) ->
       exists c', parse_attrs (dcont_pm pred parse_pred fmt_args_ok) name attrs' = Ok (Some c') /\
                  dc_rename pred c' = dc_rename pred c /\
                  fc_fmt pred (dc_common pred c') = fc_fmt pred (dc_common pred c) /\
                  Permutation (fc_bounds pred (dc_common pred c)) (fc_bounds pred (dc_common pred c'))).
Proof. exact L_C17_fmt_container_order_independent. Qed.
Print Assumptions C17_fmt_container_order_independent.

(** silent-ignore freedom of the fmt containers: the casing, the literal and every predicate of every
    accepted attribute are in the merged result (whose bounds all reach the where clause: C17_display_bounds_kept) *)
Theorem C17_fmt_container_nothing_dropped :
  forall (pred : Type) (parse_pred : list tok -> option (pred * list tok)) (fmt_args_ok : list tok -> bool)
         (name : N) (attrs : list attr) (a : attr),
    In a (named name attrs) ->
    (forall c x, parse_attrs (fcont_pm pred parse_pred fmt_args_ok) name attrs = Ok (Some c) ->
       pm_parse (fcont_pm pred parse_pred fmt_args_ok) a = Ok x ->
       (forall f, fc_fmt pred x = Some f -> fc_fmt pred c = Some f) /\
       (forall p, In p (fc_bounds pred x) -> In p (fc_bounds pred c))) /\
    (forall c x, parse_attrs (dcont_pm pred parse_pred fmt_args_ok) name attrs = Ok (Some c) ->
       pm_parse (dcont_pm pred parse_pred fmt_args_ok) a = Ok x ->
       (forall r, dc_rename pred x = Some r -> dc_rename pred c = Some r) /\
       (forall f, fc_fmt pred (dc_common pred x) = Some f -> fc_fmt pred (dc_common pred c) = Some f) /\
       (forall p, In p (fc_bounds pred (dc_common pred x)) -> In p (fc_bounds pred (dc_common pred c)))).
Proof. exact L_C17_fmt_container_nothing_dropped. Qed.
Print Assumptions C17_fmt_container_nothing_dropped.

(** any order of the `#[into(..)]` attributes: per list (owned / ref / ref_mut) the same flag, the types permuted *)
Theorem C17_into_order_independent :
  forall (ty : Type) (parse_type : list tok -> option (ty * list tok)) (lg : bool)
         (name : N) (attrs attrs' : list attr) (c : convs ty),
    Permutation attrs attrs' ->
    parse_attrs (convs_pm ty parse_type lg) name attrs = Ok (Some c) ->
    forall slot, slot = cv_owned ty \/ slot = cv_ref ty \/ slot = cv_ref_mut ty ->
    exists c', parse_attrs (convs_pm ty parse_type lg) name attrs' = Ok (Some c') /\
               cv_fields ty (slot c') = cv_fields ty (slot c) /\
               Permutation (cv_tys ty (slot c)) (cv_tys ty (slot c')).
Proof. exact L_C17_into_order_independent. Qed.
Print Assumptions C17_into_order_independent.

(** legacy meta parser: a trailing comma changes nothing at the attribute's own level, at any list level
    (all levels are parsed by the same function), in particular inside not(..) / owned(..) / ..;
    and with enough fuel (more than the size of the token tree) the model does not depend on the fuel *)
Theorem C17_legacy_trailing_comma :
  (forall name ts allowed, ts <> [] -> ends_comma ts = false ->
     get_meta_info name [mk name (ts ++ [TComma])] allowed = get_meta_info name [mk name ts] allowed) /\
  (forall f info ts allowed w, ts <> [] -> ends_comma ts = false -> (toks_size ts + 1 < f)%nat ->
     lmeta_list f info (ts ++ [TComma]) allowed w = lmeta_list f info ts allowed w) /\
  (forall f info i inner rest allowed w, inner <> [] -> ends_comma inner = false -> (toks_size inner + 2 < f)%nat ->
     lmeta_list (S f) info (TId i :: TGr 0 (inner ++ [TComma]) :: rest) allowed w =
     lmeta_list (S f) info (TId i :: TGr 0 inner :: rest) allowed w) /\
  (forall f g info ts allowed w, (toks_size ts < f)%nat -> (f <= g)%nat ->
     lmeta_list g info ts allowed w = lmeta_list f info ts allowed w).
Proof. exact L_C17_legacy_trailing_comma. Qed.
Print Assumptions C17_legacy_trailing_comma.

(** legacy meta parser: the parameters of one attribute in any order give the same result, and an accepted
    list records every parameter (closed form: each sets its own field) *)
Theorem C17_legacy_param_order_independent :
  (forall ids ids' f info allowed,
     Permutation ids ids' -> (length ids < f)%nat ->
     lmeta_list f info (flat ids') allowed WNone = lmeta_list f info (flat ids) allowed WNone) /\
  (forall ids f info allowed r i,
     (length ids < f)%nat -> lmeta_list f info (flat ids) allowed WNone = Ok r -> In i ids ->
     mem i allowed = true /\ known_param i = true /\ r = closed_none info ids).
Proof. exact L_C17_legacy_param_order_independent. Qed.
Print Assumptions C17_legacy_param_order_independent.

(** positions: a parameter is accepted at a position iff the position's allow-list (regenerated from the
    sources into Gen/C17Allow.v) names it; a position with an empty allow-list refuses the attribute *)
Theorem C17_legacy_positions :
  (forall name allowed i, known_param i = true ->
     is_ok (get_meta_info name [mk name [TId i]] allowed) = mem i allowed) /\
  (forall name allowed i, known_param i = false -> i <> k_not ->
     is_ok (get_meta_info name [mk name [TId i]] allowed) = false) /\
  (forall row, In row c17_allow_table ->
     let '(name, _, (e, v, s, fl)) := row in
     forall al, In al [e; v; s; fl] -> forall i, In i params7 ->
     is_ok (get_meta_info name [mk name [TId i]] al) = mem i al) /\
  (forall name attrs a l, named name attrs = a :: l -> get_meta_info name attrs [] = Err ENotAllowed).
Proof. exact L_C17_legacy_positions. Qed.
Print Assumptions C17_legacy_positions.

(** witnesses for the known findings not covered by C17_no_silent_ignore_refuted: into-duplicate-flag-accepted,
    into-field-duplicate-empty-accepted, keyword-trailing-comma-rejected, display-rename_all-on-nonunit-ignored *)
Theorem C17_known_findings_refuted_2 :
  (pm_parse (convs_pm tt_ty simple_type true) (mk 101 [TId k_owned; TComma; TId k_owned]) =
   pm_parse (convs_pm tt_ty simple_type true) (mk 101 [TId k_owned]) /\
   is_ok (pm_parse (convs_pm tt_ty simple_type true) (mk 101 [TId k_owned])) = true) /\
  (is_ok (parse_attrs (into_field_pm tt_ty simple_type) 101 [{| a_name := 101; a_meta := MPath |}; {| a_name := 101; a_meta := MPath |}]) = true /\
   parse_attrs (into_struct_pm tt_ty simple_type) 101 [{| a_name := 101; a_meta := MPath |}; {| a_name := 101; a_meta := MPath |}] = Err ESingle) /\
  (is_ok (pm_parse (reprconv_pm tt_ty simple_type) (mk 104 [TId k_repr])) = true /\
   is_ok (pm_parse (reprconv_pm tt_ty simple_type) (mk 104 [TId k_repr; TComma])) = false /\
   is_ok (pm_parse (dcont_pm tt_ty simple_pred simple_fmt_args) (mk 106 [TId k_rename_all; TPu c_eq; TStr 1])) = true /\
   is_ok (pm_parse (dcont_pm tt_ty simple_pred simple_fmt_args) (mk 106 [TId k_rename_all; TPu c_eq; TStr 1; TComma])) = false /\
   is_ok (pm_parse (dfield_pm simple_fmt_args) (mk 105 [TId k_skip])) = true /\
   is_ok (pm_parse (dfield_pm simple_fmt_args) (mk 105 [TId k_skip; TComma])) = false) /\
  (exists it c, I_display_attrs 106 it = Ok (c, [], []) /\ dc_rename tt_ty c = Some 1 /\
                display_uses_rename false 1 = false).
Proof. exact L_C17_known_findings_refuted_2. Qed.
Print Assumptions C17_known_findings_refuted_2.
