From Coq Require Import List NArith Bool Arith Permutation.
Import ListNotations.
Require Import Verif.C17.Model Verif.C17.Proofs Verif.Gen.C17Allow.
Open Scope N_scope.

Theorem C17_skip_ignore :
  forall (ty : Type) (parse_type : list tok -> option (ty * list tok)) (fmt_args_ok : list tok -> bool)
         (legacy : bool) (name : N) (attrs : list attr),
    req (option_map (norm_fc ty))
        (parse_attrs (fieldconv_pm ty parse_type legacy) name (map respell_skip attrs))
        (parse_attrs (fieldconv_pm ty parse_type legacy) name attrs) /\
    req (option_map norm_df)
        (parse_attrs (dfield_pm fmt_args_ok) name (map respell_skip attrs))
        (parse_attrs (dfield_pm fmt_args_ok) name attrs) /\
    req (option_map (norm_if ty))
        (parse_attrs (into_field_pm ty parse_type) name (map respell_skip attrs))
        (parse_attrs (into_field_pm ty parse_type) name attrs).
Proof. exact L_C17_skip_ignore. Qed.
Print Assumptions C17_skip_ignore.

Theorem C17_bound_bounds :
  forall (pred : Type) (parse_pred : list tok -> option (pred * list tok)) (fmt_args_ok : list tok -> bool)
         (name : N) (attrs : list attr),
    req (fun x => x)
        (parse_attrs (fcont_pm pred parse_pred fmt_args_ok) name (map respell_bound attrs))
        (parse_attrs (fcont_pm pred parse_pred fmt_args_ok) name attrs) /\
    req (fun x => x)
        (parse_attrs (dcont_pm pred parse_pred fmt_args_ok) name (map respell_bound attrs))
        (parse_attrs (dcont_pm pred parse_pred fmt_args_ok) name attrs).
Proof. exact L_C17_bound_bounds. Qed.
Print Assumptions C17_bound_bounds.

Theorem C17_types_merge :
  forall (ty : Type) (parse_type : list tok -> option (ty * list tok)) (name : N) (segs : list (list tok * ty)),
    Forall (fun sa => complete parse_type (fst sa) (snd sa)) segs -> segs <> [] ->
    (parse_attrs (types_pm ty parse_type false) name [mk name (join (map fst segs))] = Ok (Some (map snd segs)) /\
     parse_attrs (types_pm ty parse_type false) name (map (fun sa => mk name (fst sa)) segs) = Ok (Some (map snd segs))) /\
    (Forall (fun sa => not_lone_kw (fst sa)) segs ->
     parse_attrs (fieldconv_pm ty parse_type false) name [mk name (join (map fst segs))]
       = Ok (Some (FTypes ty (map snd segs))) /\
     parse_attrs (fieldconv_pm ty parse_type false) name (map (fun sa => mk name (fst sa)) segs)
       = Ok (Some (FTypes ty (map snd segs)))).
Proof. exact L_C17_types_merge. Qed.
Print Assumptions C17_types_merge.

Theorem C17_trailing_comma :
  forall (ty : Type) (parse_type : list tok -> option (ty * list tok)) (name : N) (segs : list (list tok * ty)),
    Forall (fun sa => complete parse_type (fst sa) (snd sa)) segs -> segs <> [] ->
    parse_attrs (types_pm ty parse_type false) name [mk name (join (map fst segs) ++ [TComma])] =
    parse_attrs (types_pm ty parse_type false) name [mk name (join (map fst segs))].
Proof. exact L_C17_trailing_comma. Qed.
Print Assumptions C17_trailing_comma.

Theorem C17_trailing_comma_any_list :
  forall (A : Type) (p : list tok -> option (A * list tok)) (segs : list (list tok * A)),
    Forall (fun sa => complete p (fst sa) (snd sa)) segs -> segs <> [] ->
    parse_terminated p (join (map fst segs) ++ [TComma]) = parse_terminated p (join (map fst segs)).
Proof. exact L_C17_trailing_comma_any_list. Qed.
Print Assumptions C17_trailing_comma_any_list.

Theorem C17_order_independent :
  forall (ty : Type) (parse_type : list tok -> option (ty * list tok)) (name : N) (attrs attrs' : list attr) (l : list ty),
    Permutation attrs attrs' ->
    parse_attrs (types_pm ty parse_type false) name attrs = Ok (Some l) ->
    exists l', parse_attrs (types_pm ty parse_type false) name attrs' = Ok (Some l') /\ Permutation l l'.
Proof. exact L_C17_order_independent. Qed.
Print Assumptions C17_order_independent.

Theorem C17_list_order :
  forall (ty : Type) (parse_type : list tok -> option (ty * list tok)) (name : N) (segs segs' : list (list tok * ty)),
    Forall (fun sa => complete parse_type (fst sa) (snd sa)) segs -> segs <> [] -> Permutation segs segs' ->
    exists l l', parse_attrs (types_pm ty parse_type false) name [mk name (join (map fst segs))] = Ok (Some l) /\
                 parse_attrs (types_pm ty parse_type false) name [mk name (join (map fst segs'))] = Ok (Some l') /\
                 Permutation l l'.
Proof. exact L_C17_list_order. Qed.
Print Assumptions C17_list_order.

Theorem C17_unknown_rejected :
  (forall fuel info ts allowed w info',
      lmeta_list fuel info ts allowed w = Ok info' ->
      Forall (fun i => i = k_not \/ mem i allowed = true) (top_idents ts true)) /\
  (forall (pred : Type) parse_pred fmt_args_ok n i rest,
      is_bound_kw i = false -> i <> k_rename_all ->
      exists e, pm_parse (dcont_pm pred parse_pred fmt_args_ok) (mk n (TId i :: rest)) = Err e) /\
  (forall (pred : Type) parse_pred fmt_args_ok n i rest,
      is_bound_kw i = false ->
      exists e, pm_parse (fcont_pm pred parse_pred fmt_args_ok) (mk n (TId i :: rest)) = Err e) /\
  (forall fmt_args_ok n i rest,
      i <> k_skip -> i <> k_ignore ->
      exists e, pm_parse (dfield_pm fmt_args_ok) (mk n (TId i :: rest)) = Err e).
Proof. exact L_C17_unknown_rejected. Qed.
Print Assumptions C17_unknown_rejected.

Theorem C17_duplicate_rejected :
  (forall (A : Type) (P : PM A) name l,
      (forall p n, exists e, pm_merge P p n = Err e) ->
      (2 <= length (named name l))%nat -> exists e, parse_attrs P name l = Err e) /\
  (forall (ty : Type) parse_type lg name attrs a b x y,
      named name attrs = [a; b] ->
      pm_parse (fieldconv_pm ty parse_type lg) a = Ok x -> pm_parse (fieldconv_pm ty parse_type lg) b = Ok y ->
      fc_kind ty x <> 3%nat -> exists e, parse_attrs (fieldconv_pm ty parse_type lg) name attrs = Err e) /\
  (forall (pred : Type) (p n : fcont pred) f g,
      fc_fmt pred p = Some f -> fc_fmt pred n = Some g -> fcont_merge pred p n = Err ESingle) /\
  (forall (pred : Type) (p n : dcont pred) a b,
      dc_rename pred p = Some a -> dc_rename pred n = Some b -> dcont_merge pred p n = Err ESingle) /\
  (forall name attrs allowed a b l,
      named name attrs = a :: b :: l -> allowed <> [] -> get_meta_info name attrs allowed = Err ESingle).
Proof. exact L_C17_duplicate_rejected. Qed.
Print Assumptions C17_duplicate_rejected.

Theorem C17_mixed_kind_rejected :
  (forall (ty : Type) parse_type lg name attrs a b x y,
      In a attrs -> In b attrs -> a_name a = name -> a_name b = name ->
      pm_parse (fieldconv_pm ty parse_type lg) a = Ok x -> pm_parse (fieldconv_pm ty parse_type lg) b = Ok y ->
      fc_kind ty x <> fc_kind ty y ->
      exists e, parse_attrs (fieldconv_pm ty parse_type lg) name attrs = Err e) /\
  (forall (A B : Type) (L : PM A) (R : PM B) a b,
      pm_merge (either_pm L R) (inl a) (inr b) = Err EKind /\ pm_merge (either_pm L R) (inr b) (inl a) = Err EKind).
Proof. exact L_C17_mixed_kind_rejected. Qed.
Print Assumptions C17_mixed_kind_rejected.

Theorem C17_legacy_rejected :
  (forall (ty : Type) parse_type n inner rest,
      pm_parse (fieldconv_pm ty parse_type true) (mk n (TId k_types :: TGr 0 inner :: rest)) = Err ELegacy /\
      pm_parse (conversion_pm ty parse_type true) (mk n (TId k_types :: TGr 0 inner :: rest)) = Err ELegacy) /\
  (forall (pred : Type) parse_pred fmt_args_ok n s,
      pm_parse (fcont_pm pred parse_pred fmt_args_ok) (mk n [TId k_fmt; TPu c_eq; TStr s]) = Err ELegacy /\
      pm_parse (dcont_pm pred parse_pred fmt_args_ok) (mk n [TId k_fmt; TPu c_eq; TStr s]) = Err ELegacy /\
      pm_parse (dfield_pm fmt_args_ok) (mk n [TId k_fmt; TPu c_eq; TStr s]) = Err ELegacy) /\
  (forall (pred : Type) parse_pred fmt_args_ok n s rest,
      pm_parse (fcont_pm pred parse_pred fmt_args_ok) (mk n (TId k_bound :: TPu c_eq :: TStr s :: rest)) = Err ELegacy /\
      pm_parse (dcont_pm pred parse_pred fmt_args_ok) (mk n (TId k_bound :: TPu c_eq :: TStr s :: rest)) = Err ELegacy) /\
  (forall f info i rest allowed w,
      exists e, lmeta_list (S f) info (TId i :: TPu c_eq :: rest) allowed w = Err e).
Proof. exact L_C17_legacy_rejected. Qed.
Print Assumptions C17_legacy_rejected.

Theorem C17_conflict_rejected :
  (forall (ty : Type) parse_type name attrs f c x,
      parse_attrs (conversion_pm ty parse_type false) name attrs = Ok (Some c) ->
      parse_attrs (fieldconv_pm ty parse_type false) name (fd_attrs f) = Ok (Some x) ->
      as_ref_attrs ty parse_type name {| i_attrs := attrs; i_body := BStruct [f] |} = Err EConflict) /\
  (forall (ty : Type) parse_type name attrs fs fas,
      parse_attrs (conversion_pm ty parse_type false) name attrs = Ok None ->
      sequence (map (fun f => parse_attrs (fieldconv_pm ty parse_type false) name (fd_attrs f)) fs) = Ok fas ->
      existsb (is_fskip ty) fas = true ->
      (exists o x, In o fas /\ o = Some x /\ is_fskip ty o = false) ->
      as_ref_attrs ty parse_type name {| i_attrs := attrs; i_body := BStruct fs |} = Err EConflict) /\
  (forall fmt_args_ok fs f x,
      In f fs -> parse_attrs (dfield_pm fmt_args_ok) n_debug (fd_attrs f) = Ok (Some (inr x)) ->
      exists e, debug_fields fmt_args_ok true fs = Err e) /\
  (forall (pred : Type) parse_pred fmt_args_ok attrs vs c f,
      parse_attrs (fcont_pm pred parse_pred fmt_args_ok) n_debug attrs = Ok (Some c) -> fc_fmt pred c = Some f ->
      debug_attrs pred parse_pred fmt_args_ok {| i_attrs := attrs; i_body := BEnum vs |} = Err ENotAllowed).
Proof. exact L_C17_conflict_rejected. Qed.
Print Assumptions C17_conflict_rejected.

(** no silent ignore, as far as it holds: an accepted set has parsed every attribute of the name,
    an accepted comma list accounts for every token, and the accepted types are exactly those listed *)
Theorem C17_every_token_matters_partial :
  (forall (A : Type) (P : PM A) name attrs r,
      parse_attrs P name attrs = Ok r ->
      Forall (fun a => exists x, pm_parse P a = Ok x) (named name attrs)) /\
  (forall (A : Type) (p : list tok -> option (A * list tok)),
      (forall ts a rest, p ts = Some (a, rest) -> exists pre, ts = pre ++ rest) ->
      forall ts l, parse_terminated p ts = Ok l ->
      exists ps : list (piece (A:=A)), l = map snd ps /\ ts = flatten ps /\ Forall (piece_ok p) ps) /\
  (forall (ty : Type) parse_type name attrs r,
      parse_attrs (types_pm ty parse_type false) name attrs = Ok r ->
      r = match named name attrs with
          | [] => None
          | _ => Some (concat (map (tval ty parse_type) (named name attrs)))
          end) /\
  (forall (ty : Type) parse_type lg name attrs r,
      parse_attrs (fieldconv_pm ty parse_type lg) name attrs = Ok (Some r) ->
      Forall (fun a => exists x, pm_parse (fieldconv_pm ty parse_type lg) a = Ok x /\ fc_kind ty x = fc_kind ty r)
             (named name attrs) /\
      (fc_kind ty r <> 3%nat -> length (named name attrs) = 1%nat)).
Proof. exact L_C17_every_token_matters_partial. Qed.
Print Assumptions C17_every_token_matters_partial.

(** the full statement "accepted => nothing is silently ignored" is false of the faithful model *)
Theorem C17_no_silent_ignore_refuted :
  (exists info, lmeta_list 10 E_info [TId k_forward; TComma; TId k_not; TGr 0 [TId k_forward]] [k_ignore; k_forward] WNone = Ok info
                /\ mi_forward info = Some false) /\
  (exists info, lmeta_list 10 E_info [TId k_forward; TComma; TId k_ignore] [k_ignore; k_forward] WNone = Ok info
                /\ mi_enabled info = Some false /\ mi_forward info = Some true) /\
  (lmeta_list 10 E_info [TId k_forward; TComma; TId k_forward] [k_ignore; k_forward] WNone =
   lmeta_list 10 E_info [TId k_forward] [k_ignore; k_forward] WNone
   /\ exists info, lmeta_list 10 E_info [TId k_forward] [k_ignore; k_forward] WNone = Ok info) /\
  (forall (ty : Type) parse_type attrs attrs' vs,
      from_attrs ty parse_type {| i_attrs := attrs; i_body := BEnum vs |} =
      from_attrs ty parse_type {| i_attrs := attrs'; i_body := BEnum vs |}) /\
  (pm_parse (fieldconv_pm tt_ty simple_type true) (mk n_from [TId k_skip]) = Ok (FSkip tt_ty k_skip) /\
   pm_parse (fieldconv_pm tt_ty simple_type true) (mk n_from [TId k_skip; TComma]) = Ok (FTypes tt_ty [[TId k_skip]])).
Proof. exact L_C17_no_silent_ignore_refuted. Qed.
Print Assumptions C17_no_silent_ignore_refuted.

Theorem C17_legacy_types_arm_dead :
  forallb (fun r => let '(_, _, (e, v, s, f)) := r in
                    negb (mem k_types e) && negb (mem k_types v) && negb (mem k_types s) && negb (mem k_types f))
          c17_allow_table = true /\
  (forall fuel info ts allowed w,
      mem k_types allowed = false -> lmeta_list fuel info ts allowed w <> Err EUnsupported).
Proof. exact L_C17_legacy_types_arm_dead. Qed.
Print Assumptions C17_legacy_types_arm_dead.

Theorem C17_display_bounds_kept :
  forall (pred : Type) parse_pred fmt_args_ok name it c vas bs,
    display_attrs pred parse_pred fmt_args_ok name it = Ok (c, vas, bs) ->
    bs = fc_bounds pred (dc_common pred c) ++ flat_map (fun a => fc_bounds pred (dc_common pred a)) vas.
Proof. exact L_C17_display_bounds_kept. Qed.
Print Assumptions C17_display_bounds_kept.
