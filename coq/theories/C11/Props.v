(** C11 - variant accessors agree with the value's variant and never lose data: the property theorems. *)
From Coq Require Import List NArith Bool.
From Verif Require Import Base.Chars C11.Model C11.Proofs.
Import ListNotations.
Local Open Scope nat_scope.

Theorem C11_is_variant_iff :
  forall (to_snake : str -> str) e fs f x vr v,
    NoDup (names e) -> expand_is_variant to_snake e = EOk fs -> In f fs ->
    nth_error (e_variants e) x = Some vr -> vp_ident (if_pat f) = v_ident vr -> wf_value e v ->
    (eval_is e f v = true <-> tag v = x).
Proof. exact Proofs.is_variant_iff. Qed.
Print Assumptions C11_is_variant_iff.

Theorem C11_is_variant_exactly_one :
  forall (to_snake : str -> str) e st fs v vs,
    NoDup (names e) -> new_state ap_is_variant e = Some st -> expand_is_variant to_snake e = EOk fs ->
    nth_error (st_vstates st) (tag v) = Some vs ->
    length (filter (fun f => eval_is e f v) fs) = if fi_enabled (vs_info vs) then 1 else 0.
Proof. exact Proofs.is_variant_exactly_one. Qed.
Print Assumptions C11_is_variant_exactly_one.

Theorem C11_is_variant_exists_plain :
  forall (to_snake : str -> str) e fs,
    expand_is_variant to_snake e = EOk fs -> only_ignore e -> enum_attr_plain e ->
    map (fun f => vp_ident (if_pat f)) fs = map v_ident (filter (fun vr => is_none (v_attr vr)) (e_variants e)).
Proof. exact Proofs.is_variant_exists_plain. Qed.
Print Assumptions C11_is_variant_exists_plain.

Theorem C11_unwrap :
  forall (to_snake : str -> str) e fs f x vr v,
    wf_enum e -> expand_unwrap to_snake e = EOk fs -> In f fs ->
    nth_error (e_variants e) x = Some vr -> vp_ident (uw_pat f) = v_ident vr -> wf_value e v ->
    (tag v = x -> eval_unwrap e f v = Returns (map (by_mode (uw_mode f)) (payload v))) /\
    (tag v <> x -> exists vr', nth_error (e_variants e) (tag v) = Some vr' /\
                               eval_unwrap e f v = Panics (uw_name f) (v_ident vr')).
Proof. intros to_snake. exact (Proofs.unwrap_spec to_snake s_unwrap). Qed.
Print Assumptions C11_unwrap.

Theorem C11_unwrap_iff :
  forall (to_snake : str -> str) e fs f x vr v,
    wf_enum e -> expand_unwrap to_snake e = EOk fs -> In f fs ->
    nth_error (e_variants e) x = Some vr -> vp_ident (uw_pat f) = v_ident vr -> wf_value e v ->
    (eval_unwrap e f v = Returns (map (by_mode (uw_mode f)) (payload v)) <-> tag v = x).
Proof. intros to_snake. exact (Proofs.unwrap_iff to_snake s_unwrap). Qed.
Print Assumptions C11_unwrap_iff.

Theorem C11_try_unwrap_err_input :
  forall (to_snake : str -> str) e fs f x vr v,
    wf_enum e -> expand_try_unwrap to_snake e = EOk fs -> In f fs ->
    nth_error (e_variants e) x = Some vr -> vp_ident (uw_pat f) = v_ident vr -> wf_value e v ->
    (tag v = x -> eval_try_unwrap e f v = TOk (map (by_mode (uw_mode f)) (payload v))) /\
    (tag v <> x -> exists vr', nth_error (e_variants e) (tag v) = Some vr' /\
                               eval_try_unwrap e f v = TErr (Whole (uw_mode f) v) (uw_name f) (v_ident vr')).
Proof. intros to_snake. exact (Proofs.try_unwrap_spec to_snake s_try_unwrap). Qed.
Print Assumptions C11_try_unwrap_err_input.

Theorem C11_unwrap_exists_plain :
  forall (to_snake : str -> str) pre e fs vr m,
    expand_unwrap_like to_snake pre e = EOk fs -> only_ignore e -> enum_attr_plain e ->
    In vr (e_variants e) -> v_attr vr = None ->
    (m = MMove \/ (m = MRef /\ exists ps, e_attr e = Some ps /\ In PRef ps) \/
     (m = MRefMut /\ exists ps, e_attr e = Some ps /\ In PRefMut ps)) ->
    exists f, In f fs /\ vp_ident (uw_pat f) = v_ident vr /\ uw_mode f = m.
Proof. exact Proofs.unwrap_exists_plain. Qed.
Print Assumptions C11_unwrap_exists_plain.

Theorem C11_unwrap_variant_ref_refuted :
  forall (to_snake : str -> str),
  exists e a b, e_variants e = [a; b] /\ e_attr e = None /\ wf_enum e /\
    v_attr a = Some [PRef] /\ v_attr b = None /\
    forall pre fs, expand_unwrap_like to_snake pre e = EOk fs ->
      forall f, In f fs -> vp_ident (uw_pat f) = v_ident a /\ uw_mode f = MMove.
Proof. exact Proofs.unwrap_variant_ref_refuted. Qed.
Print Assumptions C11_unwrap_variant_ref_refuted.

Theorem C11_try_into :
  forall e st ims im v vs p,
    wf_enum e -> new_state ap_refs e = Some st -> expand_try_into e = EOk ims -> In im ims ->
    wf_value e v -> nth_error (st_vstates st) (tag v) = Some vs ->
    (eval_try_from e im v = IOk p <->
     (fi_enabled (vs_info vs) = true /\ In (ti_mode im) (ref_types (vs_info vs)) /\
      enabled_field_types vs = ti_types im) /\
     p = map (by_mode (ti_mode im)) (filter_by (enabled_flags vs) (payload v))).
Proof. exact Proofs.try_into_iff. Qed.
Print Assumptions C11_try_into.

Theorem C11_try_into_err_input :
  forall e st ims im v vs,
    wf_enum e -> new_state ap_refs e = Some st -> expand_try_into e = EOk ims -> In im ims ->
    wf_value e v -> nth_error (st_vstates st) (tag v) = Some vs ->
    ~ (fi_enabled (vs_info vs) = true /\ In (ti_mode im) (ref_types (vs_info vs)) /\
       enabled_field_types vs = ti_types im) ->
    eval_try_from e im v = IErr (Whole (ti_mode im) v).
Proof. exact Proofs.try_into_err. Qed.
Print Assumptions C11_try_into_err_input.

Theorem C11_try_into_coherent :
  forall e ims, expand_try_into e = EOk ims -> NoDup (map (fun im => (ti_mode im, ti_types im)) ims).
Proof. exact Proofs.try_into_coherent. Qed.
Print Assumptions C11_try_into_coherent.

Theorem C11_try_into_covers :
  forall e st ims vs m,
    new_state ap_refs e = Some st -> expand_try_into e = EOk ims ->
    In vs (enabled_vstates st) -> In m (ref_types (vs_info vs)) ->
    exists im, In im ims /\ ti_mode im = m /\ ti_types im = enabled_field_types vs.
Proof. exact Proofs.try_into_covers. Qed.
Print Assumptions C11_try_into_covers.

Theorem C11_names_is :
  forall (to_snake : str -> str) e fs f,
    expand_is_variant to_snake e = EOk fs -> In f fs ->
    exists vr, In vr (e_variants e) /\ vp_ident (if_pat f) = v_ident vr /\
               if_name f = s_is ++ to_snake (id_name (v_ident vr)).
Proof. exact Proofs.names_is. Qed.
Print Assumptions C11_names_is.

Theorem C11_names_unwrap :
  forall (to_snake : str -> str) pre e fs f,
    expand_unwrap_like to_snake pre e = EOk fs -> In f fs ->
    exists vr, In vr (e_variants e) /\ vp_ident (uw_pat f) = v_ident vr /\
               uw_name f = pre ++ to_snake (id_name (v_ident vr)) ++
                           match uw_mode f with MMove => [] | MRef => s_ref | MRefMut => s_mut end.
Proof. exact Proofs.names_unwrap. Qed.
Print Assumptions C11_names_unwrap.

Theorem C11_names_raw_irrelevant :
  forall (to_snake : str -> str) pre suf r1 r2 n,
    format_ident to_snake pre suf {| id_raw := r1; id_name := n |} =
    format_ident to_snake pre suf {| id_raw := r2; id_name := n |}.
Proof. exact Proofs.format_ident_raw_irrelevant. Qed.
Print Assumptions C11_names_raw_irrelevant.

(* ---- growth round *)

Theorem C11_state_closed_form :
  forall ap e st,
    new_state ap e = Some st ->
    st_default st = spec_defaults e /\
    Forall (fun vs => vs_info vs = spec_info (spec_defaults e) (v_attr (vs_variant vs))) (st_vstates st).
Proof. exact Proofs.state_closed_form. Qed.
Print Assumptions C11_state_closed_form.

Theorem C11_selection_rule_anchored :
  forall ap e st eps vs,
    new_state ap e = Some st -> e_attr e = Some eps -> has PIgnore eps = false -> In vs (st_vstates st) ->
    let ps := match v_attr (vs_variant vs) with Some ps => ps | None => [] end in
    fi_enabled (vs_info vs) = negb (has PIgnore ps) /\
    fi_ref (vs_info vs) = has PRef eps || has PRef ps /\
    fi_mut (vs_info vs) = has PRefMut eps || has PRefMut ps /\
    fi_owned (vs_info vs) = has POwned eps || has POwned ps || negb (owned_quirk e).
Proof. exact Proofs.selection_rule_anchored. Qed.
Print Assumptions C11_selection_rule_anchored.

Theorem C11_unwrap_accessor_iff :
  forall (to_snake : str -> str) pre e st fs vs m,
    NoDup (names e) -> new_state ap_refs e = Some st -> expand_unwrap_like to_snake pre e = EOk fs ->
    In vs (enabled_vstates st) ->
    ((exists f, In f fs /\ vp_ident (uw_pat f) = v_ident (vs_variant vs) /\ uw_mode f = m)
     <-> mode_flag m (spec_defaults e) = true).
Proof. exact Proofs.unwrap_accessor_iff. Qed.
Print Assumptions C11_unwrap_accessor_iff.

Theorem C11_is_variant_partition :
  forall (to_snake : str -> str) e fs v,
    NoDup (names e) -> e_attr e = None -> Forall (fun vr => v_attr vr = None) (e_variants e) ->
    expand_is_variant to_snake e = EOk fs -> wf_value e v ->
    map (fun f => vp_ident (if_pat f)) fs = map v_ident (e_variants e) /\
    length (filter (fun f => eval_is e f v) fs) = 1.
Proof. exact Proofs.is_variant_partition. Qed.
Print Assumptions C11_is_variant_partition.

Theorem C11_failed_block_partition :
  forall ap e st m v,
    NoDup (names e) -> new_state ap e = Some st -> wf_value e v ->
    length (filter (fun p => is_some (match_vpat (e_variants e) m p v)) (failed_block st)) = 1.
Proof. exact Proofs.failed_block_partition. Qed.
Print Assumptions C11_failed_block_partition.

Theorem C11_try_into_owned_default_refuted :
  exists e im v vr, wf_enum e /\ wf_value e v /\ nth_error (e_variants e) (tag v) = Some vr /\ v_attr vr = None /\
    map f_ty (v_fields vr) = ti_types im /\ ti_mode im = MMove /\
    (exists ims, expand_try_into e = EOk ims /\ In im ims) /\
    eval_try_from e im v = IErr (Whole MMove v).
Proof. exact Proofs.try_into_owned_default_refuted. Qed.
Print Assumptions C11_try_into_owned_default_refuted.

Theorem C11_failure_messages :
  forall (to_snake : str -> str) ename pre e fs f x vr v,
    wf_enum e -> expand_unwrap_like to_snake pre e = EOk fs -> In f fs ->
    nth_error (e_variants e) x = Some vr -> vp_ident (uw_pat f) = v_ident vr -> wf_value e v -> tag v <> x ->
    exists vr', nth_error (e_variants e) (tag v) = Some vr' /\
      unwrap_message ename (eval_unwrap e f v) = Some (panic_msg ename (uw_name f) (v_ident vr')) /\
      try_unwrap_message ename (eval_try_unwrap e f v) = Some (try_unwrap_error_display ename (uw_name f) (v_ident vr')).
Proof. exact Proofs.unwrap_failure_message. Qed.
Print Assumptions C11_failure_messages.

Theorem C11_try_into_names_listed :
  forall e st ims im,
    new_state ap_refs e = Some st -> expand_try_into e = EOk ims -> In im ims ->
    ti_variant_names im =
    map (fun vs => v_ident (vs_variant vs)) (filter (in_group (ti_mode im, ti_types im)) (enabled_vstates st)).
Proof. exact Proofs.try_into_names_listed. Qed.
Print Assumptions C11_try_into_names_listed.

Theorem C11_attr_syntax_flat :
  forall allowed items i,
    parse_items allowed None items i =
    match flatten_items items with Some ps => apply_params allowed ps i | None => None end.
Proof. exact Proofs.parse_items_flat. Qed.
Print Assumptions C11_attr_syntax_flat.

Theorem C11_get_meta_info_rich_lower :
  forall allowed attrs,
    existsb (param_eqb PIgnore) allowed = true ->
    get_meta_info_rich allowed attrs =
    match lower_attrs attrs with Some a => get_meta_info allowed a | None => None end.
Proof. exact Proofs.get_meta_info_rich_lower. Qed.
Print Assumptions C11_get_meta_info_rich_lower.

Theorem C11_lower_rich_of_attr :
  forall a, lower_attrs (rich_of_attr a) = Some a.
Proof. exact Proofs.lower_rich_of_attr. Qed.
Print Assumptions C11_lower_rich_of_attr.

Theorem C11_try_into_coherent_rendered :
  forall tuple_of e ims,
    expand_try_into e = EOk ims ->
    (forall im t, In im ims -> ti_mode im = MMove -> ti_types im = [t] -> tuple_of t = None) ->
    NoDup (map (fun im => (ti_mode im, target tuple_of (ti_mode im) (ti_types im))) ims).
Proof. exact Proofs.try_into_coherent_rendered. Qed.
Print Assumptions C11_try_into_coherent_rendered.

Theorem C11_try_into_tuple_field_collides_refuted :
  exists tuple_of e ims im1 im2, wf_enum e /\ expand_try_into e = EOk ims /\ In im1 ims /\ In im2 ims /\
    ti_types im1 <> ti_types im2 /\ ti_mode im1 = ti_mode im2 /\
    target tuple_of (ti_mode im1) (ti_types im1) = target tuple_of (ti_mode im2) (ti_types im2).
Proof. exact Proofs.try_into_tuple_field_collides_refuted. Qed.
Print Assumptions C11_try_into_tuple_field_collides_refuted.
