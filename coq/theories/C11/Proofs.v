(** C11 - lemmas and proofs about the model of the variant accessors. *)
From Coq Require Import List NArith Bool Arith Lia.
From Verif Require Import Base.Chars C11.Model.
Import ListNotations.
Local Open Scope nat_scope.

(* ------------------------------------------------------------------ generic list facts *)

Lemma mapM_Forall2 {A B} (f : A -> option B) l l' :
  mapM f l = Some l' -> Forall2 (fun a b => f a = Some b) l l'.
Proof.
  revert l'; induction l as [|a l IH]; intros l' H; cbn in H.
  - inversion H; constructor.
  - destruct (f a) eqn:Ha; [|discriminate]. destruct (mapM f l) eqn:Hl; [|discriminate].
    inversion H; subst. constructor; auto.
Qed.

Lemma Forall2_length' {A B} (R : A -> B -> Prop) l l' : Forall2 R l l' -> length l = length l'.
Proof. induction 1; cbn; auto. Qed.

Lemma Forall2_In_r {A B} (R : A -> B -> Prop) l l' b :
  Forall2 R l l' -> In b l' -> exists a, In a l /\ R a b.
Proof.
  induction 1 as [|a b' l l' Hab H IH]; intros Hin; [destruct Hin|].
  destruct Hin as [->|Hin]; [exists a; split; [left|]; auto|].
  destruct (IH Hin) as (a' & ? & ?). exists a'; split; [right|]; auto.
Qed.

Lemma Forall2_In_l {A B} (R : A -> B -> Prop) l l' a :
  Forall2 R l l' -> In a l -> exists b, In b l' /\ R a b.
Proof.
  induction 1 as [|a' b l l' Hab H IH]; intros Hin; [destruct Hin|].
  destruct Hin as [->|Hin]; [exists b; split; [left|]; auto|].
  destruct (IH Hin) as (b' & ? & ?). exists b'; split; [right|]; auto.
Qed.

Lemma Forall2_nth_l {A B} (R : A -> B -> Prop) l l' i a :
  Forall2 R l l' -> nth_error l i = Some a -> exists b, nth_error l' i = Some b /\ R a b.
Proof.
  intros H; revert i; induction H as [|a' b l l' Hab H IH]; intros [|i] Hi; cbn in *; try discriminate.
  - inversion Hi; subst. eauto.
  - auto.
Qed.

Lemma Forall2_nth_r {A B} (R : A -> B -> Prop) l l' i b :
  Forall2 R l l' -> nth_error l' i = Some b -> exists a, nth_error l i = Some a /\ R a b.
Proof.
  intros H; revert i; induction H as [|a b' l l' Hab H IH]; intros [|i] Hi; cbn in *; try discriminate.
  - inversion Hi; subst. eauto.
  - auto.
Qed.

Lemma Forall2_filter_length {A B} (R : A -> B -> Prop) (p : A -> bool) (q : B -> bool) l l' :
  Forall2 R l l' -> (forall a b, R a b -> q b = p a) ->
  length (filter q l') = length (filter p l).
Proof.
  intros H Hpq; induction H as [|a b l l' Hab H IH]; cbn; auto.
  rewrite (Hpq _ _ Hab). destruct (p a); cbn; auto.
Qed.

Lemma filter_comm {A} (p q : A -> bool) l : filter p (filter q l) = filter q (filter p l).
Proof.
  induction l as [|a l IH]; cbn; auto.
  destruct (q a) eqn:Hq, (p a) eqn:Hp; cbn; rewrite ?Hq, ?Hp, IH; auto.
Qed.

Lemma str_eqb_refl s : str_eqb s s = true.
Proof. apply str_eqb_eq; reflexivity. Qed.

Lemma str_eqb_neq a b : a <> b -> str_eqb a b = false.
Proof. intros H. destruct (str_eqb a b) eqn:E; auto. apply str_eqb_eq in E. contradiction. Qed.

(** in a list whose [g]-images are pairwise distinct, only one element has the image of [a] *)
Lemma filter_singleton {A} (g : A -> str) l t a :
  NoDup (map g l) -> nth_error l t = Some a ->
  filter (fun b => str_eqb (g b) (g a)) l = [a].
Proof.
  revert t; induction l as [|b l IH]; intros [|t] Hnd Hn; cbn in *; try discriminate.
  - inversion Hn; subst. rewrite str_eqb_refl. f_equal.
    inversion Hnd as [|? ? Hni Hnd']; subst.
    clear - Hni. induction l as [|c l IH]; cbn; auto.
    rewrite str_eqb_neq.
    + apply IH. intros H; apply Hni; right; exact H.
    + intros E. apply Hni. left. exact E.
  - inversion Hnd as [|? ? Hni Hnd']; subst.
    rewrite str_eqb_neq.
    + eapply IH; eauto.
    + intros E. apply Hni. rewrite E. apply in_map. eapply nth_error_In; eauto.
Qed.

Lemma find_hd_filter {A} (p : A -> bool) l : find p l = hd_error (filter p l).
Proof. induction l as [|a l IH]; cbn; auto. destruct (p a); cbn; auto. Qed.

Lemma nodup_index {A} (g : A -> str) l i j a b :
  NoDup (map g l) -> nth_error l i = Some a -> nth_error l j = Some b -> g a = g b -> i = j.
Proof.
  intros Hnd Hi Hj E.
  rewrite NoDup_nth_error in Hnd. apply Hnd.
  - rewrite map_length. apply nth_error_Some. congruence.
  - rewrite (map_nth_error g _ _ Hi), (map_nth_error g _ _ Hj). congruence.
Qed.

(* ------------------------------------------------------------------ well-formedness *)

Definition names (e : enum) : list str := map (fun vr => id_name (v_ident vr)) (e_variants e).
Definition wf_variant (vr : variant) : Prop := v_kind vr = KUnit -> v_fields vr = [].
(** rustc guarantees distinct variant names; a unit variant has no fields *)
Definition wf_enum (e : enum) : Prop := NoDup (names e) /\ Forall wf_variant (e_variants e).
(** a value belongs to a variant of the enum and holds one object per field *)
Definition wf_value (e : enum) (v : value) : Prop :=
  exists vr, nth_error (e_variants e) (tag v) = Some vr /\ length (payload v) = length (v_fields vr).

Lemma ident_eqb_refl i : ident_eqb i i = true.
Proof. apply str_eqb_refl. Qed.

Lemma ident_eqb_name a b : ident_eqb a b = true <-> id_name a = id_name b.
Proof. apply str_eqb_eq. Qed.

Lemma ident_index e i j a b :
  NoDup (names e) -> nth_error (e_variants e) i = Some a -> nth_error (e_variants e) j = Some b ->
  ident_eqb (v_ident a) (v_ident b) = true -> i = j.
Proof.
  intros Hnd Hi Hj E. apply ident_eqb_name in E.
  eapply (nodup_index (fun vr => id_name (v_ident vr))); eauto.
Qed.

(* ------------------------------------------------------------------ State *)

Lemma new_state_variants ap e st :
  new_state ap e = Some st -> map vs_variant (st_vstates st) = e_variants e.
Proof.
  unfold new_state. intros H.
  destruct (get_meta_info (ap_enum ap) (e_attr e)) as [sm|]; [|discriminate].
  destruct (mapM _ (e_variants e)) as [ms|] eqn:Hms; [|discriminate].
  cbv zeta in H.
  match type of H with match mapM ?f ?l with _ => _ end = _ => destruct (mapM f l) as [vss|] eqn:Hv; [|discriminate] end.
  inversion H; subst; cbn. clear H.
  apply mapM_Forall2 in Hv. apply mapM_Forall2 in Hms.
  apply Forall2_length' in Hms.
  match type of Hv with Forall2 _ (combine _ ?infos) _ => set (infos0 := infos) in *; assert (Hlen : length (e_variants e) = length infos0) by (unfold infos0; rewrite map_length; exact Hms) end.
  clearbody infos0. clear Hms.
  revert infos0 vss Hv Hlen. induction (e_variants e) as [|vr l IH]; intros [|i infos] vss Hv Hlen; cbn in *; try discriminate.
  - inversion Hv; reflexivity.
  - inversion Hv as [|? vs ? vss' Hf Hr]; subst. cbn. f_equal.
    + unfold from_variant in Hf. destruct (mapM _ (v_fields vr)); [|discriminate]. inversion Hf; reflexivity.
    + apply (IH infos); auto.
Qed.

Lemma vstate_of_variant ap e st t vr :
  new_state ap e = Some st -> nth_error (e_variants e) t = Some vr ->
  exists vs, nth_error (st_vstates st) t = Some vs /\ vs_variant vs = vr.
Proof.
  intros Hst Hn. apply new_state_variants in Hst. rewrite <- Hst in Hn.
  rewrite nth_error_map in Hn. destruct (nth_error (st_vstates st) t) as [vs|]; [|discriminate].
  cbn in Hn. inversion Hn. eauto.
Qed.

Lemma variant_of_vstate ap e st t vs :
  new_state ap e = Some st -> nth_error (st_vstates st) t = Some vs ->
  nth_error (e_variants e) t = Some (vs_variant vs).
Proof.
  intros Hst Hn. apply new_state_variants in Hst. rewrite <- Hst.
  rewrite nth_error_map, Hn. reflexivity.
Qed.

Lemma vstates_nodup ap e st :
  new_state ap e = Some st -> NoDup (names e) ->
  NoDup (map (fun vs => id_name (v_ident (vs_variant vs))) (st_vstates st)).
Proof.
  intros Hst Hnd. apply new_state_variants in Hst. unfold names in Hnd. rewrite <- Hst in Hnd.
  rewrite map_map in Hnd. exact Hnd.
Qed.

Lemma enabled_sub st vs : In vs (enabled_vstates st) -> In vs (st_vstates st) /\ fi_enabled (vs_info vs) = true.
Proof. unfold enabled_vstates. intros H. apply filter_In in H. exact H. Qed.

(** a vstate of the list whose variant has the name of the variant at index [t] is the vstate at [t] *)
Lemma vstate_by_ident ap e st t vs vs' :
  new_state ap e = Some st -> NoDup (names e) ->
  nth_error (st_vstates st) t = Some vs -> In vs' (st_vstates st) ->
  ident_eqb (v_ident (vs_variant vs')) (v_ident (vs_variant vs)) = true -> vs' = vs.
Proof.
  intros Hst Hnd Ht Hin E. apply In_nth_error in Hin as [j Hj].
  assert (j = t).
  { eapply (nodup_index (fun vs => id_name (v_ident (vs_variant vs)))).
    - eapply vstates_nodup; eauto.
    - exact Hj.
    - exact Ht.
    - apply ident_eqb_name; exact E. }
  subst. congruence.
Qed.

Lemma finfos_length ap e st vs :
  new_state ap e = Some st -> In vs (st_vstates st) -> length (vs_finfos vs) = length (v_fields (vs_variant vs)).
Proof.
  unfold new_state. intros H Hin.
  destruct (get_meta_info (ap_enum ap) (e_attr e)) as [sm|]; [|discriminate].
  destruct (mapM _ (e_variants e)) as [ms|]; [|discriminate].
  cbv zeta in H.
  match type of H with match mapM ?f ?l with _ => _ end = _ => destruct (mapM f l) as [vss|] eqn:Hv; [|discriminate] end.
  inversion H; subst; cbn in *. clear H.
  apply mapM_Forall2 in Hv. destruct (Forall2_In_r _ _ _ _ Hv Hin) as ([vr info] & _ & Hf).
  unfold from_variant in Hf. destruct (mapM _ (v_fields vr)) as [ms'|] eqn:Hm; [|discriminate].
  inversion Hf; subst; cbn. rewrite map_length. apply mapM_Forall2, Forall2_length' in Hm. auto.
Qed.

(* ------------------------------------------------------------------ patterns *)

Lemma match_rest vars m id k v vr :
  nth_error vars (tag v) = Some vr ->
  match_vpat vars m {| vp_ident := id; vp_shape := data_rest k |} v =
  if ident_eqb id (v_ident vr) then Some [] else None.
Proof.
  intros Hn. unfold match_vpat. rewrite Hn. cbn.
  destruct (ident_eqb id (v_ident vr)); auto. destruct k; reflexivity.
Qed.

Lemma match_other vars m p v vr :
  nth_error vars (tag v) = Some vr -> ident_eqb (vp_ident p) (v_ident vr) = false ->
  match_vpat vars m p v = None.
Proof. intros Hn E. unfold match_vpat. rewrite Hn, E. reflexivity. Qed.

Lemma bind_seq m a s xs :
  bind_fields m (map (FBind a) (seq s (length xs))) xs =
  Some (combine (seq s (length xs)) (map (bind_obj m a) xs)).
Proof.
  revert s; induction xs as [|x xs IH]; intros s; cbn; auto.
  rewrite IH. reflexivity.
Qed.

Lemma lookup_skip k o en ks :
  Forall (fun j => j <> k) ks -> mapM (lookup ((k, o) :: en)) ks = mapM (lookup en) ks.
Proof.
  induction 1 as [|j ks Hj H IH]; [reflexivity|].
  cbn [mapM]. rewrite IH. cbn [lookup].
  destruct (Nat.eqb_spec j k); [contradiction|]. reflexivity.
Qed.

Lemma lookup_seq s os :
  lookup_all (combine (seq s (length os)) os) (seq s (length os)) = Some os.
Proof.
  unfold lookup_all. revert s; induction os as [|o os IH]; intros s; [reflexivity|].
  cbn [length seq combine mapM]. rewrite lookup_skip.
  - rewrite IH. cbn [lookup]. rewrite Nat.eqb_refl. reflexivity.
  - apply Forall_forall. intros j Hj. apply in_seq in Hj. lia.
Qed.

Lemma bind_obj_pattern_ref m x : bind_obj m (pattern_ref m) x = by_mode m x.
Proof. destruct m; reflexivity. Qed.

Lemma bind_obj_none m x : bind_obj m ANone x = by_mode m x.
Proof. destruct m; reflexivity. Qed.

(** the arms [Enum::X(..) => ..] for all variants: the arm of the value's own variant fires *)
Lemma first_arm_rest ap e st m v vs :
  new_state ap e = Some st -> NoDup (names e) ->
  nth_error (st_vstates st) (tag v) = Some vs ->
  exists p, first_match_arm (e_variants e) m (failed_block st) v = Some (p, []) /\
            vp_ident p = v_ident (vs_variant vs).
Proof.
  intros Hst Hnd Hn.
  pose proof (variant_of_vstate _ _ _ _ _ Hst Hn) as Hvr.
  set (mk := fun vs0 : vstate => {| vp_ident := v_ident (vs_variant vs0); vp_shape := data_rest (v_kind (vs_variant vs0)) |}).
  set (q := fun vs0 : vstate => str_eqb (id_name (v_ident (vs_variant vs0))) (id_name (v_ident (vs_variant vs)))).
  assert (Hgen : forall l, first_match_arm (e_variants e) m (map mk l) v =
                           match find q l with Some vs0 => Some (mk vs0, []) | None => None end).
  { induction l as [|a l IH]; cbn; auto.
    unfold mk at 1. rewrite (match_rest _ _ _ _ _ _ Hvr).
    unfold q at 1. unfold ident_eqb.
    destruct (str_eqb _ _); auto. }
  unfold failed_block. fold mk. rewrite Hgen, find_hd_filter.
  unfold q. rewrite (filter_singleton (fun vs0 => id_name (v_ident (vs_variant vs0))) _ _ _ (vstates_nodup _ _ _ Hst Hnd) Hn).
  cbn. eexists; split; eauto.
Qed.

(* ------------------------------------------------------------------ IsVariant *)

Section WithSnake.
Variable to_snake : str -> str.

Lemma is_fn_shape vs f :
  is_variant_fn to_snake vs = Some f ->
  if_pat f = {| vp_ident := v_ident (vs_variant vs); vp_shape := data_rest (v_kind (vs_variant vs)) |} /\
  format_ident to_snake s_is [] (v_ident (vs_variant vs)) = Some (if_name f).
Proof.
  unfold is_variant_fn. destruct (format_ident _ _ _ _) eqn:E; [|discriminate].
  intros H; inversion H; subst; cbn. auto.
Qed.

Lemma expand_is_inv e fs :
  expand_is_variant to_snake e = EOk fs ->
  exists st, new_state ap_is_variant e = Some st /\
             Forall2 (fun vs f => is_variant_fn to_snake vs = Some f) (enabled_vstates st) fs.
Proof.
  unfold expand_is_variant. destruct (new_state _ _) as [st|]; [|discriminate].
  destruct (mapM _ _) eqn:Hm; [|discriminate]. intros H; inversion H; subst.
  exists st; split; auto. apply mapM_Forall2; auto.
Qed.

Lemma eval_is_ident e f vs v vr :
  is_variant_fn to_snake vs = Some f -> nth_error (e_variants e) (tag v) = Some vr ->
  eval_is e f v = ident_eqb (v_ident (vs_variant vs)) (v_ident vr).
Proof.
  intros Hf Hn. destruct (is_fn_shape _ _ Hf) as [Hp _]. unfold eval_is. rewrite Hp.
  rewrite (match_rest _ _ _ _ _ _ Hn). destruct (ident_eqb _ _); reflexivity.
Qed.

(** [is_x v = true <-> v is X] *)
Theorem is_variant_iff e fs f x vr v :
  NoDup (names e) -> expand_is_variant to_snake e = EOk fs -> In f fs ->
  nth_error (e_variants e) x = Some vr -> vp_ident (if_pat f) = v_ident vr -> wf_value e v ->
  (eval_is e f v = true <-> tag v = x).
Proof.
  intros Hnd Hex Hin Hx Hid (vrt & Ht & _).
  destruct (expand_is_inv _ _ Hex) as (st & Hst & HF).
  destruct (Forall2_In_r _ _ _ _ HF Hin) as (vs & Hvs & Hf).
  rewrite (eval_is_ident _ _ _ _ _ Hf Ht).
  destruct (is_fn_shape _ _ Hf) as [Hp _]. rewrite Hp in Hid; cbn in Hid. rewrite Hid.
  split.
  - intros E. symmetry. eapply ident_index; eauto.
  - intros E. rewrite E in Ht. assert (vr = vrt) by congruence. subst. apply ident_eqb_refl.
Qed.

(** among the generated [is_*] exactly one holds when the value's variant is enabled, none otherwise *)
Theorem is_variant_exactly_one e st fs v vs :
  NoDup (names e) -> new_state ap_is_variant e = Some st -> expand_is_variant to_snake e = EOk fs ->
  nth_error (st_vstates st) (tag v) = Some vs ->
  length (filter (fun f => eval_is e f v) fs) = if fi_enabled (vs_info vs) then 1 else 0.
Proof.
  intros Hnd Hst Hex Hn.
  destruct (expand_is_inv _ _ Hex) as (st' & Hst' & HF). assert (st' = st) by congruence; subst st'.
  pose proof (variant_of_vstate _ _ _ _ _ Hst Hn) as Hvr.
  set (q := fun vs0 : vstate => str_eqb (id_name (v_ident (vs_variant vs0))) (id_name (v_ident (vs_variant vs)))).
  rewrite (Forall2_filter_length _ q _ _ _ HF).
  - unfold enabled_vstates. rewrite filter_comm. unfold q.
    rewrite (filter_singleton (fun vs0 => id_name (v_ident (vs_variant vs0))) _ _ _ (vstates_nodup _ _ _ Hst Hnd) Hn).
    cbn. destruct (fi_enabled (vs_info vs)); reflexivity.
  - intros vs0 f Hf. rewrite (eval_is_ident _ _ _ _ _ Hf Hvr). reflexivity.
Qed.

(** every generated [is_*] belongs to an enabled variant, in declaration order *)
Theorem is_variant_covers e st fs :
  new_state ap_is_variant e = Some st -> expand_is_variant to_snake e = EOk fs ->
  map (fun f => vp_ident (if_pat f)) fs = map (fun vs => v_ident (vs_variant vs)) (enabled_vstates st).
Proof.
  intros Hst Hex. destruct (expand_is_inv _ _ Hex) as (st' & Hst' & HF). assert (st' = st) by congruence; subst st'.
  clear Hex Hst Hst'. induction HF as [|vs f l l' Hf HF IH]; cbn; auto.
  destruct (is_fn_shape _ _ Hf) as [Hp _]. rewrite Hp; cbn. f_equal. exact IH.
Qed.

(* ------------------------------------------------------------------ Unwrap / TryUnwrap *)

Lemma expand_unwrap_inv pre e fs :
  expand_unwrap_like to_snake pre e = EOk fs ->
  exists st fss, new_state ap_refs e = Some st /\
                 Forall2 (fun vs l => unwrap_fns to_snake pre st vs = Some l) (enabled_vstates st) fss /\
                 fs = concat fss.
Proof.
  unfold expand_unwrap_like. destruct (new_state _ _) as [st|]; [|discriminate].
  destruct (mapM _ _) as [fss|] eqn:Hm; [|discriminate]. intros H; inversion H; subst.
  exists st, fss; repeat split; auto. apply mapM_Forall2; auto.
Qed.

Lemma unwrap_fns_shape pre st vs l f :
  unwrap_fns to_snake pre st vs = Some l -> In f l ->
  exists sh suf,
    get_field_info (vs_variant vs) = Some (sh, uw_ret f) /\
    uw_pat f = {| vp_ident := v_ident (vs_variant vs); vp_shape := sh |} /\
    uw_failed f = failed_block st /\
    format_ident to_snake pre suf (v_ident (vs_variant vs)) = Some (uw_name f) /\
    ((uw_mode f = MMove /\ suf = [] /\ fi_owned (vs_info vs) && fi_owned (st_default st) = true) \/
     (uw_mode f = MRef /\ suf = s_ref /\ fi_ref (vs_info vs) && fi_ref (st_default st) = true) \/
     (uw_mode f = MRefMut /\ suf = s_mut /\ fi_mut (vs_info vs) && fi_mut (st_default st) = true)).
Proof.
  unfold unwrap_fns.
  destruct (format_ident to_snake pre [] _) as [n|] eqn:En; [|discriminate].
  destruct (format_ident to_snake pre s_ref _) as [nr|] eqn:Enr; [|discriminate].
  destruct (format_ident to_snake pre s_mut _) as [nm|] eqn:Enm; [|discriminate].
  destruct (get_field_info _) as [[sh ret]|] eqn:Eg; [|discriminate].
  intros H Hin; inversion H; subst; clear H.
  apply in_app_or in Hin as [Hin|Hin]; [|apply in_app_or in Hin as [Hin|Hin]].
  - destruct (fi_owned (vs_info vs) && fi_owned (st_default st)) eqn:Eo; [|destruct Hin].
    destruct Hin as [<-|[]]. exists sh, []; cbn. repeat split; auto.
  - destruct (fi_ref (vs_info vs) && fi_ref (st_default st)) eqn:Eo; [|destruct Hin].
    destruct Hin as [<-|[]]. exists sh, s_ref; cbn. repeat split; auto.
  - destruct (fi_mut (vs_info vs) && fi_mut (st_default st)) eqn:Eo; [|destruct Hin].
    destruct Hin as [<-|[]]. exists sh, s_mut; cbn. repeat split; auto 6.
Qed.

Lemma in_concat_F2 {A B} (R : A -> list B -> Prop) l ll b :
  Forall2 R l ll -> In b (concat ll) -> exists a bs, In a l /\ R a bs /\ In b bs.
Proof.
  induction 1 as [|a bs l ll Hab H IH]; cbn; intros Hin; [destruct Hin|].
  apply in_app_or in Hin as [Hin|Hin].
  - exists a, bs; repeat split; auto.
  - destruct (IH Hin) as (a' & bs' & ? & ? & ?). exists a', bs'; repeat split; auto.
Qed.

(** the two halves of the generated [match]: own pattern, and the fall-through block *)
Lemma unwrap_core pre e fs f x vr v :
  wf_enum e -> expand_unwrap_like to_snake pre e = EOk fs -> In f fs ->
  nth_error (e_variants e) x = Some vr -> vp_ident (uw_pat f) = v_ident vr -> wf_value e v ->
  (tag v = x ->
   exists en, match_vpat (e_variants e) (uw_mode f) (uw_pat f) v = Some en /\
              lookup_all en (uw_ret f) = Some (map (by_mode (uw_mode f)) (payload v))) /\
  (tag v <> x ->
   exists vr' p, nth_error (e_variants e) (tag v) = Some vr' /\
                 match_vpat (e_variants e) (uw_mode f) (uw_pat f) v = None /\
                 first_match_arm (e_variants e) (uw_mode f) (uw_failed f) v = Some (p, []) /\
                 vp_ident p = v_ident vr').
Proof.
  intros [Hnd Hwf] Hex Hin Hx Hid (vrt & Ht & Hlen).
  destruct (expand_unwrap_inv _ _ _ Hex) as (st & fss & Hst & HF & ->).
  destruct (in_concat_F2 _ _ _ _ HF Hin) as (vs & l & Hvs & Hl & Hfl).
  destruct (unwrap_fns_shape _ _ _ _ _ Hl Hfl) as (sh & suf & Hg & Hp & Hfb & _ & _).
  split.
  - intros E; subst x. assert (vrt = vr) by congruence; subst vrt.
    (* the vstate of f is the one at index x *)
    apply enabled_sub in Hvs as [Hvs _]. apply In_nth_error in Hvs as [j Hj].
    pose proof (variant_of_vstate _ _ _ _ _ Hst Hj) as Hvj.
    assert (j = tag v).
    { eapply ident_index; eauto. rewrite Hp in Hid; cbn in Hid. rewrite Hid. apply ident_eqb_refl. }
    subst j. assert (vs_variant vs = vr) by congruence.
    unfold match_vpat. rewrite Ht, Hid, ident_eqb_refl, Hp; cbn.
    unfold get_field_info in Hg. rewrite H in Hg.
    destruct (v_kind vr) eqn:Ek; [| |discriminate]; injection Hg as Hsh Hret; subst sh.
    + (* unit *)
      rewrite Forall_forall in Hwf. specialize (Hwf vr (nth_error_In _ _ Hx) Ek).
      rewrite Hwf in Hlen. destruct (payload v); [|discriminate]. exists []; split; [reflexivity|].
      rewrite <- Hret. reflexivity.
    + (* tuple *)
      cbn [vp_shape]. rewrite <- Hlen. rewrite bind_seq. eexists; split; [reflexivity|].
      rewrite <- Hret, <- Hlen.
      rewrite <- (map_length (bind_obj (uw_mode f) ANone) (payload v)).
      rewrite lookup_seq. reflexivity.
  - intros Hne. exists vrt.
    assert (Hm : match_vpat (e_variants e) (uw_mode f) (uw_pat f) v = None).
    { apply (match_other _ _ _ _ _ Ht). rewrite Hid.
      destruct (ident_eqb (v_ident vr) (v_ident vrt)) eqn:E; auto.
      exfalso. apply Hne. symmetry. eapply ident_index; eauto. }
    destruct (vstate_of_variant _ _ _ _ _ Hst Ht) as (vst & Hvst & Hvv).
    destruct (first_arm_rest _ _ _ (uw_mode f) _ _ Hst Hnd Hvst) as (p & Hfa & Hpi).
    exists p. rewrite Hfb, Hfa, Hpi, Hvv. auto.
Qed.

(** [unwrap_x v] returns the fields of [v], in order (the very same objects, by reference for
    the [_ref]/[_mut] forms), when [v] is [X]; otherwise it panics, naming [v]'s variant *)
Theorem unwrap_spec pre e fs f x vr v :
  wf_enum e -> expand_unwrap_like to_snake pre e = EOk fs -> In f fs ->
  nth_error (e_variants e) x = Some vr -> vp_ident (uw_pat f) = v_ident vr -> wf_value e v ->
  (tag v = x -> eval_unwrap e f v = Returns (map (by_mode (uw_mode f)) (payload v))) /\
  (tag v <> x -> exists vr', nth_error (e_variants e) (tag v) = Some vr' /\
                             eval_unwrap e f v = Panics (uw_name f) (v_ident vr')).
Proof.
  intros Hwf Hex Hin Hx Hid Hv.
  destruct (unwrap_core _ _ _ _ _ _ _ Hwf Hex Hin Hx Hid Hv) as [H1 H2].
  split.
  - intros E. destruct (H1 E) as (en & Hm & Hl). unfold eval_unwrap. rewrite Hm, Hl. reflexivity.
  - intros E. destruct (H2 E) as (vr' & p & Hn & Hm & Hf & Hp). exists vr'; split; auto.
    unfold eval_unwrap. rewrite Hm, Hf, Hp. reflexivity.
Qed.

Corollary unwrap_iff pre e fs f x vr v :
  wf_enum e -> expand_unwrap_like to_snake pre e = EOk fs -> In f fs ->
  nth_error (e_variants e) x = Some vr -> vp_ident (uw_pat f) = v_ident vr -> wf_value e v ->
  (eval_unwrap e f v = Returns (map (by_mode (uw_mode f)) (payload v)) <-> tag v = x).
Proof.
  intros Hwf Hex Hin Hx Hid Hv.
  destruct (unwrap_spec _ _ _ _ _ _ _ Hwf Hex Hin Hx Hid Hv) as [H1 H2].
  split; auto. intros E. destruct (Nat.eq_dec (tag v) x) as [|Hne]; auto.
  destruct (H2 Hne) as (? & _ & Hp). congruence.
Qed.

(** [try_unwrap_x v]: the same on success; otherwise [Err] carrying [v] itself, unchanged *)
Theorem try_unwrap_spec pre e fs f x vr v :
  wf_enum e -> expand_unwrap_like to_snake pre e = EOk fs -> In f fs ->
  nth_error (e_variants e) x = Some vr -> vp_ident (uw_pat f) = v_ident vr -> wf_value e v ->
  (tag v = x -> eval_try_unwrap e f v = TOk (map (by_mode (uw_mode f)) (payload v))) /\
  (tag v <> x -> exists vr', nth_error (e_variants e) (tag v) = Some vr' /\
                             eval_try_unwrap e f v = TErr (Whole (uw_mode f) v) (uw_name f) (v_ident vr')).
Proof.
  intros Hwf Hex Hin Hx Hid Hv.
  destruct (unwrap_core _ _ _ _ _ _ _ Hwf Hex Hin Hx Hid Hv) as [H1 H2].
  split.
  - intros E. destruct (H1 E) as (en & Hm & Hl). unfold eval_try_unwrap. rewrite Hm, Hl. reflexivity.
  - intros E. destruct (H2 E) as (vr' & p & Hn & Hm & Hf & Hp). exists vr'; split; auto.
    unfold eval_try_unwrap. rewrite Hm, Hf, Hp. reflexivity.
Qed.

End WithSnake.

(* ------------------------------------------------------------------ TryInto: grouping *)

Lemma smode_eqb_spec a b : reflect (a = b) (smode_eqb a b).
Proof. destruct a, b; cbn; constructor; congruence. Qed.

Lemma tys_eqb_eq a b : tys_eqb a b = true <-> a = b.
Proof.
  revert b; induction a as [|x a IH]; intros [|y b]; cbn; split; intros H; try congruence; try discriminate.
  - apply andb_true_iff in H as [H1 H2]. apply N.eqb_eq in H1. apply IH in H2. congruence.
  - inversion H; subst. rewrite N.eqb_refl. cbn. apply IH. reflexivity.
Qed.

Lemma key_eqb_spec (a b : key) : reflect (a = b) (key_eqb a b).
Proof.
  destruct a as [am at_], b as [bm bt]. unfold key_eqb; cbn.
  destruct (smode_eqb_spec am bm) as [->|Hne]; cbn.
  - destruct (tys_eqb at_ bt) eqn:E; constructor.
    + apply tys_eqb_eq in E. congruence.
    + intros H. inversion H; subst. rewrite (proj2 (tys_eqb_eq bt bt) eq_refl) in E. discriminate.
  - constructor. congruence.
Qed.

Definition glookup (k : key) (g : list (key * list vstate)) : list vstate :=
  match find (fun kl => key_eqb k (fst kl)) g with Some kl => snd kl | None => [] end.
Definition gkeys (g : list (key * list vstate)) : list key := map fst g.
Definition ins_step (g : list (key * list vstate)) (kv : key * vstate) := group_insert (fst kv) (snd kv) g.

Lemma gi_lookup k k' vs g :
  glookup k (group_insert k' vs g) = if key_eqb k' k then glookup k g ++ [vs] else glookup k g.
Proof.
  induction g as [|[k0 l] r IH]; cbn.
  - unfold glookup; cbn. destruct (key_eqb_spec k k'), (key_eqb_spec k' k); try congruence; reflexivity.
  - destruct (key_eqb_spec k' k0) as [->|Hne].
    + unfold glookup; cbn. destruct (key_eqb_spec k k0), (key_eqb_spec k0 k); try congruence; reflexivity.
    + unfold glookup in *; cbn. destruct (key_eqb_spec k k0) as [->|Hk].
      * cbn. destruct (key_eqb_spec k' k0); [contradiction|reflexivity].
      * exact IH.
Qed.

Lemma gi_keys_in x k vs g : In x (gkeys (group_insert k vs g)) -> x = k \/ In x (gkeys g).
Proof.
  induction g as [|[k0 l] r IH]; cbn.
  - intros [<-|[]]; auto.
  - destruct (key_eqb k k0); cbn; intros [<-|H]; auto. destruct (IH H); auto.
Qed.

Lemma gi_nodup k vs g : NoDup (gkeys g) -> NoDup (gkeys (group_insert k vs g)).
Proof.
  induction g as [|[k0 l] r IH]; cbn; intros Hnd.
  - constructor; [intros []|constructor].
  - destruct (key_eqb_spec k k0) as [->|Hne]; cbn; auto.
    inversion Hnd as [|? ? Hni Hnd']; subst. constructor; auto.
    intros H. apply gi_keys_in in H as [->|H]; [congruence|contradiction].
Qed.

Lemma in_glookup k l g : NoDup (gkeys g) -> In (k, l) g -> glookup k g = l.
Proof.
  induction g as [|[k0 l0] r IH]; cbn; intros Hnd Hin; [destruct Hin|].
  inversion Hnd as [|? ? Hni Hnd']; subst.
  unfold glookup in *; cbn. destruct Hin as [E|Hin].
  - inversion E; subst. destruct (key_eqb_spec k k); [reflexivity|congruence].
  - destruct (key_eqb_spec k k0) as [->|Hne].
    + exfalso. apply Hni. change k0 with (fst (k0, l)). apply in_map. exact Hin.
    + apply IH; auto.
Qed.

Lemma fold_glookup ins g k :
  glookup k (fold_left ins_step ins g) =
  glookup k g ++ map snd (filter (fun kv => key_eqb (fst kv) k) ins).
Proof.
  revert g; induction ins as [|[k' vs] ins IH]; intros g.
  - cbn. rewrite app_nil_r. reflexivity.
  - cbn [fold_left]. rewrite IH. unfold ins_step. cbn [fst snd filter]. rewrite gi_lookup.
    destruct (key_eqb k' k); cbn; [rewrite <- app_assoc|]; reflexivity.
Qed.

Lemma fold_nodup ins g : NoDup (gkeys g) -> NoDup (gkeys (fold_left ins_step ins g)).
Proof.
  revert g; induction ins as [|kv ins IH]; intros g H; cbn; auto.
  apply IH. apply gi_nodup. exact H.
Qed.

Definition insertions (st : state) : list (key * vstate) :=
  flat_map (fun vs => map (fun m => ((m, enabled_field_types vs), vs)) (ref_types (vs_info vs)))
           (enabled_vstates st).

Lemma vpt_fold st : variants_per_types st = fold_left ins_step (insertions st) [].
Proof.
  unfold variants_per_types, insertions. generalize (@nil (key * list vstate)) as g.
  induction (enabled_vstates st) as [|vs l IH]; intros g; cbn; auto.
  rewrite fold_left_app, <- IH. f_equal.
  generalize (ref_types (vs_info vs)) as ms. intros ms; revert g.
  induction ms as [|m ms IHm]; intros g; cbn; auto.
Qed.

Definition in_group (k : key) (vs : vstate) : bool :=
  existsb (smode_eqb (fst k)) (ref_types (vs_info vs)) && tys_eqb (enabled_field_types vs) (snd k).

Lemma insertions_filter k l :
  map snd (filter (fun kv : key * vstate => key_eqb (fst kv) k)
             (flat_map (fun vs => map (fun m => ((m, enabled_field_types vs), vs)) (ref_types (vs_info vs))) l))
  = filter (in_group k) l.
Proof.
  induction l as [|vs l IH]; [reflexivity|].
  cbn [flat_map]. rewrite filter_app, map_app. unfold key in *. rewrite IH. cbn [filter]. clear IH.
  assert (H : map snd (filter (fun kv : key * vstate => key_eqb (fst kv) k)
                         (map (fun m => ((m, enabled_field_types vs), vs)) (ref_types (vs_info vs))))
              = if in_group k vs then [vs] else []).
  { unfold in_group, ref_types, key_eqb. destruct k as [km kt]; cbn.
    destruct (fi_owned (vs_info vs)), (fi_ref (vs_info vs)), (fi_mut (vs_info vs)), km; cbn;
      destruct (tys_eqb (enabled_field_types vs) kt); reflexivity. }
  unfold key in *. rewrite H. destruct (in_group k vs); reflexivity.
Qed.

Lemma vpt_nodup st : NoDup (gkeys (variants_per_types st)).
Proof. rewrite vpt_fold. apply fold_nodup. constructor. Qed.

(** the group of a key holds exactly the enabled variants with that reference kind selected and
    that tuple of non-ignored field types, in declaration order *)
Lemma group_content st k l :
  In (k, l) (variants_per_types st) -> l = filter (in_group k) (enabled_vstates st).
Proof.
  intros Hin. rewrite <- (in_glookup _ _ _ (vpt_nodup st) Hin).
  rewrite vpt_fold, fold_glookup. unfold insertions. rewrite insertions_filter. reflexivity.
Qed.

(* ------------------------------------------------------------------ TryInto: the matcher *)

Fixpoint number_pats (a : annot) (c : nat) (fl : list bool) : list fpat :=
  match fl with
  | [] => []
  | true :: fl' => FBind a c :: number_pats a (S c) fl'
  | false :: fl' => FWild :: number_pats a c fl'
  end.

Lemma filter_by_in {A} fl (xs : list A) x : In x (filter_by fl xs) -> In x xs.
Proof.
  revert xs; induction fl as [|b fl IH]; intros [|y xs]; cbn; try tauto.
  destruct b; cbn; intros H.
  - destruct H; auto.
  - auto.
Qed.

Lemma position_none i l : ~ In i l -> position i l = None.
Proof.
  induction l as [|x l IH]; cbn; auto. intros H.
  destruct (Nat.eqb_spec i x); [exfalso; apply H; auto|].
  rewrite IH; auto.
Qed.

(** [indexes.iter().position(|index| i == *index)] numbers the enabled fields consecutively *)
Lemma matcher_pats a fl s c :
  map (fun i => match position i (filter_by fl (seq s (length fl))) with
                | Some k => FBind a (c + k) | None => FWild end) (seq s (length fl))
  = number_pats a c fl.
Proof.
  revert s c; induction fl as [|b fl IH]; intros s c; [reflexivity|].
  cbn [length seq filter_by map number_pats]. destruct b.
  - cbn [position]. rewrite Nat.eqb_refl, Nat.add_0_r. f_equal.
    rewrite <- (IH (S s) (S c)). apply map_ext_in. intros i Hi. apply in_seq in Hi.
    destruct (Nat.eqb_spec i s); [lia|].
    destruct (position i _); cbn; [f_equal; lia|reflexivity].
  - rewrite position_none.
    + f_equal. apply IH.
    + intros H. apply filter_by_in, in_seq in H. lia.
Qed.

Lemma bind_number m a fl xs c :
  length xs = length fl ->
  bind_fields m (number_pats a c fl) xs =
  Some (combine (seq c (length (filter_by fl xs))) (map (bind_obj m a) (filter_by fl xs))).
Proof.
  revert xs c; induction fl as [|b fl IH]; intros [|x xs] c Hlen; cbn in *; try discriminate; auto.
  destruct b; cbn; rewrite IH by lia; reflexivity.
Qed.

Lemma filter_by_length {A B} fl (xs : list A) (ys : list B) :
  length xs = length fl -> length ys = length fl -> length (filter_by fl xs) = length (filter_by fl ys).
Proof.
  revert xs ys; induction fl as [|b fl IH]; intros [|x xs] [|y ys] H1 H2; cbn in *; try discriminate; auto.
  destruct b; cbn; auto.
Qed.

Lemma matcher_match e m vs v :
  nth_error (e_variants e) (tag v) = Some (vs_variant vs) ->
  length (payload v) = length (v_fields (vs_variant vs)) ->
  length (vs_finfos vs) = length (v_fields (vs_variant vs)) ->
  match_vpat (e_variants e) m (matcher vs (enabled_fields_indexes vs) (pattern_ref m)) v =
  Some (combine (seq 0 (length (filter_by (enabled_flags vs) (payload v))))
                (map (by_mode m) (filter_by (enabled_flags vs) (payload v)))).
Proof.
  intros Hn Hlen Hfl. unfold match_vpat. rewrite Hn. unfold matcher; cbn [vp_ident vp_shape].
  rewrite ident_eqb_refl. unfold enabled_fields_indexes.
  assert (Hl : length (enabled_flags vs) = length (v_fields (vs_variant vs))).
  { unfold enabled_flags. rewrite map_length. exact Hfl. }
  rewrite <- Hl.
  pose proof (matcher_pats (pattern_ref m) (enabled_flags vs) 0 0) as Hp. cbn [Nat.add] in Hp.
  rewrite Hp. rewrite bind_number by lia. f_equal. f_equal.
  apply map_ext. intros; apply bind_obj_pattern_ref.
Qed.

Lemma first_arm_matchers e m (mk : vstate -> vpat) l v vrt vst en :
  nth_error (e_variants e) (tag v) = Some vrt ->
  (forall vs, vp_ident (mk vs) = v_ident (vs_variant vs)) ->
  (forall vs, In vs l -> ident_eqb (v_ident (vs_variant vs)) (v_ident vrt) = true -> vs = vst) ->
  match_vpat (e_variants e) m (mk vst) v = Some en ->
  first_match_arm (e_variants e) m (map mk l) v =
  if existsb (fun vs => ident_eqb (v_ident (vs_variant vs)) (v_ident vrt)) l then Some (mk vst, en) else None.
Proof.
  intros Hn Hid Huniq Hm. induction l as [|a l IH]; cbn; auto.
  destruct (ident_eqb (v_ident (vs_variant a)) (v_ident vrt)) eqn:E; cbn.
  - rewrite (Huniq a (or_introl eq_refl) E), Hm. reflexivity.
  - rewrite (match_other _ _ _ _ _ Hn) by (rewrite Hid; exact E).
    apply IH. intros vs Hin. apply Huniq. right; exact Hin.
Qed.

Lemma existsb_filter {A} (q : A -> bool) l : existsb q l = match filter q l with [] => false | _ => true end.
Proof. induction l as [|a l IH]; cbn; auto. destruct (q a); cbn; auto. Qed.

Lemma expand_try_into_inv e ims :
  expand_try_into e = EOk ims ->
  exists st, new_state ap_refs e = Some st /\ ims = map try_into_impl (variants_per_types st).
Proof.
  unfold expand_try_into. destruct (new_state _ _) as [st|]; [|discriminate].
  intros H; inversion H; subst. eauto.
Qed.

(** [TryFrom<Enum>] for the tuple [T] (by value / by reference): succeeds, with the non-ignored
    fields in order, exactly for the enabled variants that have this reference kind selected and whose
    non-ignored field types are [T]; every other value comes back unchanged inside the error *)
Theorem try_into_spec e st ims im v vs :
  wf_enum e -> new_state ap_refs e = Some st -> expand_try_into e = EOk ims -> In im ims ->
  wf_value e v -> nth_error (st_vstates st) (tag v) = Some vs ->
  eval_try_from e im v =
  if fi_enabled (vs_info vs) && existsb (smode_eqb (ti_mode im)) (ref_types (vs_info vs))
     && tys_eqb (enabled_field_types vs) (ti_types im)
  then IOk (map (by_mode (ti_mode im)) (filter_by (enabled_flags vs) (payload v)))
  else IErr (Whole (ti_mode im) v).
Proof.
  intros [Hnd Hwf] Hst Hex Hin (vrt & Ht & Hlen) Hvs.
  destruct (expand_try_into_inv _ _ Hex) as (st' & Hst' & ->). assert (st' = st) by congruence; subst st'.
  apply in_map_iff in Hin as ([k l] & <- & Hkl).
  pose proof (group_content _ _ _ Hkl) as Hl.
  pose proof (variant_of_vstate _ _ _ _ _ Hst Hvs) as Hvr.
  assert (vrt = vs_variant vs) by congruence; subst vrt.
  assert (Hfl : length (vs_finfos vs) = length (v_fields (vs_variant vs))).
  { eapply finfos_length; eauto. eapply nth_error_In; eauto. }
  unfold eval_try_from. cbn [try_into_impl ti_mode ti_types ti_matchers ti_vars].
  set (mk := fun vs0 : vstate => matcher vs0 (enabled_fields_indexes vs0) (pattern_ref (fst k))).
  pose proof (matcher_match e (fst k) vs v Ht Hlen Hfl) as Hm.
  assert (Huniq : forall vs0, In vs0 l ->
                  ident_eqb (v_ident (vs_variant vs0)) (v_ident (vs_variant vs)) = true -> vs0 = vs).
  { intros vs0 Hin0 E. rewrite Hl in Hin0. apply filter_In in Hin0 as [Hin0 _].
    apply enabled_sub in Hin0 as [Hin0 _]. eapply vstate_by_ident; eauto. }
  rewrite (first_arm_matchers e (fst k) mk l v _ vs _ Ht (fun _ => eq_refl) Huniq Hm).
  (* which of the two arms *)
  rewrite existsb_filter. rewrite Hl. unfold enabled_vstates.
  set (q := fun vs0 : vstate => ident_eqb (v_ident (vs_variant vs0)) (v_ident (vs_variant vs))).
  rewrite (filter_comm q), (filter_comm q).
  assert (Hq : filter q (st_vstates st) = [vs]).
  { apply (filter_singleton (fun vs0 => id_name (v_ident (vs_variant vs0))) _ _ _ (vstates_nodup _ _ _ Hst Hnd) Hvs). }
  rewrite Hq. cbn [filter]. unfold in_group.
  destruct (fi_enabled (vs_info vs)); cbn [andb filter]; [|reflexivity].
  destruct (existsb _ _); cbn [andb filter]; [|reflexivity].
  destruct (tys_eqb (enabled_field_types vs) (snd k)) eqn:Et; cbn [filter]; [|reflexivity].
  apply tys_eqb_eq in Et. rewrite <- Et.
  assert (Hlt : length (enabled_field_types vs) = length (filter_by (enabled_flags vs) (payload v))).
  { unfold enabled_field_types. apply filter_by_length.
    - rewrite map_length. unfold enabled_flags. rewrite map_length. auto.
    - unfold enabled_flags. rewrite map_length. congruence. }
  rewrite Hlt.
  rewrite <- (map_length (by_mode (fst k)) (filter_by (enabled_flags vs) (payload v))).
  rewrite lookup_seq. reflexivity.
Qed.

(** no two generated impls have the same (reference kind, target tuple) *)
Theorem try_into_coherent e ims :
  expand_try_into e = EOk ims -> NoDup (map (fun im => (ti_mode im, ti_types im)) ims).
Proof.
  intros Hex. destruct (expand_try_into_inv _ _ Hex) as (st & Hst & ->).
  rewrite map_map. pose proof (vpt_nodup st) as H. unfold gkeys in H.
  erewrite map_ext; [exact H|]. intros [[m t] l]; reflexivity.
Qed.

(** every enabled variant is convertible in each of its selected reference kinds *)
Theorem try_into_covers e st ims vs m :
  new_state ap_refs e = Some st -> expand_try_into e = EOk ims ->
  In vs (enabled_vstates st) -> In m (ref_types (vs_info vs)) ->
  exists im, In im ims /\ ti_mode im = m /\ ti_types im = enabled_field_types vs.
Proof.
  intros Hst Hex Hvs Hm.
  destruct (expand_try_into_inv _ _ Hex) as (st' & Hst' & ->). assert (st' = st) by congruence; subst st'.
  set (k := (m, enabled_field_types vs)).
  assert (Hg : In vs (glookup k (variants_per_types st))).
  { rewrite vpt_fold, fold_glookup. unfold insertions. rewrite insertions_filter. cbn.
    apply filter_In. split; auto. unfold in_group; cbn.
    apply andb_true_iff; split.
    - apply existsb_exists. exists m; split; auto. destruct m; reflexivity.
    - apply tys_eqb_eq; reflexivity. }
  unfold glookup in Hg. destruct (find _ _) as [[k' l]|] eqn:Ef; [|destruct Hg].
  apply find_some in Ef as [Hin Ek]. cbn in Ek. destruct (key_eqb_spec k k'); [subst k'|discriminate].
  exists (try_into_impl (k, l)). split; [apply in_map; exact Hin|]. cbn. auto.
Qed.

(* ------------------------------------------------------------------ method names *)

Section Names.
Variable to_snake : str -> str.

Lemma format_ident_name pre suf i s :
  format_ident to_snake pre suf i = Some s -> s = pre ++ to_snake (id_name i) ++ suf.
Proof. unfold format_ident, unraw_string. destruct (ident_ok _); intros H; inversion H; reflexivity. Qed.

(** names of an expansion: prefix ++ snake_case(variant name without [r#]) ++ suffix, whether or not
    the variant is spelled as a raw identifier *)
Theorem names_is e fs f :
  expand_is_variant to_snake e = EOk fs -> In f fs ->
  exists vr, In vr (e_variants e) /\ vp_ident (if_pat f) = v_ident vr /\
             if_name f = s_is ++ to_snake (id_name (v_ident vr)).
Proof.
  intros Hex Hin. destruct (expand_is_inv _ _ _ Hex) as (st & Hst & HF).
  destruct (Forall2_In_r _ _ _ _ HF Hin) as (vs & Hvs & Hf).
  destruct (is_fn_shape _ _ _ Hf) as [Hp Hn].
  exists (vs_variant vs). repeat split.
  - apply enabled_sub in Hvs as [Hvs _]. rewrite <- (new_state_variants _ _ _ Hst). apply in_map; auto.
  - rewrite Hp; reflexivity.
  - apply format_ident_name in Hn. rewrite Hn, app_nil_r. reflexivity.
Qed.

Theorem names_unwrap pre e fs f :
  expand_unwrap_like to_snake pre e = EOk fs -> In f fs ->
  exists vr, In vr (e_variants e) /\ vp_ident (uw_pat f) = v_ident vr /\
             uw_name f = pre ++ to_snake (id_name (v_ident vr)) ++
                         match uw_mode f with MMove => [] | MRef => s_ref | MRefMut => s_mut end.
Proof.
  intros Hex Hin. destruct (expand_unwrap_inv _ _ _ _ Hex) as (st & fss & Hst & HF & ->).
  destruct (in_concat_F2 _ _ _ _ HF Hin) as (vs & l & Hvs & Hl & Hfl).
  destruct (unwrap_fns_shape _ _ _ _ _ _ Hl Hfl) as (sh & suf & _ & Hp & _ & Hn & Hmode).
  exists (vs_variant vs). repeat split.
  - apply enabled_sub in Hvs as [Hvs _]. rewrite <- (new_state_variants _ _ _ Hst). apply in_map; auto.
  - rewrite Hp; reflexivity.
  - apply format_ident_name in Hn. rewrite Hn.
    destruct Hmode as [(-> & -> & _)|[(-> & -> & _)|(-> & -> & _)]]; reflexivity.
Qed.

(** the spelling [r#name] / [name] of a variant does not influence the method names at all *)
Theorem format_ident_raw_irrelevant pre suf r1 r2 n :
  format_ident to_snake pre suf {| id_raw := r1; id_name := n |} =
  format_ident to_snake pre suf {| id_raw := r2; id_name := n |}.
Proof. reflexivity. Qed.

End Names.

Definition raw_enum : enum :=
  {| e_attr := None;
     e_variants := [ {| v_ident := {| id_raw := true; id_name := [102; 110]%N |} (* r#fn *);
                        v_kind := KUnit; v_fields := []; v_attr := None |} ] |}.

(** the same as an equivalence *)
Corollary try_into_iff e st ims im v vs p :
  wf_enum e -> new_state ap_refs e = Some st -> expand_try_into e = EOk ims -> In im ims ->
  wf_value e v -> nth_error (st_vstates st) (tag v) = Some vs ->
  (eval_try_from e im v = IOk p <->
   (fi_enabled (vs_info vs) = true /\ In (ti_mode im) (ref_types (vs_info vs)) /\
    enabled_field_types vs = ti_types im) /\
   p = map (by_mode (ti_mode im)) (filter_by (enabled_flags vs) (payload v))).
Proof.
  intros Hwf Hst Hex Hin Hv Hvs. rewrite (try_into_spec _ _ _ _ _ _ Hwf Hst Hex Hin Hv Hvs).
  destruct (fi_enabled (vs_info vs)); cbn [andb].
  2:{ split; [discriminate|]. intros [[? _] _]; discriminate. }
  destruct (existsb _ _) eqn:Ee; cbn [andb].
  2:{ split; [discriminate|]. intros [[_ [Hm _]] _]. exfalso.
      assert (existsb (smode_eqb (ti_mode im)) (ref_types (vs_info vs)) = true); [|congruence].
      apply existsb_exists. exists (ti_mode im); split; auto. destruct (ti_mode im); reflexivity. }
  destruct (tys_eqb _ _) eqn:Et.
  - apply tys_eqb_eq in Et. apply existsb_exists in Ee as (m & Hm & Em).
    destruct (smode_eqb_spec (ti_mode im) m); [subst m|discriminate].
    split.
    + intros H; inversion H; auto.
    + intros [_ ->]; reflexivity.
  - split; [discriminate|]. intros [[_ [_ Hty]] _]. apply tys_eqb_eq in Hty. congruence.
Qed.

Corollary try_into_err e st ims im v vs :
  wf_enum e -> new_state ap_refs e = Some st -> expand_try_into e = EOk ims -> In im ims ->
  wf_value e v -> nth_error (st_vstates st) (tag v) = Some vs ->
  ~ (fi_enabled (vs_info vs) = true /\ In (ti_mode im) (ref_types (vs_info vs)) /\
     enabled_field_types vs = ti_types im) ->
  eval_try_from e im v = IErr (Whole (ti_mode im) v).
Proof.
  intros Hwf Hst Hex Hin Hv Hvs Hn. rewrite (try_into_spec _ _ _ _ _ _ Hwf Hst Hex Hin Hv Hvs).
  destruct (fi_enabled (vs_info vs)); cbn [andb]; auto.
  destruct (existsb _ _) eqn:Ee; cbn [andb]; auto.
  destruct (tys_eqb _ _) eqn:Et; auto.
  exfalso. apply Hn. apply tys_eqb_eq in Et. apply existsb_exists in Ee as (m & Hm & Em).
  destruct (smode_eqb_spec (ti_mode im) m); [subst m|discriminate]. auto.
Qed.

(* ------------------------------------------------------------------ which variants are enabled *)

Definition has (p : param) (ps : list param) : bool := existsb (param_eqb p) ps.

Lemma apply_params_spec allowed ps i i' :
  apply_params allowed ps i = Some i' ->
  i' = {| m_enabled := if has PIgnore ps then Some false else m_enabled i;
          m_owned := if has POwned ps then Some true else m_owned i;
          m_ref := if has PRef ps then Some true else m_ref i;
          m_mut := if has PRefMut ps then Some true else m_mut i |}.
Proof.
  revert i; induction ps as [|p ps IH]; intros i H; cbn in H.
  - inversion H; subst. destruct i'; reflexivity.
  - destruct (existsb (param_eqb p) allowed); [|discriminate].
    apply IH in H. subst i'. unfold has.
    destruct p; cbn [existsb param_eqb orb set_param m_enabled m_owned m_ref m_mut];
      repeat match goal with |- context [if ?b then _ else _] => destruct b end; reflexivity.
Qed.

Lemma has_in p ps : has p ps = true <-> In p ps.
Proof.
  unfold has. rewrite existsb_exists. split.
  - intros (q & Hq & E). destruct p, q; try discriminate; auto.
  - intros H. exists p; split; auto. destruct p; reflexivity.
Qed.

(** the documented way of leaving a variant out: [#[attr(ignore)]] on it and nothing else on the
    other variants *)
Definition only_ignore (e : enum) : Prop :=
  Forall (fun vr => v_attr vr = None \/ v_attr vr = Some [PIgnore]) (e_variants e).
Definition enum_attr_plain (e : enum) : Prop :=
  match e_attr e with None => True | Some ps => ~ In PIgnore ps end.

Lemma Forall2_combine_map {A B C} (R : A -> B -> Prop) (F : B -> C) l l' a c :
  Forall2 R l l' -> In (a, c) (combine l (map F l')) -> exists b, c = F b /\ R a b.
Proof.
  induction 1 as [|a0 b0 l l' Hab H IH]; cbn; intros Hin; [destruct Hin|].
  destruct Hin as [E|Hin]; [inversion E; subst; eauto|auto].
Qed.

Lemma plain_state ap e st :
  new_state ap e = Some st -> only_ignore e -> enum_attr_plain e ->
  fi_enabled (st_default st) = true /\ fi_owned (st_default st) = true /\
  (forall ps, e_attr e = Some ps -> fi_ref (st_default st) = has PRef ps /\ fi_mut (st_default st) = has PRefMut ps) /\
  (forall vs, In vs (st_vstates st) ->
     (v_attr (vs_variant vs) = None -> vs_info vs = st_default st) /\
     fi_enabled (vs_info vs) = is_none (v_attr (vs_variant vs))).
Proof.
  unfold new_state. intros H Hoi Hep.
  destruct (get_meta_info (ap_enum ap) (e_attr e)) as [sm|] eqn:Hsm; [|discriminate].
  destruct (mapM _ (e_variants e)) as [ms|] eqn:Hms; [|discriminate].
  cbv zeta in H.
  match type of H with match mapM ?f ?l with _ => _ end = _ => destruct (mapM f l) as [vss|] eqn:Hv; [|discriminate] end.
  inversion H; subst; cbn [st_default st_vstates]. clear H.
  apply mapM_Forall2 in Hms. apply mapM_Forall2 in Hv.
  (* the metas of the variants *)
  assert (Hmeta : Forall (fun i => i = meta_none \/
                                   i = {| m_enabled := Some false; m_owned := None; m_ref := None; m_mut := None |}) ms).
  { clear Hv. unfold only_ignore in Hoi. induction Hms as [|vr i l l' Hi Hms IH]; constructor.
    - inversion Hoi as [|? ? [Ha|Ha] Hoi']; subst; rewrite Ha in Hi.
      + cbn in Hi. inversion Hi; auto.
      + unfold get_meta_info in Hi. destruct (ap_variant ap) as [|a0 al]; [discriminate|].
        destruct (negb _ && _); [discriminate|].
        apply apply_params_spec in Hi. right. subst i. reflexivity.
    - apply IH. inversion Hoi; auto. }
  assert (Hde : default_enabled (first_match ms) = true /\ default_owned (first_match ms) = true).
  { clear - Hmeta. induction Hmeta as [|i l Hi H IH]; cbn; auto. destruct Hi; subst i; cbn; auto. }
  destruct Hde as [Hde Hdo]. rewrite Hde, Hdo in Hv |- *.
  (* the meta of the enum *)
  assert (Hsm' : m_enabled sm <> Some false /\ m_owned sm <> Some false /\
                 forall ps, e_attr e = Some ps -> m_ref sm = (if has PRef ps then Some true else None) /\
                                                  m_mut sm = (if has PRefMut ps then Some true else None)).
  { unfold enum_attr_plain in Hep. unfold get_meta_info in Hsm. destruct (e_attr e) as [ps|].
    - destruct (ap_enum ap); [discriminate|]. destruct (_ && _); [discriminate|].
      apply apply_params_spec in Hsm. subst sm; cbn.
      assert (has PIgnore ps = false).
      { destruct (has PIgnore ps) eqn:E; auto. apply has_in in E. contradiction. }
      rewrite H. split; [discriminate|]. split; [destruct (has POwned ps); discriminate|].
      intros ps' E; inversion E; subst; split; reflexivity.
    - inversion Hsm; subst; cbn. split; [discriminate|]. split; [discriminate|]. intros ps' E; discriminate. }
  destruct Hsm' as (Hse & Hso & Hsr).
  set (defaults := into_full sm {| fi_enabled := true; fi_owned := true; fi_ref := false; fi_mut := false |}) in *.
  assert (Hden : fi_enabled defaults = true).
  { unfold defaults; cbn. destruct (m_enabled sm) as [[|]|]; cbn; auto; congruence. }
  assert (Hdow : fi_owned defaults = true).
  { unfold defaults; cbn. destruct (m_owned sm) as [[|]|]; cbn; auto; congruence. }
  repeat split; auto.
  - unfold defaults; cbn [into_full fi_ref]. destruct (Hsr _ H) as [-> _]. destruct (has PRef ps); reflexivity.
  - unfold defaults; cbn [into_full fi_mut]. destruct (Hsr _ H) as [_ ->]. destruct (has PRefMut ps); reflexivity.
  - intros Ha. destruct (Forall2_In_r _ _ _ _ Hv H) as ([vr info] & Hin & Hf).
    unfold from_variant in Hf. destruct (mapM _ (v_fields vr)); [|discriminate]. inversion Hf; subst; cbn in *.
    destruct (Forall2_combine_map _ _ _ _ _ _ Hms Hin) as (i & -> & Hi).
    rewrite Ha in Hi. cbn in Hi. inversion Hi; subst. unfold defaults, into_full, meta_none; cbn. reflexivity.
  - destruct (Forall2_In_r _ _ _ _ Hv H) as ([vr info] & Hin & Hf).
    unfold from_variant in Hf. destruct (mapM _ (v_fields vr)); [|discriminate]. inversion Hf; subst; cbn in *.
    destruct (Forall2_combine_map _ _ _ _ _ _ Hms Hin) as (i & -> & Hi).
    assert (Hvr : In vr (e_variants e)) by (eapply in_combine_l; eauto).
    unfold only_ignore in Hoi. rewrite Forall_forall in Hoi. destruct (Hoi _ Hvr) as [Ha|Ha]; rewrite Ha in *.
    + cbn in Hi. inversion Hi; subst; cbn. exact Hden.
    + unfold get_meta_info in Hi. destruct (ap_variant ap); [discriminate|]. destruct (_ && _); [discriminate|].
      apply apply_params_spec in Hi. subst i; reflexivity.
Qed.

Section Exists.
Variable to_snake : str -> str.

Lemma filter_map_comm {A B} (f : A -> B) (p : B -> bool) l : filter p (map f l) = map f (filter (fun a => p (f a)) l).
Proof. induction l as [|a l IH]; cbn; auto. destruct (p (f a)); cbn; rewrite IH; reflexivity. Qed.

(** with only [ignore] attributes there is one [is_*] per variant not carrying it, in order *)
Theorem is_variant_exists_plain e fs :
  expand_is_variant to_snake e = EOk fs -> only_ignore e -> enum_attr_plain e ->
  map (fun f => vp_ident (if_pat f)) fs = map v_ident (filter (fun vr => is_none (v_attr vr)) (e_variants e)).
Proof.
  intros Hex Hoi Hep. destruct (expand_is_inv _ _ _ Hex) as (st & Hst & _).
  rewrite (is_variant_covers _ _ _ _ Hst Hex).
  destruct (plain_state _ _ _ Hst Hoi Hep) as (_ & _ & _ & Hvs).
  rewrite <- (new_state_variants _ _ _ Hst). rewrite filter_map_comm, map_map.
  unfold enabled_vstates. f_equal. apply filter_ext_in. intros vs Hin. apply (Hvs vs Hin).
Qed.

(** ... and an [unwrap_x] (resp. [try_unwrap_x]) per such variant, plus the [_ref] / [_mut] forms the
    enum-level attribute selects *)
Theorem unwrap_exists_plain pre e fs vr m :
  expand_unwrap_like to_snake pre e = EOk fs -> only_ignore e -> enum_attr_plain e ->
  In vr (e_variants e) -> v_attr vr = None ->
  (m = MMove \/ (m = MRef /\ exists ps, e_attr e = Some ps /\ In PRef ps) \/
   (m = MRefMut /\ exists ps, e_attr e = Some ps /\ In PRefMut ps)) ->
  exists f, In f fs /\ vp_ident (uw_pat f) = v_ident vr /\ uw_mode f = m.
Proof.
  intros Hex Hoi Hep Hin Ha Hm.
  destruct (expand_unwrap_inv _ _ _ _ Hex) as (st & fss & Hst & HF & ->).
  destruct (plain_state _ _ _ Hst Hoi Hep) as (Hen & Hown & Hrefs & Hvs).
  apply In_nth_error in Hin as [t Ht].
  destruct (vstate_of_variant _ _ _ _ _ Hst Ht) as (vs & Hvst & Hvv).
  pose proof (nth_error_In _ _ Hvst) as Hvin.
  destruct (Hvs vs Hvin) as [Hinfo Henab]. rewrite Hvv in *. specialize (Hinfo Ha). rewrite Ha in Henab; cbn in Henab.
  assert (Hve : In vs (enabled_vstates st)) by (apply filter_In; auto).
  destruct (Forall2_In_l _ _ _ _ HF Hve) as (l & Hl & Hfn).
  assert (exists f, In f l /\ vp_ident (uw_pat f) = v_ident vr /\ uw_mode f = m) as (f & Hf & ? & ?).
  { unfold unwrap_fns in Hfn. rewrite Hvv in Hfn.
    destruct (format_ident _ _ [] _); [|discriminate].
    destruct (format_ident _ _ s_ref _); [|discriminate].
    destruct (format_ident _ _ s_mut _); [|discriminate].
    destruct (get_field_info vr) as [[sh ret]|]; [|discriminate].
    inversion Hfn; subst l; clear Hfn. rewrite Hinfo, Hown.
    destruct Hm as [->|[(-> & ps & Hps & Hp)|(-> & ps & Hps & Hp)]].
    - eexists; split; [apply in_or_app; left; left; reflexivity|]. cbn; auto.
    - destruct (Hrefs _ Hps) as [Hr _]. apply has_in in Hp. rewrite Hr, Hp.
      eexists; split; [apply in_or_app; right; apply in_or_app; left; left; reflexivity|]. cbn; auto.
    - destruct (Hrefs _ Hps) as [_ Hr]. apply has_in in Hp. rewrite Hr, Hp.
      eexists; split; [apply in_or_app; right; apply in_or_app; right; left; reflexivity|]. cbn; auto. }
  exists f; repeat split; auto. apply in_concat. exists l; split; auto.
Qed.

(** ... but the documented [#[unwrap(ref)]] / [#[try_unwrap(ref)]] ON A VARIANT does not work that way:
    the variant gets no [_ref] accessor, and its attribute-less sibling loses every accessor *)
Definition vref_enum : enum :=
  {| e_attr := None;
     e_variants := [ {| v_ident := {| id_raw := false; id_name := [97]%N |}; v_kind := KTuple;
                        v_fields := [ {| f_ty := 0%N; f_attr := None |} ]; v_attr := Some [PRef] |};
                     {| v_ident := {| id_raw := false; id_name := [98]%N |}; v_kind := KTuple;
                        v_fields := [ {| f_ty := 1%N; f_attr := None |} ]; v_attr := None |} ] |}.

Theorem unwrap_variant_ref_refuted :
  exists e a b, e_variants e = [a; b] /\ e_attr e = None /\ wf_enum e /\
    v_attr a = Some [PRef] /\ v_attr b = None /\
    forall pre fs, expand_unwrap_like to_snake pre e = EOk fs ->
      forall f, In f fs -> vp_ident (uw_pat f) = v_ident a /\ uw_mode f = MMove.
Proof.
  exists vref_enum. do 2 eexists. split; [reflexivity|]. split; [reflexivity|]. split.
  { split.
    - unfold names; cbn. repeat constructor; cbn; intuition discriminate.
    - repeat constructor; intros H; discriminate. }
  split; [reflexivity|]. split; [reflexivity|].
  intros pre fs Hex f Hin.
  destruct (expand_unwrap_inv _ _ _ _ Hex) as (st & fss & Hst & HF & ->).
  vm_compute in Hst. inversion Hst; subst st; clear Hst.
  unfold enabled_vstates in HF; cbn in HF.
  inversion HF as [|vs l ? fss' Hl HF']; subst. inversion HF'; subst. cbn in Hin. rewrite app_nil_r in Hin.
  destruct (unwrap_fns_shape _ _ _ _ _ _ Hl Hin) as (sh & suf & _ & Hp & _ & _ & Hmode).
  rewrite Hp; cbn. split; [reflexivity|].
  destruct Hmode as [(-> & _)|[(_ & _ & E)|(_ & _ & E)]]; auto; cbn in E; discriminate.
Qed.

End Exists.

(* ------------------------------------------------------------------ non-vacuity *)

Module Examples.
  Definition id_ (s : list N) : ident := {| id_raw := false; id_name := s |}.
  Definition fld (t : N) : field := {| f_ty := t; f_attr := None |}.
  Definition fld_ign (t : N) : field := {| f_ty := t; f_attr := Some [PIgnore] |}.
  (** [#[x(ref, ref_mut)] enum E { A, B(T0, T1), C(T0, #[x(ignore)] T2, T1), #[x(ignore)] D(T0) , N{f: T0}}]
      (names a, b, c, d, n); [N] only in the TryInto/IsVariant examples *)
  Definition vA := {| v_ident := id_ [97]%N; v_kind := KUnit; v_fields := []; v_attr := None |}.
  Definition vB := {| v_ident := id_ [98]%N; v_kind := KTuple; v_fields := [fld 0; fld 1]%N; v_attr := None |}.
  Definition vC := {| v_ident := id_ [99]%N; v_kind := KTuple; v_fields := [fld 0; fld_ign 2; fld 1]%N; v_attr := None |}.
  Definition vD := {| v_ident := id_ [100]%N; v_kind := KTuple; v_fields := [fld 0]%N; v_attr := Some [PIgnore] |}.
  Definition vN := {| v_ident := id_ [110]%N; v_kind := KNamed; v_fields := [fld 0]%N; v_attr := None |}.
  Definition ex1 : enum := {| e_attr := Some [PRef; PRefMut]; e_variants := [vA; vB; vC; vD] |}.
  Definition ex2 : enum := {| e_attr := Some [POwned; PRef]; e_variants := [vA; vB; vC; vD; vN] |}.
  Definition ex3 : enum := {| e_attr := None; e_variants := [vA; vB; vD; vN] |}.
  Definition snake0 (s : str) : str := s.

  Example ex1_wf : wf_enum ex1.
  Proof.
    split.
    - unfold names; cbn. repeat constructor; cbn; intuition discriminate.
    - repeat constructor; intros H; try discriminate; reflexivity.
  Qed.
  Example ex2_wf : wf_enum ex2.
  Proof.
    split.
    - unfold names; cbn. repeat constructor; cbn; intuition discriminate.
    - repeat constructor; intros H; try discriminate; reflexivity.
  Qed.
  Example ex1_value_wf : wf_value ex1 {| tag := 2; payload := [10; 11; 12]%N |}.
  Proof. eexists; split; reflexivity. Qed.
  Example ex1_plain : only_ignore ex1 /\ enum_attr_plain ex1.
  Proof.
    split.
    - apply Forall_forall. intros vr [<-|[<-|[<-|[<-|[]]]]]; cbn; auto.
    - cbn. intuition discriminate.
  Qed.

  (** three accessors per non-ignored variant; the hypotheses of the theorems are satisfiable *)
  Example ex1_unwrap_ok : exists fs, expand_unwrap snake0 ex1 = EOk fs /\ length fs = 9.
  Proof. eexists; split; vm_compute; reflexivity. Qed.
  Example ex1_unwrap_run :
    exists fs, expand_unwrap snake0 ex1 = EOk fs /\
      map (fun f => eval_unwrap ex1 f {| tag := 2; payload := [10; 11; 12]%N |}) (skipn 6 fs)
      = [Returns [Val 10; Val 11; Val 12]; Returns [Ref 10; Ref 11; Ref 12]; Returns [RefMut 10; RefMut 11; RefMut 12]]%N /\
      map (fun f => eval_unwrap ex1 f {| tag := 3; payload := [7]%N |}) (firstn 1 (skipn 3 fs))
      = [Panics (s_unwrap ++ [98]%N) (id_ [100]%N)].
  Proof. eexists; split; [vm_compute; reflexivity|]. split; vm_compute; reflexivity. Qed.
  Example ex1_try_unwrap_run :
    exists fs, expand_try_unwrap snake0 ex1 = EOk fs /\
      map (fun f => eval_try_unwrap ex1 f {| tag := 0; payload := [] |}) (firstn 2 (skipn 3 fs))
      = [TErr (Whole MMove {| tag := 0; payload := [] |}) (s_try_unwrap ++ [98]%N) (id_ [97]%N);
         TErr (Whole MRef {| tag := 0; payload := [] |}) (s_try_unwrap ++ [98]%N ++ s_ref) (id_ [97]%N)].
  Proof. eexists; split; [vm_compute; reflexivity|]. vm_compute; reflexivity. Qed.
  Example ex3_is_run :
    exists fs, expand_is_variant snake0 ex3 = EOk fs /\
      map (fun v => map (fun f => eval_is ex3 f v) fs) (values_of ex3)
      = [[true; false; false]; [false; true; false]; [false; false; false]; [false; false; true]].
  Proof. eexists; split; vm_compute; reflexivity. Qed.
  (** B(T0,T1) and C(T0,_,T1) share the target (T0,T1); the ignored field is skipped, order kept *)
  Example ex2_try_into_run :
    exists ims, expand_try_into ex2 = EOk ims /\ length ims = 6 /\
      exists im, In im ims /\ ti_mode im = MRef /\ ti_types im = [0; 1]%N /\
        eval_try_from ex2 im {| tag := 2; payload := [10; 11; 12]%N |} = IOk [Ref 10; Ref 12]%N /\
        eval_try_from ex2 im {| tag := 1; payload := [20; 21]%N |} = IOk [Ref 20; Ref 21]%N /\
        eval_try_from ex2 im {| tag := 3; payload := [7]%N |} = IErr (Whole MRef {| tag := 3; payload := [7]%N |}).
  Proof.
    eexists; split; [vm_compute; reflexivity|]. split; [reflexivity|].
    eexists; split; [right; right; right; left; reflexivity|]. repeat split; vm_compute; reflexivity.
  Qed.
  (** [enum E { r#fn }] gets [is_fn], [unwrap_fn], [try_unwrap_fn] *)
  Example raw_names :
    (exists fs, expand_is_variant snake0 raw_enum = EOk fs /\ map if_name fs = [s_is ++ [102; 110]%N]) /\
    (exists fs, expand_unwrap snake0 raw_enum = EOk fs /\ map uw_name fs = [s_unwrap ++ [102; 110]%N]) /\
    (exists fs, expand_try_unwrap snake0 raw_enum = EOk fs /\ map uw_name fs = [s_try_unwrap ++ [102; 110]%N]).
  Proof. repeat split; eexists; split; vm_compute; reflexivity. Qed.
  Example vref_runs : exists fs, expand_unwrap snake0 vref_enum = EOk fs /\ map uw_name fs = [s_unwrap ++ [97]%N].
  Proof. eexists; split; vm_compute; reflexivity. Qed.
End Examples.

(* ================================================================== growth round *)

(* ------------------------------------------------------------------ the first-match defaults in closed form *)

Fixpoint first_attr_of (l : list variant) : option (list param) :=
  match l with
  | [] => None
  | vr :: r => match v_attr vr with Some ps => Some ps | None => first_attr_of r end
  end.

(** utils.rs:416-454 spelled out: what [State::new_impl] computes as the enum's defaults ... *)
Definition spec_defaults (e : enum) : full :=
  let fa := first_attr_of (e_variants e) in
  let eps := match e_attr e with Some ps => ps | None => [] end in
  {| fi_enabled := match e_attr e with
                   | Some ps => negb (has PIgnore ps)
                   | None => match fa with None => true | Some ps => has PIgnore ps end
                   end;
     fi_owned := has POwned eps ||
                 match fa with
                 | None => true
                 | Some ps => (negb (has POwned ps) && negb (has PRef ps)) || negb (has PRefMut ps)
                 end;
     fi_ref := has PRef eps;
     fi_mut := has PRefMut eps |}.

(** ... and as the info of a variant (or, from the variant's info, of a field) *)
Definition spec_info (d : full) (a : attr) : full :=
  match a with
  | None => d
  | Some ps => {| fi_enabled := negb (has PIgnore ps); fi_owned := has POwned ps || fi_owned d;
                  fi_ref := has PRef ps || fi_ref d; fi_mut := has PRefMut ps || fi_mut d |}
  end.

Definition meta_of (ps : list param) : meta :=
  {| m_enabled := Some (negb (has PIgnore ps));
     m_owned := if has POwned ps then Some true else None;
     m_ref := if has PRef ps then Some true else None;
     m_mut := if has PRefMut ps then Some true else None |}.

Lemma get_meta_info_some allowed ps i : get_meta_info allowed (Some ps) = Some i -> i = meta_of ps.
Proof.
  unfold get_meta_info. destruct allowed as [|a0 al]; [discriminate|].
  destruct (_ && _); [discriminate|]. intros H. apply apply_params_spec in H. subst i. unfold meta_of; cbn.
  destruct (has PIgnore ps); reflexivity.
Qed.

Lemma get_meta_info_none allowed i : get_meta_info allowed None = Some i -> i = meta_none.
Proof. cbn. intros H; inversion H; reflexivity. Qed.

Lemma into_full_meta_of ps d : into_full (meta_of ps) d = spec_info d (Some ps).
Proof.
  unfold into_full, meta_of, spec_info; cbn.
  destruct (has POwned ps), (has PRef ps), (has PRefMut ps); reflexivity.
Qed.

Lemma into_full_meta_none d : into_full meta_none d = d.
Proof. destruct d; reflexivity. Qed.

Lemma first_match_first_attr allowed l ms :
  Forall2 (fun vr i => get_meta_info allowed (v_attr vr) = Some i) l ms ->
  first_match ms = option_map meta_of (first_attr_of l).
Proof.
  induction 1 as [|vr i l ms Hi H IH]; [reflexivity|].
  cbn [first_attr_of]. destruct (v_attr vr) as [ps|].
  - apply get_meta_info_some in Hi. subst i. reflexivity.
  - apply get_meta_info_none in Hi. subst i. unfold first_match in *. cbn. exact IH.
Qed.

(** [State::new_impl], all inputs: the defaults and every variant's info in closed form *)
Theorem state_closed_form ap e st :
  new_state ap e = Some st ->
  st_default st = spec_defaults e /\
  Forall (fun vs => vs_info vs = spec_info (spec_defaults e) (v_attr (vs_variant vs))) (st_vstates st).
Proof.
  unfold new_state. intros H.
  destruct (get_meta_info (ap_enum ap) (e_attr e)) as [sm|] eqn:Hsm; [|discriminate].
  destruct (mapM _ (e_variants e)) as [ms|] eqn:Hms; [|discriminate].
  cbv zeta in H.
  match type of H with match mapM ?f ?l with _ => _ end = _ => destruct (mapM f l) as [vss|] eqn:Hv; [|discriminate] end.
  inversion H; subst; cbn [st_default st_vstates]. clear H.
  apply mapM_Forall2 in Hms. apply mapM_Forall2 in Hv.
  rewrite (first_match_first_attr _ _ _ Hms) in *.
  match goal with |- ?d = _ /\ _ => assert (Hd : d = spec_defaults e) end.
  { unfold spec_defaults. destruct (e_attr e) as [eps|].
    - apply get_meta_info_some in Hsm. subst sm. rewrite into_full_meta_of. unfold spec_info; cbn.
      destruct (first_attr_of (e_variants e)) as [ps|]; cbn.
      + destruct (has POwned ps), (has PRef ps), (has PRefMut ps), (has POwned eps), (has PRef eps), (has PRefMut eps); reflexivity.
      + destruct (has POwned eps), (has PRef eps), (has PRefMut eps); reflexivity.
    - apply get_meta_info_none in Hsm. subst sm. rewrite into_full_meta_none. cbn.
      destruct (first_attr_of (e_variants e)) as [ps|]; cbn.
      + rewrite negb_involutive.
        destruct (has POwned ps), (has PRef ps), (has PRefMut ps); reflexivity.
      + reflexivity. }
  split; [exact Hd|]. rewrite Hd in Hv.
  apply Forall_forall. intros vs Hin.
  destruct (Forall2_In_r _ _ _ _ Hv Hin) as ([vr info] & Hc & Hf).
  unfold from_variant in Hf. destruct (mapM _ (v_fields vr)); [|discriminate]. inversion Hf; subst; cbn.
  destruct (Forall2_combine_map _ _ _ _ _ _ Hms Hc) as (i & -> & Hi).
  destruct (v_attr vr) as [ps|].
  - apply get_meta_info_some in Hi. subst i. apply into_full_meta_of.
  - apply get_meta_info_none in Hi. subst i. apply into_full_meta_none.
Qed.

(** the defect behind KNOWN_FINDINGS `variant-level-ref-attr`, third symptom: the first attributed variant
    names ref_mut together with ref or owned *)
Definition owned_quirk (e : enum) : bool :=
  match first_attr_of (e_variants e) with
  | Some ps => has PRefMut ps && (has PRef ps || has POwned ps)
  | None => false
  end.

(** next to an enum-level list (without [ignore]) the documented reading holds: a variant is enabled iff it
    does not say [ignore], it has the reference kinds of the enum's list plus its own, and the by-value
    kind unless [owned_quirk] *)
Theorem selection_rule_anchored ap e st eps vs :
  new_state ap e = Some st -> e_attr e = Some eps -> has PIgnore eps = false -> In vs (st_vstates st) ->
  let ps := match v_attr (vs_variant vs) with Some ps => ps | None => [] end in
  fi_enabled (vs_info vs) = negb (has PIgnore ps) /\
  fi_ref (vs_info vs) = has PRef eps || has PRef ps /\
  fi_mut (vs_info vs) = has PRefMut eps || has PRefMut ps /\
  fi_owned (vs_info vs) = has POwned eps || has POwned ps || negb (owned_quirk e).
Proof.
  intros Hst He Hi Hin. destruct (state_closed_form _ _ _ Hst) as [_ HF].
  rewrite Forall_forall in HF. rewrite (HF _ Hin). unfold spec_defaults, owned_quirk. rewrite He, Hi.
  destruct (v_attr (vs_variant vs)) as [ps|]; cbn;
    destruct (first_attr_of (e_variants e)) as [fp|]; cbn;
    repeat match goal with |- context [has ?p ?l] => destruct (has p l) end; auto.
Qed.

Section Growth.
Variable to_snake : str -> str.

(** Unwrap / TryUnwrap, all inputs: an enabled variant has the accessor of kind [m] iff the ENUM's defaults
    have [m] - a list written on the variant never matters (this contains the known finding) *)
Definition mode_flag (m : smode) (d : full) : bool :=
  match m with MMove => fi_owned d | MRef => fi_ref d | MRefMut => fi_mut d end.

Theorem unwrap_accessor_iff pre e st fs vs m :
  NoDup (names e) -> new_state ap_refs e = Some st -> expand_unwrap_like to_snake pre e = EOk fs ->
  In vs (enabled_vstates st) ->
  ((exists f, In f fs /\ vp_ident (uw_pat f) = v_ident (vs_variant vs) /\ uw_mode f = m)
   <-> mode_flag m (spec_defaults e) = true).
Proof.
  intros Hnd Hst Hex Hvs.
  destruct (expand_unwrap_inv _ _ _ _ Hex) as (st' & fss & Hst' & HF & ->). assert (st' = st) by congruence; subst st'.
  destruct (state_closed_form _ _ _ Hst) as [Hd HI]. rewrite Forall_forall in HI.
  pose proof (enabled_sub _ _ Hvs) as [Hvin _].
  assert (Hflag : forall vs0, In vs0 (st_vstates st) ->
            mode_flag m (vs_info vs0) && mode_flag m (st_default st) = mode_flag m (spec_defaults e)).
  { intros vs0 H0. rewrite (HI _ H0), Hd. destruct (v_attr (vs_variant vs0)) as [ps|]; destruct m; cbn;
      repeat match goal with |- context [has ?p ?l] => destruct (has p l) end;
      try reflexivity; apply andb_diag. }
  split.
  - intros (f & Hin & Hid & Hm).
    destruct (in_concat_F2 _ _ _ _ HF Hin) as (vs0 & l & Hvs0 & Hl & Hfl).
    destruct (unwrap_fns_shape _ _ _ _ _ _ Hl Hfl) as (sh & suf & _ & _ & _ & _ & Hmode).
    pose proof (enabled_sub _ _ Hvs0) as [H0 _]. rewrite <- (Hflag _ H0).
    destruct Hmode as [(Hm' & _ & E)|[(Hm' & _ & E)|(Hm' & _ & E)]]; rewrite Hm' in Hm; subst m; exact E.
  - intros Hfl. destruct (Forall2_In_l _ _ _ _ HF Hvs) as (l & Hl & Hfn).
    rewrite <- (Hflag _ Hvin) in Hfl.
    assert (exists f, In f l /\ vp_ident (uw_pat f) = v_ident (vs_variant vs) /\ uw_mode f = m) as (f & Hf & ? & ?).
    { unfold unwrap_fns in Hfn.
      destruct (format_ident _ _ [] _); [|discriminate].
      destruct (format_ident _ _ s_ref _); [|discriminate].
      destruct (format_ident _ _ s_mut _); [|discriminate].
      destruct (get_field_info _) as [[sh ret]|]; [|discriminate].
      inversion Hfn; subst l; clear Hfn. destruct m; cbn [mode_flag] in Hfl; rewrite Hfl.
      - eexists; split; [apply in_or_app; left; left; reflexivity|]. cbn; auto.
      - eexists; split; [apply in_or_app; right; apply in_or_app; left; left; reflexivity|]. cbn; auto.
      - eexists; split; [apply in_or_app; right; apply in_or_app; right; left; reflexivity|]. cbn; auto. }
    exists f; repeat split; auto. apply in_concat. exists l; split; auto.
Qed.

(** IsVariant without any attribute: one [is_*] per variant, in order, and on every value exactly one of them
    is true - the one of the value's variant *)
Theorem is_variant_partition e fs v :
  NoDup (names e) -> e_attr e = None -> Forall (fun vr => v_attr vr = None) (e_variants e) ->
  expand_is_variant to_snake e = EOk fs -> wf_value e v ->
  map (fun f => vp_ident (if_pat f)) fs = map v_ident (e_variants e) /\
  length (filter (fun f => eval_is e f v) fs) = 1.
Proof.
  intros Hnd He Hv Hex (vrt & Ht & _).
  destruct (expand_is_inv _ _ _ Hex) as (st & Hst & _).
  destruct (state_closed_form _ _ _ Hst) as [_ HI]. rewrite Forall_forall in HI, Hv.
  assert (Hfa : first_attr_of (e_variants e) = None).
  { clear - Hv. induction (e_variants e) as [|vr l IH]; cbn; auto.
    rewrite (Hv vr (or_introl eq_refl)). apply IH. intros x Hx. apply Hv. right; exact Hx. }
  assert (Hen : forall vs, In vs (st_vstates st) -> fi_enabled (vs_info vs) = true).
  { intros vs Hin. rewrite (HI _ Hin).
    assert (Hvv : In (vs_variant vs) (e_variants e)).
    { rewrite <- (new_state_variants _ _ _ Hst). apply in_map; exact Hin. }
    rewrite (Hv _ Hvv). unfold spec_info, spec_defaults. rewrite He, Hfa. reflexivity. }
  split.
  - rewrite (is_variant_covers _ _ _ _ Hst Hex). unfold enabled_vstates.
    rewrite <- (new_state_variants _ _ _ Hst), map_map. f_equal.
    clear - Hen. induction (st_vstates st) as [|a l IH]; cbn; auto.
    rewrite (Hen a (or_introl eq_refl)). f_equal. apply IH. intros x Hx; apply Hen; right; exact Hx.
  - destruct (vstate_of_variant _ _ _ _ _ Hst Ht) as (vs & Hvs & _).
    rewrite (is_variant_exactly_one _ _ _ _ _ _ Hnd Hst Hex Hvs).
    rewrite (Hen vs (nth_error_In _ _ Hvs)). reflexivity.
Qed.

End Growth.

(** the fall-through block lists every variant: on every value exactly one of its arms matches (ignored
    variants take part in the partition) *)
Theorem failed_block_partition ap e st m v :
  NoDup (names e) -> new_state ap e = Some st -> wf_value e v ->
  length (filter (fun p => is_some (match_vpat (e_variants e) m p v)) (failed_block st)) = 1.
Proof.
  intros Hnd Hst (vrt & Ht & _).
  destruct (vstate_of_variant _ _ _ _ _ Hst Ht) as (vs & Hvs & Hvv).
  unfold failed_block.
  set (q := fun vs0 : vstate => str_eqb (id_name (v_ident (vs_variant vs0))) (id_name (v_ident (vs_variant vs)))).
  assert (H : forall l, length (filter (fun p => is_some (match_vpat (e_variants e) m p v))
                         (map (fun vs0 => {| vp_ident := v_ident (vs_variant vs0); vp_shape := data_rest (v_kind (vs_variant vs0)) |}) l))
                       = length (filter q l)).
  { induction l as [|a l IH]; cbn [map filter]; auto.
    rewrite (match_rest _ _ _ _ _ _ Ht). unfold q at 1. unfold ident_eqb. rewrite Hvv.
    destruct (str_eqb _ _); cbn; rewrite IH; reflexivity. }
  rewrite H. unfold q.
  rewrite (filter_singleton (fun vs0 => id_name (v_ident (vs_variant vs0))) _ _ _ (vstates_nodup _ _ _ Hst Hnd) Hvs).
  reflexivity.
Qed.

(** the TryInto face of the first-match defect: the by-value conversion of a non-ignored variant whose field
    types are the target's fails although the impl exists
    ([#[try_into(ref)] enum E { #[try_into(owned, ref_mut)] A(T0), B(T0) }], [T0::try_from(E::B(x))]) *)
Definition tiq_enum : enum :=
  {| e_attr := Some [PRef];
     e_variants := [ {| v_ident := {| id_raw := false; id_name := [97]%N |}; v_kind := KTuple;
                        v_fields := [ {| f_ty := 0%N; f_attr := None |} ]; v_attr := Some [POwned; PRefMut] |};
                     {| v_ident := {| id_raw := false; id_name := [98]%N |}; v_kind := KTuple;
                        v_fields := [ {| f_ty := 0%N; f_attr := None |} ]; v_attr := None |} ] |}.

Theorem try_into_owned_default_refuted :
  exists e im v vr, wf_enum e /\ wf_value e v /\ nth_error (e_variants e) (tag v) = Some vr /\ v_attr vr = None /\
    map f_ty (v_fields vr) = ti_types im /\ ti_mode im = MMove /\
    (exists ims, expand_try_into e = EOk ims /\ In im ims) /\
    eval_try_from e im v = IErr (Whole MMove v).
Proof.
  exists tiq_enum.
  eexists {| ti_mode := MMove; ti_types := [0%N]; ti_matchers := _; ti_vars := _; ti_variant_names := _ |}.
  exists {| tag := 1; payload := [7%N] |}. eexists.
  split. { split; [unfold names; cbn; repeat constructor; cbn; intuition discriminate|repeat constructor; intros H; discriminate]. }
  split. { eexists; split; reflexivity. }
  split; [reflexivity|]. split; [reflexivity|]. split; [reflexivity|]. split; [reflexivity|].
  split.
  - eexists; split; [vm_compute; reflexivity|]. left; reflexivity.
  - vm_compute. reflexivity.
Qed.

(* ------------------------------------------------------------------ failure messages *)

Section Messages.
Variable to_snake : str -> str.

(** the panic payload / the error's [Display] name the called function and the value's own variant *)
Theorem unwrap_failure_message ename pre e fs f x vr v :
  wf_enum e -> expand_unwrap_like to_snake pre e = EOk fs -> In f fs ->
  nth_error (e_variants e) x = Some vr -> vp_ident (uw_pat f) = v_ident vr -> wf_value e v -> tag v <> x ->
  exists vr', nth_error (e_variants e) (tag v) = Some vr' /\
    unwrap_message ename (eval_unwrap e f v) = Some (panic_msg ename (uw_name f) (v_ident vr')) /\
    try_unwrap_message ename (eval_try_unwrap e f v) = Some (try_unwrap_error_display ename (uw_name f) (v_ident vr')).
Proof.
  intros Hwf Hex Hin Hx Hid Hv Hne.
  destruct (unwrap_spec _ _ _ _ _ _ _ _ Hwf Hex Hin Hx Hid Hv) as [_ H1].
  destruct (try_unwrap_spec _ _ _ _ _ _ _ _ Hwf Hex Hin Hx Hid Hv) as [_ H2].
  destruct (H1 Hne) as (vr' & Hn & E1). destruct (H2 Hne) as (vr'' & Hn' & E2).
  assert (vr'' = vr') by congruence; subst vr''.
  exists vr'; split; auto. rewrite E1, E2. split; reflexivity.
Qed.
End Messages.

(** the variants a [TryIntoError] lists are exactly those the impl converts, in declaration order *)
Theorem try_into_names_listed e st ims im :
  new_state ap_refs e = Some st -> expand_try_into e = EOk ims -> In im ims ->
  ti_variant_names im =
  map (fun vs => v_ident (vs_variant vs)) (filter (in_group (ti_mode im, ti_types im)) (enabled_vstates st)).
Proof.
  intros Hst Hex Hin.
  destruct (expand_try_into_inv _ _ Hex) as (st' & Hst' & ->). assert (st' = st) by congruence; subst st'.
  apply in_map_iff in Hin as ([k l] & <- & Hkl). cbn.
  rewrite (group_content _ _ _ Hkl). destruct k; reflexivity.
Qed.

(* ------------------------------------------------------------------ the full attribute syntax *)

Lemma parse_item_wrapped allowed w x i : parse_item allowed (Some w) x i = None.
Proof.
  destruct x as [n|n items]; destruct n; unfold parse_item, name_allowed; cbn; try reflexivity;
    match goal with |- context [existsb ?f ?l] => destruct (existsb f l) end; reflexivity.
Qed.

Lemma name_allowed_param allowed n p : param_of_name n = Some p -> name_allowed allowed n = existsb (param_eqb p) allowed.
Proof. unfold name_allowed. intros ->. reflexivity. Qed.

(** nested lists are only ever accepted when empty ([owned()], [not()]); everything else is a flat list *)
Theorem parse_items_flat allowed items i :
  parse_items allowed None items i =
  match flatten_items items with Some ps => apply_params allowed ps i | None => None end.
Proof.
  revert i; induction items as [|x r IH]; intros i; [reflexivity|].
  cbn [parse_items flatten_items]. destruct x as [n|n l].
  - (* a path *)
    cbn [parse_item]. destruct (param_of_name n) as [p|] eqn:Ep.
    + rewrite (name_allowed_param _ _ _ Ep).
      destruct (existsb (param_eqb p) allowed) eqn:Ea; cbn [negb].
      * rewrite IH. destruct (flatten_items r) as [ps|]; [|reflexivity].
        cbn [apply_params]. rewrite Ea. reflexivity.
      * destruct (flatten_items r) as [ps|]; [|reflexivity]. cbn [apply_params]. rewrite Ea. reflexivity.
    + unfold name_allowed. rewrite Ep. reflexivity.
  - (* a list *)
    destruct l as [|y l'].
    + destruct n; cbn [parse_item is_some].
      * (* ignore() *) destruct (name_allowed allowed NIgnore); reflexivity.
      * destruct (existsb (param_eqb POwned) allowed) eqn:Ea;
          unfold name_allowed; cbn [param_of_name]; rewrite Ea; cbn [negb].
        -- rewrite IH. destruct (flatten_items r); [|reflexivity]. cbn [apply_params]. rewrite Ea. reflexivity.
        -- destruct (flatten_items r); [|reflexivity]. cbn [apply_params]. rewrite Ea. reflexivity.
      * destruct (existsb (param_eqb PRef) allowed) eqn:Ea;
          unfold name_allowed; cbn [param_of_name]; rewrite Ea; cbn [negb].
        -- rewrite IH. destruct (flatten_items r); [|reflexivity]. cbn [apply_params]. rewrite Ea. reflexivity.
        -- destruct (flatten_items r); [|reflexivity]. cbn [apply_params]. rewrite Ea. reflexivity.
      * destruct (existsb (param_eqb PRefMut) allowed) eqn:Ea;
          unfold name_allowed; cbn [param_of_name]; rewrite Ea; cbn [negb].
        -- rewrite IH. destruct (flatten_items r); [|reflexivity]. cbn [apply_params]. rewrite Ea. reflexivity.
        -- destruct (flatten_items r); [|reflexivity]. cbn [apply_params]. rewrite Ea. reflexivity.
      * (* not() *) apply IH.
      * reflexivity.
    + (* a non-empty nested list is always rejected *)
      assert (H : parse_item allowed None (MList n (y :: l')) i = None).
      { destruct n; cbn [parse_item is_some]; try rewrite parse_item_wrapped; try reflexivity;
          destruct (name_allowed allowed _); cbn [negb]; try reflexivity;
          cbn [param_of_name]; rewrite parse_item_wrapped; reflexivity. }
      rewrite H. destruct n; reflexivity.
Qed.

(** [get_meta_info] on the real attribute syntax = [get_meta_info] of the model on the flattened attribute
    (for the parameter sets of these derives, which all contain [ignore]) *)
Theorem get_meta_info_rich_lower allowed attrs :
  existsb (param_eqb PIgnore) allowed = true ->
  get_meta_info_rich allowed attrs =
  match lower_attrs attrs with Some a => get_meta_info allowed a | None => None end.
Proof.
  intros Hi. destruct attrs as [|a rest]; [reflexivity|].
  destruct allowed as [|a0 al]; [discriminate|].
  destruct rest as [|b rest'].
  - destruct a; cbn [get_meta_info_rich lower_attrs].
    + rewrite Hi. unfold get_meta_info. rewrite Hi. reflexivity.
    + rewrite parse_items_flat. destruct (flatten_items items) as [ps|]; [|reflexivity].
      unfold get_meta_info. rewrite Hi. reflexivity.
    + reflexivity.
  - cbn [get_meta_info_rich lower_attrs]. destruct a; reflexivity.
Qed.

Definition item_of (p : param) : mitem :=
  MPath (match p with PIgnore => NIgnore | POwned => NOwned | PRef => NRef | PRefMut => NRefMut end).
Definition rich_of_attr (a : attr) : list rattr :=
  match a with None => [] | Some [] => [RPath] | Some ps => [RList (map item_of ps)] end.

(** the flat syntax of the model is a sub-language of the full one *)
Theorem lower_rich_of_attr a : lower_attrs (rich_of_attr a) = Some a.
Proof.
  destruct a as [[|p ps]|]; try reflexivity.
  cbn [rich_of_attr lower_attrs].
  assert (H : forall l, flatten_items (map item_of l) = Some l).
  { induction l as [|q l IH]; [reflexivity|]. cbn [map flatten_items item_of].
    destruct q; cbn [param_of_name]; rewrite IH; reflexivity. }
  rewrite H. reflexivity.
Qed.

Module GrowthExamples.
  Import Examples.
  (** [#[x(owned(), not(), ref)]] is [#[x(owned, ref)]]; [#[x(owned(ignore))]], two attributes, [#[x = ..]] are errors *)
  Example rich_ok :
    get_meta_info_rich (ap_variant ap_refs) [RList [MList NOwned []; MList NNot []; MPath NRef]]
    = get_meta_info (ap_variant ap_refs) (Some [POwned; PRef]).
  Proof. reflexivity. Qed.
  Example rich_errors :
    get_meta_info_rich (ap_variant ap_refs) [RList [MList NOwned [MPath NIgnore]]] = None /\
    get_meta_info_rich (ap_variant ap_refs) [RPath; RPath] = None /\
    get_meta_info_rich (ap_variant ap_refs) [RNameValue] = None /\
    get_meta_info_rich (ap_variant ap_refs) [RList [MList NNot [MPath NIgnore]]] = None /\
    get_meta_info_rich (ap_variant ap_is_variant) [RList [MPath NRef]] = None.
  Proof. repeat split; reflexivity. Qed.
  (** the anchored rule on ex2 ([#[x(owned, ref)]], variants without attribute, one ignored) *)
  Example ex2_anchored : exists st, new_state ap_refs ex2 = Some st /\
    map (fun vs => ref_types (vs_info vs)) (enabled_vstates st) = [[MMove; MRef]; [MMove; MRef]; [MMove; MRef]; [MMove; MRef]].
  Proof. eexists; split; vm_compute; reflexivity. Qed.
  Example quirk_sat : owned_quirk tiq_enum = true /\ owned_quirk ex2 = false.
  Proof. split; reflexivity. Qed.
  Example messages :
    panic_msg [69]%N (s_unwrap ++ [98]%N) (id_ [100]%N)
    = [99;97;108;108;101;100;32;96;69;58;58;117;110;119;114;97;112;95;98;40;41;96;32;111;110;32;97;32;96;69;58;58;100;96;32;118;97;108;117;101]%N.
  Proof. reflexivity. Qed.
End GrowthExamples.

(* ------------------------------------------------------------------ coherence of the rendered Self types *)

Lemma NoDup_map_inj_in {A B} (f : A -> B) l :
  (forall x y, In x l -> In y l -> f x = f y -> x = y) -> NoDup l -> NoDup (map f l).
Proof.
  induction l as [|a l IH]; intros Hinj Hnd; cbn; [constructor|].
  inversion Hnd as [|? ? Hni Hnd']; subst. constructor.
  - intros Hin. apply in_map_iff in Hin as (x & Hx & Hin). apply Hni.
    rewrite (Hinj a x); auto; [left; reflexivity|right; exact Hin].
  - apply IH; auto. intros x y Hx Hy. apply Hinj; right; assumption.
Qed.

(** as long as no by-value impl has a single tuple-typed field as its whole target, the impls rustc sees are
    pairwise distinct (same reference kind, same rendered Self type -> same impl) *)
Theorem try_into_coherent_rendered tuple_of e ims :
  expand_try_into e = EOk ims ->
  (forall im t, In im ims -> ti_mode im = MMove -> ti_types im = [t] -> tuple_of t = None) ->
  NoDup (map (fun im => (ti_mode im, target tuple_of (ti_mode im) (ti_types im))) ims).
Proof.
  intros Hex Hno. pose proof (try_into_coherent _ _ Hex) as Hnd.
  set (g := fun k : smode * list N => (fst k, target tuple_of (fst k) (snd k))).
  assert (Hinj : forall x y, In x (map (fun im => (ti_mode im, ti_types im)) ims) ->
                             In y (map (fun im => (ti_mode im, ti_types im)) ims) -> g x = g y -> x = y).
  { intros [m1 l1] [m2 l2] H1 H2 E. unfold g in E; cbn in E. inversion E as [[Em Et]]; subst m2. f_equal.
    apply in_map_iff in H1 as (im1 & E1 & Hi1). apply in_map_iff in H2 as (im2 & E2 & Hi2).
    inversion E1; subst. inversion E2 as [[Em2 El2]]. subst l2.
    assert (Hs : forall im l, In im ims -> ti_mode im = ti_mode im1 -> ti_types im = l ->
                 forall t, l = [t] -> target tuple_of (ti_mode im1) l = RSingle t).
    { intros im l Hi Hm Hl t El. rewrite El in *. cbn. destruct (ti_mode im1) eqn:Emode; try reflexivity.
      rewrite (Hno im t Hi) by (assumption || congruence). reflexivity. }
    destruct (ti_types im1) as [|a [|b r]] eqn:T1; destruct (ti_types im2) as [|c [|d r']] eqn:T2;
      try (cbn in Et; congruence);
      repeat match goal with
             | H : ti_types im1 = [?x] |- _ => rewrite (Hs im1 [x] Hi1 eq_refl H x eq_refl) in Et; clear H
             | H : ti_types im2 = [?x] |- _ => rewrite (Hs im2 [x] Hi2 Em2 H x eq_refl) in Et; clear H
             end; cbn in Et; congruence. }
  pose proof (NoDup_map_inj_in g _ Hinj Hnd) as H. rewrite map_map in H. exact H.
Qed.

(** ... and without that hypothesis they are not: [enum E { C((T0, T1)), N(T0, T1) }] gets two impls of
    [TryFrom<E> for (T0, T1)] (rustc: E0119) - KNOWN_FINDINGS try-into-tuple-field-collides *)
Definition ttc_enum : enum :=
  {| e_attr := None;
     e_variants := [ {| v_ident := {| id_raw := false; id_name := [99]%N |}; v_kind := KTuple;
                        v_fields := [ {| f_ty := 2%N; f_attr := None |} ]; v_attr := None |};
                     {| v_ident := {| id_raw := false; id_name := [110]%N |}; v_kind := KTuple;
                        v_fields := [ {| f_ty := 0%N; f_attr := None |}; {| f_ty := 1%N; f_attr := None |} ]; v_attr := None |} ] |}.
Definition ttc_tuple_of (t : N) : option (list N) := if N.eqb t 2 then Some [0%N; 1%N] else None.

Theorem try_into_tuple_field_collides_refuted :
  exists tuple_of e ims im1 im2, wf_enum e /\ expand_try_into e = EOk ims /\ In im1 ims /\ In im2 ims /\
    ti_types im1 <> ti_types im2 /\ ti_mode im1 = ti_mode im2 /\
    target tuple_of (ti_mode im1) (ti_types im1) = target tuple_of (ti_mode im2) (ti_types im2).
Proof.
  exists ttc_tuple_of, ttc_enum. eexists. eexists. eexists.
  split. { split; [unfold names; cbn; repeat constructor; cbn; intuition discriminate|repeat constructor; intros H; discriminate]. }
  split; [vm_compute; reflexivity|].
  split; [left; reflexivity|]. split; [right; left; reflexivity|].
  split; [cbn; discriminate|]. split; reflexivity.
Qed.
