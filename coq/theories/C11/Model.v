(** C11 - variant accessors agree with the value's variant and never lose data.

    Executable model (no proofs) of
      impl/src/utils.rs      State::new_impl / from_variant / get_meta_info / enabled_* /
                             MultiFieldData::matcher / FullMetaInfo::ref_types
      impl/src/is_variant.rs expand
      impl/src/unwrap.rs     expand / get_field_info / failed_block
      impl/src/try_unwrap.rs expand / get_field_info / failed_block
      impl/src/try_into.rs   expand
    together with a small explicit semantics of the Rust the derives emit (a [match] on enum
    patterns with first-arm semantics and default binding modes): [match_vpat], [eval_*].
    That semantics is the trusted Layer-2 part; it is compared with rustc-compiled expansions on
    every run of tools/props/c11.py. *)
From Coq Require Import List NArith Bool Arith.
From Verif Require Import Base.Chars.
Import ListNotations.
Local Open Scope nat_scope.

(* ------------------------------------------------------------------ derive input *)

(** parameters of the legacy attribute syntax [#[unwrap(ignore, owned, ref, ref_mut)]] *)
Inductive param := PIgnore | POwned | PRef | PRefMut.

Definition param_eqb (a b : param) : bool :=
  match a, b with
  | PIgnore, PIgnore | POwned, POwned | PRef, PRef | PRefMut, PRefMut => true
  | _, _ => false
  end.

(** [None]: no [#[<trait_attr> ..]] attribute; [Some []]: bare [#[<trait_attr>]];
    [Some ps]: [#[<trait_attr>(ps)]] *)
Definition attr := option (list param).

Record ident := { id_raw : bool; id_name : str }.       (* [r#name] / [name] *)
Record field := { f_ty : N; f_attr : attr }.            (* type identity (syntactic) *)
Inductive vkind := KUnit | KTuple | KNamed.
Record variant := { v_ident : ident; v_kind : vkind; v_fields : list field; v_attr : attr }.
Record enum := { e_attr : attr; e_variants : list variant }.

(** rustc resolves [Enum::X] by name; [r#x] and [x] are the same name *)
Definition ident_eqb (a b : ident) : bool := str_eqb (id_name a) (id_name b).

(* ------------------------------------------------------------------ utils.rs: MetaInfo *)

(** utils.rs:1213 MetaInfo (the four members these derives can set) *)
Record meta := { m_enabled : option bool; m_owned : option bool; m_ref : option bool; m_mut : option bool }.
Definition meta_none : meta := {| m_enabled := None; m_owned := None; m_ref := None; m_mut := None |}.

(** utils.rs:1204 FullMetaInfo *)
Record full := { fi_enabled : bool; fi_owned : bool; fi_ref : bool; fi_mut : bool }.

(** utils.rs:1003-1037 parse_punctuated_nested_meta, [Meta::Path] arm with [wrapper_name = None] *)
Definition set_param (p : param) (i : meta) : meta :=
  match p with
  | PIgnore => {| m_enabled := Some false; m_owned := m_owned i; m_ref := m_ref i; m_mut := m_mut i |}
  | POwned => {| m_enabled := m_enabled i; m_owned := Some true; m_ref := m_ref i; m_mut := m_mut i |}
  | PRef => {| m_enabled := m_enabled i; m_owned := m_owned i; m_ref := Some true; m_mut := m_mut i |}
  | PRefMut => {| m_enabled := m_enabled i; m_owned := m_owned i; m_ref := m_ref i; m_mut := Some true |}
  end.

Fixpoint apply_params (allowed : list param) (ps : list param) (i : meta) : option meta :=
  match ps with
  | [] => Some i
  | p :: ps' => if existsb (param_eqb p) allowed then apply_params allowed ps' (set_param p i)
                else None                      (* "Attribute parameter not supported" *)
  end.

(** utils.rs:813-877 get_meta_info ([None] = a [syn::Error]) *)
Definition get_meta_info (allowed : list param) (a : attr) : option meta :=
  match a with
  | None => Some meta_none
  | Some ps =>
      match allowed with
      | [] => None                             (* "Attribute is not allowed here" *)
      | _ =>
          if negb (existsb (param_eqb PIgnore) allowed) && (match ps with [] => true | _ => false end)
          then None                            (* "Empty attribute is not allowed" *)
          else apply_params allowed ps
                 {| m_enabled := Some true; m_owned := None; m_ref := None; m_mut := None |}
      end
  end.

Definition opt_or (o : option bool) (d : bool) : bool := match o with Some b => b | None => d end.

(** utils.rs:1226-1237 MetaInfo::into_full *)
Definition into_full (i : meta) (d : full) : full :=
  {| fi_enabled := opt_or (m_enabled i) (fi_enabled d);
     fi_owned := opt_or (m_owned i) (fi_owned d);
     fi_ref := opt_or (m_ref i) (fi_ref d);
     fi_mut := opt_or (m_mut i) (fi_mut d) |}.

Definition is_none {A} (o : option A) : bool := match o with None => true | Some _ => false end.
Definition is_some {A} (o : option A) : bool := match o with None => false | Some _ => true end.

Fixpoint mapM {A B} (f : A -> option B) (l : list A) : option (list B) :=
  match l with
  | [] => Some []
  | a :: l' => match f a with
               | None => None
               | Some b => match mapM f l' with None => None | Some bs => Some (b :: bs) end
               end
  end.

(** utils.rs:279 AttrParams *)
Record attr_params := { ap_enum : list param; ap_variant : list param; ap_field : list param }.
Definition ap_is_variant : attr_params :=       (* is_variant.rs:12-17 *)
  {| ap_enum := [PIgnore]; ap_variant := [PIgnore]; ap_field := [PIgnore] |}.
Definition ap_refs : attr_params :=             (* unwrap.rs:12-17, try_unwrap.rs:12-17, try_into.rs:18-23 *)
  {| ap_enum := [PIgnore; POwned; PRef; PRefMut]; ap_variant := [PIgnore; POwned; PRef; PRefMut];
     ap_field := [PIgnore] |}.

(* ------------------------------------------------------------------ utils.rs: State *)

(** the per-variant [State] built by utils.rs:505-556 from_variant *)
Record vstate := { vs_variant : variant; vs_info : full (* default_info *); vs_finfos : list full (* full_meta_infos *) }.
(** the enum-level [State] of utils.rs:365-503 new_impl *)
Record state := { st_default : full; st_vstates : list vstate }.

(** utils.rs:416-418 *)
Definition first_match (ms : list meta) : option meta := find (fun i => is_some (m_enabled i)) ms.
(** utils.rs:434-438 (trait_name is never "Error" here) *)
Definition default_enabled (fm : option meta) : bool :=
  match fm with None => true | Some i => negb (opt_or (m_enabled i) false) end.
(** utils.rs:448-450; Rust parses [a && b || c] as [(a && b) || c] *)
Definition default_owned (fm : option meta) : bool :=
  match fm with
  | None => true
  | Some i => (is_none (m_owned i) && is_none (m_ref i)) || is_none (m_mut i)
  end.

Definition from_variant (ap : attr_params) (x : variant * full) : option vstate :=
  let (vr, info) := x in
  match mapM (fun f => get_meta_info (ap_field ap) (f_attr f)) (v_fields vr) with
  | None => None
  | Some ms => Some {| vs_variant := vr; vs_info := info; vs_finfos := map (fun i => into_full i info) ms |}
  end.

Definition new_state (ap : attr_params) (e : enum) : option state :=
  match get_meta_info (ap_enum ap) (e_attr e) with
  | None => None
  | Some sm =>
      match mapM (fun vr => get_meta_info (ap_variant ap) (v_attr vr)) (e_variants e) with
      | None => None
      | Some ms =>
          let fm := first_match ms in
          let defaults := into_full sm {| fi_enabled := default_enabled fm; fi_owned := default_owned fm;
                                          fi_ref := false; fi_mut := false |} in
          let infos := map (fun i => into_full i defaults) ms in
          match mapM (from_variant ap) (combine (e_variants e) infos) with
          | None => None
          | Some vss => Some {| st_default := defaults; st_vstates := vss |}
          end
      end
  end.

(** utils.rs:665-672 enabled_variant_states (and, position-wise, :720-726 enabled_infos) *)
Definition enabled_vstates (st : state) : list vstate :=
  filter (fun vs => fi_enabled (vs_info vs)) (st_vstates st).

Fixpoint filter_by {A} (fl : list bool) (xs : list A) : list A :=
  match fl, xs with
  | b :: fl', x :: xs' => if b then x :: filter_by fl' xs' else filter_by fl' xs'
  | _, _ => []
  end.

Definition enabled_flags (vs : vstate) : list bool := map fi_enabled (vs_finfos vs).
(** utils.rs:674-681 enabled_fields + :594 field_types *)
Definition enabled_field_types (vs : vstate) : list N :=
  filter_by (enabled_flags vs) (map f_ty (v_fields (vs_variant vs))).
(** utils.rs:711-719 enabled_fields_indexes *)
Definition enabled_fields_indexes (vs : vstate) : list nat :=
  filter_by (enabled_flags vs) (seq 0 (length (enabled_flags vs))).

(* ------------------------------------------------------------------ emitted code: patterns *)

Inductive annot := ANone | ARef | ARefMut.               (* binding written [x] / [ref x] / [ref mut x] *)
Inductive fpat := FWild | FBind (a : annot) (var : nat). (* [_] / a binding to variable number [var] *)
Inductive shape :=
| SNone                                  (* [Enum::X]        *)
| SRest (k : vkind)                      (* [Enum::X(..)] / [Enum::X{..}] *)
| SFields (k : vkind) (ps : list fpat).  (* [Enum::X(p0, p1)] / [Enum::X{f0: p0, f1: p1}], every field listed *)
Record vpat := { vp_ident : ident; vp_shape : shape }.

(** how the scrutinee is held: [self] / [&self] / [&mut self] *)
Inductive smode := MMove | MRef | MRefMut.
Definition smode_eqb (a b : smode) : bool :=
  match a, b with MMove, MMove | MRef, MRef | MRefMut, MRefMut => true | _, _ => false end.

(** run-time values: a field object is identified by a number; a value of the enum is the
    index of its variant and the objects it holds, in declaration order *)
Definition val := N.
Record value := { tag : nat; payload : list val }.
(** what an accessor hands out: the object itself, or a (mutable) reference to that very object *)
Inductive robj := Val (x : val) | Ref (x : val) | RefMut (x : val).
(** the whole enum value, as held by the caller *)
Inductive whole := Whole (m : smode) (v : value).

Definition by_mode (m : smode) (x : val) : robj :=
  match m with MMove => Val x | MRef => Ref x | MRefMut => RefMut x end.

(** default binding modes (edition 2021): matching through [&]/[&mut] binds by reference;
    an explicit [ref] under [&] is redundant *)
Definition bind_obj (m : smode) (a : annot) (x : val) : robj :=
  match m, a with
  | MMove, ANone => Val x
  | MMove, ARef => Ref x
  | MMove, ARefMut => RefMut x
  | MRef, _ => Ref x
  | MRefMut, ARef => Ref x
  | MRefMut, _ => RefMut x
  end.

Definition env := list (nat * robj).

Fixpoint bind_fields (m : smode) (ps : list fpat) (xs : list val) : option env :=
  match ps, xs with
  | [], [] => Some []
  | p :: ps', x :: xs' =>
      match bind_fields m ps' xs' with
      | None => None
      | Some en => Some (match p with FWild => en | FBind a k => (k, bind_obj m a x) :: en end)
      end
  | _, _ => None                           (* arity mismatch: rustc rejects the pattern *)
  end.

(** does the pattern match the value, and with which bindings *)
Definition match_vpat (vars : list variant) (m : smode) (p : vpat) (v : value) : option env :=
  match nth_error vars (tag v) with
  | None => None
  | Some vr =>
      if ident_eqb (vp_ident p) (v_ident vr) then
        match vp_shape p with
        | SNone => Some []
        | SRest _ => Some []
        | SFields _ ps => bind_fields m ps (payload v)
        end
      else None
  end.

Fixpoint lookup (en : env) (k : nat) : option robj :=
  match en with
  | [] => None
  | (k', o) :: r => if Nat.eqb k k' then Some o else lookup r k
  end.
Definition lookup_all (en : env) (ks : list nat) : option (list robj) := mapM (lookup en) ks.

(** first arm whose pattern matches *)
Fixpoint first_match_arm (vars : list variant) (m : smode) (arms : list vpat) (v : value) : option (vpat * env) :=
  match arms with
  | [] => None
  | p :: r => match match_vpat vars m p v with
              | Some en => Some (p, en)
              | None => first_match_arm vars m r v
              end
  end.

(* ------------------------------------------------------------------ method names *)

Inductive expansion (A : Type) := EOk (a : A) | EErr (* syn::Error *) | EPanic.
Arguments EOk {A} a. Arguments EErr {A}. Arguments EPanic {A}.

Definition s_is : str := [105; 115; 95]%N.                                   (* "is_" *)
Definition s_unwrap : str := [117; 110; 119; 114; 97; 112; 95]%N.            (* "unwrap_" *)
Definition s_try_unwrap : str := ([116; 114; 121; 95]%N ++ s_unwrap).        (* "try_unwrap_" *)
Definition s_ref : str := [95; 114; 101; 102]%N.                             (* "_ref" *)
Definition s_mut : str := [95; 109; 117; 116]%N.                             (* "_mut" *)

(** proc_macro2's identifier validation, ASCII part (non-ASCII characters are let through) *)
Definition ident_char_ok (c : N) : bool :=
  is_ascii_letter c || is_digit c || N.eqb c c_underscore || N.leb 128 c.
Definition ident_ok (s : str) : bool :=
  match s with
  | [] => false
  | c :: _ => negb (is_digit c) && forallb ident_char_ok s
  end.

Section WithSnake.
(** [convert_case]'s [to_case(Case::Snake)]: external, modelled not verified *)
Variable to_snake : str -> str.

(** [ident.unraw().to_string()]: the name without the [r#] of a raw identifier
    (is_variant.rs:32, unwrap.rs:36/41/46, try_unwrap.rs:36/41/46) *)
Definition unraw_string (i : ident) : str := id_name i.

(** [format_ident!("<pre>{}<suf>", ident.unraw().to_string().to_case(Case::Snake))]
    (is_variant.rs:30-34, unwrap.rs:34-48, try_unwrap.rs:34-48); [None] = the panic
    "... is not a valid Ident" of quote's runtime (only if convert_case produced a non-identifier) *)
Definition format_ident (pre suf : str) (i : ident) : option str :=
  let s := pre ++ to_snake (unraw_string i) ++ suf in
  if ident_ok s then Some s else None.

(* ------------------------------------------------------------------ is_variant.rs *)

(** is_variant.rs:37-41, unwrap.rs:154-158, try_unwrap.rs:159-163 *)
Definition data_rest (k : vkind) : shape := match k with KUnit => SNone | _ => SRest k end.

Record is_fn := { if_name : str; if_pat : vpat }.

(** is_variant.rs:28-53, one loop iteration *)
Definition is_variant_fn (vs : vstate) : option is_fn :=
  let vr := vs_variant vs in
  match format_ident s_is [] (v_ident vr) with
  | None => None
  | Some n => Some {| if_name := n; if_pat := {| vp_ident := v_ident vr; vp_shape := data_rest (v_kind vr) |} |}
  end.

(** is_variant.rs:7-65 expand *)
Definition expand_is_variant (e : enum) : expansion (list is_fn) :=
  match new_state ap_is_variant e with
  | None => EErr
  | Some st => match mapM is_variant_fn (enabled_vstates st) with
               | None => EPanic
               | Some fs => EOk fs
               end
  end.

(** [matches!(self, <pat>)] with [self : &Enum] *)
Definition eval_is (e : enum) (f : is_fn) (v : value) : bool :=
  is_some (match_vpat (e_variants e) MRef (if_pat f) v).

(* ------------------------------------------------------------------ unwrap.rs / try_unwrap.rs *)

(** unwrap.rs:132-146 / try_unwrap.rs:137-151 get_field_info: (data pattern, returned variables);
    [None] = panic "cannot unwrap anonymous records" *)
Definition get_field_info (vr : variant) : option (shape * list nat) :=
  match v_kind vr with
  | KNamed => None
  | KTuple => let n := length (v_fields vr) in
              Some (SFields KTuple (map (FBind ANone) (seq 0 n)), seq 0 n)
  | KUnit => Some (SNone, [])
  end.

(** unwrap.rs:148-171 / try_unwrap.rs:153-184 failed_block: one arm per variant of the enum,
    ignored ones included *)
Definition failed_block (st : state) : list vpat :=
  map (fun vs => {| vp_ident := v_ident (vs_variant vs); vp_shape := data_rest (v_kind (vs_variant vs)) |})
      (st_vstates st).

Record uw_fn := { uw_name : str; uw_mode : smode; uw_pat : vpat; uw_ret : list nat; uw_failed : list vpat }.

(** unwrap.rs:30-118 / try_unwrap.rs:30-123, one loop iteration *)
Definition unwrap_fns (pre : str) (st : state) (vs : vstate) : option (list uw_fn) :=
  let vr := vs_variant vs in
  match format_ident pre [] (v_ident vr), format_ident pre s_ref (v_ident vr), format_ident pre s_mut (v_ident vr) with
  | Some n, Some nr, Some nm =>
      match get_field_info vr with
      | None => None
      | Some (sh, ret) =>
          let mk := fun name m => {| uw_name := name; uw_mode := m; uw_pat := {| vp_ident := v_ident vr; vp_shape := sh |};
                                     uw_ret := ret; uw_failed := failed_block st |} in
          Some ((if fi_owned (vs_info vs) && fi_owned (st_default st) then [mk n MMove] else [])
                ++ (if fi_ref (vs_info vs) && fi_ref (st_default st) then [mk nr MRef] else [])
                ++ (if fi_mut (vs_info vs) && fi_mut (st_default st) then [mk nm MRefMut] else []))
      end
  | _, _, _ => None
  end.

Definition expand_unwrap_like (pre : str) (e : enum) : expansion (list uw_fn) :=
  match new_state ap_refs e with
  | None => EErr
  | Some st => match mapM (unwrap_fns pre st) (enabled_vstates st) with
               | None => EPanic
               | Some fss => EOk (concat fss)
               end
  end.

(** unwrap.rs:7-130 expand *)
Definition expand_unwrap : enum -> expansion (list uw_fn) := expand_unwrap_like s_unwrap.
(** try_unwrap.rs:7-135 expand *)
Definition expand_try_unwrap : enum -> expansion (list uw_fn) := expand_unwrap_like s_try_unwrap.

(** [match self { <pat> => <ret>, val @ _ => match val { <arms> => panic!(msg) } }];
    the message names the function and the variant of the arm that matched *)
Inductive outcome := Returns (rs : list robj) | Panics (fn : str) (actual : ident) | Stuck.

Definition eval_unwrap (e : enum) (f : uw_fn) (v : value) : outcome :=
  match match_vpat (e_variants e) (uw_mode f) (uw_pat f) v with
  | Some en => match lookup_all en (uw_ret f) with Some rs => Returns rs | None => Stuck end
  | None => match first_match_arm (e_variants e) (uw_mode f) (uw_failed f) v with
            | Some (p, _) => Panics (uw_name f) (vp_ident p)
            | None => Stuck
            end
  end.

(** same shape; the arms are [val @ <pat> => Err(TryUnwrapError::new(val, enum, variant, func))] *)
Inductive tresult := TOk (rs : list robj) | TErr (input : whole) (fn : str) (actual : ident) | TStuck.

Definition eval_try_unwrap (e : enum) (f : uw_fn) (v : value) : tresult :=
  match match_vpat (e_variants e) (uw_mode f) (uw_pat f) v with
  | Some en => match lookup_all en (uw_ret f) with Some rs => TOk rs | None => TStuck end
  | None => match first_match_arm (e_variants e) (uw_mode f) (uw_failed f) v with
            | Some (p, _) => TErr (Whole (uw_mode f) v) (uw_name f) (vp_ident p)
            | None => TStuck
            end
  end.

(* ------------------------------------------------------------------ try_into.rs *)

Fixpoint position (i : nat) (l : list nat) : option nat :=
  match l with
  | [] => None
  | x :: r => if Nat.eqb i x then Some 0 else option_map S (position i r)
  end.

(** utils.rs:82-88 RefType::pattern_ref *)
Definition pattern_ref (m : smode) : annot := match m with MMove => ANone | MRef => ARef | MRefMut => ARefMut end.

(** utils.rs:517-524: the variant state's derive_type (a unit variant counts as Named) *)
Definition derive_kind (vr : variant) : vkind := match v_kind vr with KTuple => KTuple | _ => KNamed end.

(** utils.rs:786-804 MultiFieldData::matcher with bindings [<pattern_ref> __k] *)
Definition matcher (vs : vstate) (indexes : list nat) (a : annot) : vpat :=
  let vr := vs_variant vs in
  {| vp_ident := v_ident vr;
     vp_shape := SFields (derive_kind vr)
                   (map (fun i => match position i indexes with Some k => FBind a k | None => FWild end)
                        (seq 0 (length (v_fields vr)))) |}.

(** utils.rs:1240-1252 FullMetaInfo::ref_types *)
Definition ref_types (fi : full) : list smode :=
  (if fi_owned fi then [MMove] else []) ++ (if fi_ref fi then [MRef] else []) ++ (if fi_mut fi then [MRefMut] else []).

Definition key := (smode * list N)%type.
Fixpoint tys_eqb (a b : list N) : bool :=
  match a, b with
  | [], [] => true
  | x :: a', y :: b' => N.eqb x y && tys_eqb a' b'
  | _, _ => false
  end.
Definition key_eqb (a b : key) : bool := smode_eqb (fst a) (fst b) && tys_eqb (snd a) (snd b).

(** [variants_per_types.entry(key).or_insert_with(Vec::new).push(data)] (try_into.rs:40-43);
    the map is kept in first-insertion order (its iteration order is irrelevant) *)
Fixpoint group_insert (k : key) (vs : vstate) (g : list (key * list vstate)) : list (key * list vstate) :=
  match g with
  | [] => [(k, [vs])]
  | (k', l) :: r => if key_eqb k k' then (k', l ++ [vs]) :: r else (k', l) :: group_insert k vs r
  end.

(** try_into.rs:30-45 *)
Definition variants_per_types (st : state) : list (key * list vstate) :=
  fold_left (fun g vs =>
               fold_left (fun g m => group_insert (m, enabled_field_types vs) vs g) (ref_types (vs_info vs)) g)
            (enabled_vstates st) [].

Record ti_impl := { ti_mode : smode; ti_types : list N; ti_matchers : list vpat; ti_vars : list nat;
                    ti_variant_names : list ident }.

(** try_into.rs:49-127, one loop iteration *)
Definition try_into_impl (g : key * list vstate) : ti_impl :=
  let (k, l) := g in
  {| ti_mode := fst k; ti_types := snd k;
     ti_matchers := map (fun vs => matcher vs (enabled_fields_indexes vs) (pattern_ref (fst k))) l;
     ti_vars := seq 0 (length (snd k));
     ti_variant_names := map (fun vs => v_ident (vs_variant vs)) l |}.

(** try_into.rs:13-129 expand *)
Definition expand_try_into (e : enum) : expansion (list ti_impl) :=
  match new_state ap_refs e with
  | None => EErr
  | Some st => EOk (map try_into_impl (variants_per_types st))
  end.

(** [match value { m1 | m2 | .. => Ok((__0, __1, ..)), _ => Err(TryIntoError::new(value, ..)) }] *)
Inductive iresult := IOk (rs : list robj) | IErr (input : whole) | IStuck.

Definition eval_try_from (e : enum) (im : ti_impl) (v : value) : iresult :=
  match first_match_arm (e_variants e) (ti_mode im) (ti_matchers im) v with
  | Some (_, en) => match lookup_all en (ti_vars im) with Some rs => IOk rs | None => IStuck end
  | None => IErr (Whole (ti_mode im) v)
  end.

End WithSnake.

(* ------------------------------------------------------------------ run-time table (for the tie) *)

(** a table-driven [to_snake] for evaluation: the real [convert_case] results are passed in *)
Fixpoint assoc_str (t : list (str * str)) (s : str) : str :=
  match t with
  | [] => s
  | (k, r) :: t' => if str_eqb k s then r else assoc_str t' s
  end.

(** one canonical value per variant: the objects of variant [i] are numbered 0, 1, .. *)
Definition values_of (e : enum) : list value :=
  map (fun p => {| tag := fst p; payload := map N.of_nat (seq 0 (length (v_fields (snd p)))) |})
      (combine (seq 0 (length (e_variants e))) (e_variants e)).

Definition table_is (t : list (str * str)) (e : enum) :=
  match expand_is_variant (assoc_str t) e with
  | EOk fs => EOk (map (fun f => (if_name f, map (eval_is e f) (values_of e))) fs)
  | EErr => EErr | EPanic => EPanic
  end.
Definition table_unwrap (t : list (str * str)) (e : enum) :=
  match expand_unwrap (assoc_str t) e with
  | EOk fs => EOk (map (fun f => (uw_name f, uw_mode f, map (eval_unwrap e f) (values_of e))) fs)
  | EErr => EErr | EPanic => EPanic
  end.
Definition table_try_unwrap (t : list (str * str)) (e : enum) :=
  match expand_try_unwrap (assoc_str t) e with
  | EOk fs => EOk (map (fun f => (uw_name f, uw_mode f, map (eval_try_unwrap e f) (values_of e))) fs)
  | EErr => EErr | EPanic => EPanic
  end.
Definition table_try_into (e : enum) :=
  match expand_try_into e with
  | EOk ims => EOk (map (fun im => (ti_mode im, ti_types im, ti_variant_names im, map (eval_try_from e im) (values_of e))) ims)
  | EErr => EErr | EPanic => EPanic
  end.

(* ------------------------------------------------------------------ failure messages *)

(** [Ident]'s [Display] and [stringify!(ident)] keep the [r#] of a raw identifier *)
Definition ident_display (i : ident) : str := if id_raw i then (114 :: 35 :: id_name i)%N else id_name i.

Definition s_called : str := [99; 97; 108; 108; 101; 100; 32; 96]%N.            (* "called `" *)
Definition s_attempt : str := [65; 116; 116; 101; 109; 112; 116; 32; 116; 111; 32; 99; 97; 108; 108; 32; 96]%N.   (* "Attempt to call `" *)
Definition s_colons : str := [58; 58]%N.
Definition s_on_a : str := [40; 41; 96; 32; 111; 110; 32; 97; 32; 96]%N.             (* "()` on a `" *)
Definition s_value : str := [96; 32; 118; 97; 108; 117; 101]%N.                (* "` value" *)
Definition s_only : str := [79; 110; 108; 121; 32]%N.
Definition s_can_be : str := [32; 99; 97; 110; 32; 98; 101; 32; 99; 111; 110; 118; 101; 114; 116; 101; 100; 32; 116; 111; 32]%N.
Definition s_comma : str := [44; 32]%N.

(** unwrap.rs:160-162 [format!("called `{enum_name}::{fn_name}()` on a `{enum_name}::{variant_ident}` value")] *)
Definition panic_msg (ename fn : str) (actual : ident) : str :=
  s_called ++ ename ++ s_colons ++ fn ++ s_on_a ++ ename ++ s_colons ++ ident_display actual ++ s_value.

(** src/try_unwrap.rs:35-46 [Display for TryUnwrapError], fed by try_unwrap.rs:165-172
    ([stringify!] of the enum, the variant of the arm that matched, the function) *)
Definition try_unwrap_error_display (ename fn : str) (actual : ident) : str :=
  s_attempt ++ ename ++ s_colons ++ fn ++ s_on_a ++ ename ++ s_colons ++ ident_display actual ++ s_value.

Fixpoint join (sep : str) (l : list str) : str :=
  match l with
  | [] => []
  | [x] => x
  | x :: r => x ++ sep ++ join sep r
  end.

(** try_into.rs:74-82 output_type (the spelling of a type is proc_macro's: a parameter) *)
Definition try_into_output_type (ty_str : N -> str) (tys : list N) : str :=
  match tys with
  | [t] => ty_str t
  | _ => (40 :: join s_comma (map ty_str tys) ++ [41])%N
  end.
(** try_into.rs:83-91 variant_names *)
Definition try_into_variant_names (ids : list ident) : str := join s_comma (map ident_display ids).
(** src/convert.rs:87-95 [Display for TryIntoError] *)
Definition try_into_error_display (names out : str) : str := s_only ++ names ++ s_can_be ++ out.

(** what the caller observes of a failed accessor: the payload of the panic / the [Display] of the error *)
Definition unwrap_message (ename : str) (o : outcome) : option str :=
  match o with Panics fn a => Some (panic_msg ename fn a) | _ => None end.
Definition try_unwrap_message (ename : str) (r : tresult) : option str :=
  match r with TErr _ fn a => Some (try_unwrap_error_display ename fn a) | _ => None end.
Definition try_into_message (ty_str : N -> str) (im : ti_impl) (r : iresult) : option str :=
  match r with
  | IErr _ => Some (try_into_error_display (try_into_variant_names (ti_variant_names im))
                                           (try_into_output_type ty_str (ti_types im)))
  | _ => None
  end.

(* ------------------------------------------------------------------ the full attribute syntax *)

(** names a nested meta item can carry; [NOther] stands for every other identifier
    ([forward], [types], [source], ... : none is accepted by these derives) *)
Inductive mname := NIgnore | NOwned | NRef | NRefMut | NNot | NOther.
(** utils.rs:1141 polyfill::Meta: a path, or a path with a parenthesised list *)
Inductive mitem := MPath (n : mname) | MList (n : mname) (items : list mitem).
(** one [#[<trait_attr> ...]] attribute: [#[x]], [#[x(items)]], [#[x = ..]] *)
Inductive rattr := RPath | RList (items : list mitem) | RNameValue.

Definition param_of_name (n : mname) : option param :=
  match n with NIgnore => Some PIgnore | NOwned => Some POwned | NRef => Some PRef | NRefMut => Some PRefMut | _ => None end.
Definition name_allowed (allowed : list param) (n : mname) : bool :=
  match param_of_name n with Some p => existsb (param_eqb p) allowed | None => false end.

(** utils.rs:879-1042 parse_punctuated_nested_meta (the [types] arm needs "types" among the allowed
    parameters, which none of these derives has) *)
Fixpoint parse_item (allowed : list param) (wrapper : option mname) (it : mitem) (i : meta) {struct it} : option meta :=
  match it with
  | MList NNot items =>                                   (* :887-901 *)
      if is_some wrapper then None                        (* "multiple or nested `not` parameters" *)
      else (fix go (l : list mitem) (i : meta) : option meta :=
              match l with
              | [] => Some i
              | x :: r => match parse_item allowed (Some NNot) x i with None => None | Some i' => go r i' end
              end) items i
  | MList n items =>                                      (* :903-1001 *)
      if negb (name_allowed allowed n) then None          (* "Attribute nested parameter not supported" *)
      else
        match wrapper, n with
        | None, NOwned | None, NRef | None, NRefMut =>
            match param_of_name n with
            | Some p =>
                (fix go (l : list mitem) (i : meta) : option meta :=
                   match l with
                   | [] => Some i
                   | x :: r => match parse_item allowed (Some n) x i with None => None | Some i' => go r i' end
                   end) items (set_param p i)
            | None => None
            end
        | _, _ => None                                    (* "doesn't support nested parameter `..` here" *)
        end
  | MPath n =>                                            (* :1003-1037 *)
      if negb (name_allowed allowed n) then None          (* "Attribute parameter not supported" *)
      else
        match wrapper, param_of_name n with
        | None, Some p => Some (set_param p i)
        | _, _ => None                                    (* "doesn't support parameter `..` here" *)
        end
  end.

Fixpoint parse_items (allowed : list param) (wrapper : option mname) (l : list mitem) (i : meta) : option meta :=
  match l with
  | [] => Some i
  | x :: r => match parse_item allowed wrapper x i with None => None | Some i' => parse_items allowed wrapper r i' end
  end.

(** utils.rs:813-877 get_meta_info over the attributes named [trait_attr], in source order *)
Definition get_meta_info_rich (allowed : list param) (attrs : list rattr) : option meta :=
  match attrs with
  | [] => Some meta_none
  | a :: rest =>
      match allowed with
      | [] => None                                        (* "Attribute is not allowed here" *)
      | _ =>
          match rest with
          | _ :: _ => None                                (* "Only a single attribute is allowed" *)
          | [] =>
              let i0 := {| m_enabled := Some true; m_owned := None; m_ref := None; m_mut := None |} in
              match a with
              | RPath => if existsb (param_eqb PIgnore) allowed then Some i0 else None
              | RList items => parse_items allowed None items i0
              | RNameValue => None                        (* "doesn't support name-value format here" *)
              end
          end
      end
  end.

(** the flat parameter list a list of items amounts to (see Proofs.parse_items_flat) *)
Fixpoint flatten_items (l : list mitem) : option (list param) :=
  match l with
  | [] => Some []
  | MPath n :: r => match param_of_name n, flatten_items r with Some p, Some ps => Some (p :: ps) | _, _ => None end
  | MList NNot [] :: r => flatten_items r
  | MList n [] :: r =>
      match n, param_of_name n, flatten_items r with
      | NIgnore, _, _ => None
      | _, Some p, Some ps => Some (p :: ps)
      | _, _, _ => None
      end
  | MList _ (_ :: _) :: _ => None
  end.

Definition lower_attrs (attrs : list rattr) : option attr :=
  match attrs with
  | [] => Some None
  | [RPath] => Some (Some [])
  | [RList items] => match flatten_items items with Some ps => Some (Some ps) | None => None end
  | _ => None
  end.

Record rfield := { rf_ty : N; rf_attrs : list rattr }.
Record rvariant := { rv_ident : ident; rv_kind : vkind; rv_fields : list rfield; rv_attrs : list rattr }.
Record renum := { re_attrs : list rattr; re_variants : list rvariant }.

Definition lower_field (f : rfield) : option field :=
  match lower_attrs (rf_attrs f) with Some a => Some {| f_ty := rf_ty f; f_attr := a |} | None => None end.
Definition lower_variant (v : rvariant) : option variant :=
  match lower_attrs (rv_attrs v), mapM lower_field (rv_fields v) with
  | Some a, Some fs => Some {| v_ident := rv_ident v; v_kind := rv_kind v; v_fields := fs; v_attr := a |}
  | _, _ => None
  end.
(** an enum written with the full attribute syntax either is rejected with a [syn::Error] by one of its
    [get_meta_info] calls, or is handled exactly like the enum with the flattened attributes *)
Definition lower_enum (e : renum) : option enum :=
  match lower_attrs (re_attrs e), mapM lower_variant (re_variants e) with
  | Some a, Some vs => Some {| e_attr := a; e_variants := vs |}
  | _, _ => None
  end.

Definition assoc_ty (t : list (N * str)) (k : N) : str :=
  match find (fun p => N.eqb (fst p) k) t with Some p => snd p | None => [] end.

(** tables for the tie: the failure message is printed once per accessor, with the variant of the value left
    as a hole (the NUL identifier); by [Proofs.unwrap_failure_message] the message of a cell is this text with
    the [ident_display] of the variant the outcome names *)
Definition hole_ident : ident := {| id_raw := false; id_name := [0%N] |}.

Definition table_unwrap_m (ename : str) (t : list (str * str)) (e : enum) :=
  match expand_unwrap (assoc_str t) e with
  | EOk fs => EOk (map (fun f => (uw_name f, uw_mode f, panic_msg ename (uw_name f) hole_ident,
                                  map (eval_unwrap e f) (values_of e))) fs)
  | EErr => EErr | EPanic => EPanic
  end.
Definition table_try_unwrap_m (ename : str) (t : list (str * str)) (e : enum) :=
  match expand_try_unwrap (assoc_str t) e with
  | EOk fs => EOk (map (fun f => (uw_name f, uw_mode f, try_unwrap_error_display ename (uw_name f) hole_ident,
                                  map (eval_try_unwrap e f) (values_of e))) fs)
  | EErr => EErr | EPanic => EPanic
  end.
Definition table_try_into_m (tt : list (N * str)) (e : enum) :=
  match expand_try_into e with
  | EOk ims => EOk (map (fun im => (ti_mode im, ti_types im,
                                    try_into_error_display (try_into_variant_names (ti_variant_names im))
                                                           (try_into_output_type (assoc_ty tt) (ti_types im)),
                                    map (eval_try_from e im) (values_of e))) ims)
  | EErr => EErr | EPanic => EPanic
  end.

Definition rich (A : Type) (f : enum -> expansion A) (e : renum) : expansion A :=
  match lower_enum e with Some e' => f e' | None => EErr end.

(* ------------------------------------------------------------------ the Self type of a TryFrom impl *)

(** try_into.rs:110, the Self type [for ( <reference_with_lifetime original_types>, .. )]: a list of two or more types is a tuple
    type; a ONE-element list is a parenthesised type, i.e. the type itself - which may in turn be a tuple type
    ([tuple_of t] = its components). With a reference kind the single type is [&T], never a tuple. *)
Inductive rendered := RSingle (t : N) | RTuple (ts : list N).
Definition target (tuple_of : N -> option (list N)) (m : smode) (tys : list N) : rendered :=
  match tys with
  | [t] => match m, tuple_of t with
           | MMove, Some l => RTuple l
           | _, _ => RSingle t
           end
  | _ => RTuple tys
  end.
