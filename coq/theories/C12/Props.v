(** C12 - `TryFrom<repr>` is the exact inverse of the enum-to-integer cast: property theorems.
    [splice_parenthesised] / [generics_on_repr] are read back from /repo/impl/src/try_from.rs on
    every run (Gen/C12Flags.v, written by tools/lib/c12_gen.py).  The theorems are stated at the
    values the source has NOW (`(#last_discriminant) + #inc`, generics on the enum): the proofs
    use [eq_refl : splice_parenthesised = true] / [generics_on_repr = false], so a source that
    returns to the unparenthesised splice or to `TryFrom<repr<..>>` breaks these obligations. *)
From Coq Require Import List ZArith Bool.
Require Import Verif.Base.Chars Verif.Gen.C12Flags Verif.C12.Model Verif.C12.Proofs.
Import ListNotations.
Open Scope Z_scope.

(** [tbl] is the language-rule table (explicit, or previous + 1, every variant counted, in range);
    [enum_accepted] adds rustc's distinctness (E0081); [try_from .. = Some f] says the expansion
    compiles - see C12_compiles_* for when it does and C12_inc_literal_refuted for when not *)
Theorem C12_inverse : forall t vs tbl f,
  enum_accepted t vs tbl -> try_from splice_parenthesised t vs = Some f ->
  forall n v, f n = Ok v <-> (fieldless v = true /\ In (v, n) tbl).
Proof. exact (Proofs.inverse_paren splice_parenthesised eq_refl). Qed.
Print Assumptions C12_inverse.

Theorem C12_table_lists_variants : forall t vs tbl,
  rust_discrs t vs = Some tbl -> map fst tbl = vs /\ Forall (fun p => in_range t (snd p) = true) tbl.
Proof. exact Proofs.table_lists_variants. Qed.
Print Assumptions C12_table_lists_variants.

Theorem C12_err_carries_input : forall t vs f n m,
  try_from splice_parenthesised t vs = Some f -> f n = Err m -> m = n.
Proof. exact (Proofs.err_carries_input splice_parenthesised). Qed.
Print Assumptions C12_err_carries_input.

Theorem C12_err_iff : forall t vs tbl f,
  enum_accepted t vs tbl -> try_from splice_parenthesised t vs = Some f ->
  forall n, f n = Err n <-> (forall v, ~ (fieldless v = true /\ In (v, n) tbl)).
Proof. exact (Proofs.err_iff_paren splice_parenthesised eq_refl). Qed.
Print Assumptions C12_err_iff.

Theorem C12_out_of_range : forall t vs tbl f,
  enum_accepted t vs tbl -> try_from splice_parenthesised t vs = Some f ->
  forall n, in_range t n = false -> f n = Err n.
Proof. exact (Proofs.out_of_range_paren splice_parenthesised eq_refl). Qed.
Print Assumptions C12_out_of_range.

(** the expansion of a rustc-accepted enum compiles whenever no discriminant is negative, in
    particular for every unsigned repr ... *)
Theorem C12_compiles_nonneg : forall t vs tbl,
  enum_accepted t vs tbl -> Forall (fun p => 0 <= snd p) tbl ->
  try_from splice_parenthesised t vs = Some (first_match (filter Proofs.fl tbl)).
Proof. exact (Proofs.compiles_nonneg_paren splice_parenthesised eq_refl). Qed.
Print Assumptions C12_compiles_nonneg.

Theorem C12_compiles_unsigned : forall t vs tbl,
  signed t = false -> enum_accepted t vs tbl ->
  try_from splice_parenthesised t vs = Some (first_match (filter Proofs.fl tbl)).
Proof. exact (Proofs.compiles_unsigned_paren splice_parenthesised eq_refl). Qed.
Print Assumptions C12_compiles_unsigned.

(** ... partial for signed reprs: [inc_lits_ok] (every spliced offset literal fits the repr type)
    should not be needed; it is (known finding inc-literal-range) *)
Theorem C12_compiles_partial : forall t vs tbl,
  enum_accepted t vs tbl -> inc_lits_ok t 0 vs = true ->
  try_from splice_parenthesised t vs = Some (first_match (filter Proofs.fl tbl)).
Proof. exact (Proofs.compiles_paren splice_parenthesised eq_refl). Qed.
Print Assumptions C12_compiles_partial.

Theorem C12_inc_literal_refuted :
  exists tbl, enum_accepted I8 Proofs.Full_enum tbl /\ splice_ok false Proofs.Full_enum /\
              (forall paren, try_from paren I8 Proofs.Full_enum = None).
Proof. exact Proofs.inc_literal_refuted. Qed.
Print Assumptions C12_inc_literal_refuted.

Theorem C12_const_names_distinct : forall vs, NoDup (map vname vs) -> NoDup (map const_name vs).
Proof. exact Proofs.const_names_distinct. Qed.
Print Assumptions C12_const_names_distinct.

(* ---- repr selection *)

Theorem C12_repr_last_in_attr : forall hs, parse_attr hs = Proofs.last_opt (Proofs.ints hs).
Proof. exact Proofs.parse_attr_last. Qed.
Print Assumptions C12_repr_last_in_attr.

Theorem C12_repr_char : forall attrs,
  repr_of attrs = match Proofs.per_attr attrs with [] => Some Isize | [t] => Some t | _ => None end.
Proof. exact Proofs.repr_of_char. Qed.
Print Assumptions C12_repr_char.

Theorem C12_repr_unique : forall attrs t, int_hints attrs = [t] -> repr_of attrs = Some t.
Proof. exact Proofs.repr_unique. Qed.
Print Assumptions C12_repr_unique.

Theorem C12_repr_default : forall attrs, int_hints attrs = [] -> repr_of attrs = Some Isize.
Proof. exact Proofs.repr_default. Qed.
Print Assumptions C12_repr_default.

Theorem C12_repr_ignores_others : forall attrs, repr_of (map (filter is_int) attrs) = repr_of attrs.
Proof. exact Proofs.repr_ignores_others. Qed.
Print Assumptions C12_repr_ignores_others.

Theorem C12_repr_two_attrs_rejected : forall attrs,
  repr_of attrs = None <-> (2 <= length (Proofs.per_attr attrs))%nat.
Proof. exact Proofs.repr_two_attrs_rejected. Qed.
Print Assumptions C12_repr_two_attrs_rejected.

(* ---- impl header *)

(** the impl is provided for the enum together with all of its generic parameters *)
Theorem C12_header : forall r e ps, header_ok (gen_header generics_on_repr r e ps) r e ps.
Proof. exact (Proofs.header_on_enum generics_on_repr eq_refl). Qed.
Print Assumptions C12_header.

(** (both spellings) the header is well-formed iff the generics sit on the enum, or there are none *)
Theorem C12_header_iff : forall on_repr r e ps,
  header_ok (gen_header on_repr r e ps) r e ps <-> (on_repr = false \/ ps = []).
Proof. exact Proofs.header_iff. Qed.
Print Assumptions C12_header_iff.

(* ================================================================== growth round *)

(** `E::try_from(v as repr) == Ok(v)` for the variant at every position of the declaration *)
Theorem C12_roundtrip : forall t vs tbl f i v d,
  enum_accepted t vs tbl -> try_from splice_parenthesised t vs = Some f ->
  nth_error tbl i = Some (v, d) -> fieldless v = true -> cast_at tbl i = Some d /\ f d = Ok v.
Proof. exact (fun t vs tbl f i v d Ha => Proofs.roundtrip splice_parenthesised t vs tbl f i v d Ha (Proofs.splice_ok_paren splice_parenthesised vs eq_refl)). Qed.
Print Assumptions C12_roundtrip.

(** `try_from(n) == Ok(v)` only for a declared field-less v with `v as repr == n` *)
Theorem C12_ok_is_cast : forall t vs tbl f n v,
  enum_accepted t vs tbl -> try_from splice_parenthesised t vs = Some f -> f n = Ok v ->
  fieldless v = true /\ exists i, nth_error tbl i = Some (v, n) /\ cast_at tbl i = Some n /\ nth_error vs i = Some v.
Proof. exact (fun t vs tbl f n v Ha => Proofs.ok_is_cast splice_parenthesised t vs tbl f n v Ha (Proofs.splice_ok_paren splice_parenthesised vs eq_refl)). Qed.
Print Assumptions C12_ok_is_cast.

(** no hypothesis on the enum at all: a variant with fields is never returned *)
Theorem C12_fielded_never_ok : forall paren t vs f n v,
  try_from paren t vs = Some f -> f n = Ok v -> fieldless v = true.
Proof. exact Proofs.fielded_never_ok. Qed.
Print Assumptions C12_fielded_never_ok.

(** an enum with no field-less variant (or no variant): the impl exists, compiles, and every input is Err(input) *)
Theorem C12_no_fieldless_always_err : forall paren t vs,
  (forall v, In v vs -> fieldless v = false) ->
  exists f, try_from paren t vs = Some f /\ forall n, f n = Err n.
Proof. exact Proofs.no_fieldless_always_err. Qed.
Print Assumptions C12_no_fieldless_always_err.

(* ---- wrap-around at the type limits, stated explicitly (the meaning of `as` and `<<` in Model.eval) *)

Theorem C12_wrap_in_range : forall t z, in_range t (wrap t z) = true.
Proof. exact Proofs.wrap_in_range. Qed.
Print Assumptions C12_wrap_in_range.

Theorem C12_wrap_congruent : forall t z, exists k, wrap t z = z + k * 2 ^ bits t.
Proof. exact Proofs.wrap_congruent. Qed.
Print Assumptions C12_wrap_congruent.

Theorem C12_wrap_id : forall t z, in_range t z = true -> wrap t z = z.
Proof. exact Proofs.wrap_id. Qed.
Print Assumptions C12_wrap_id.

Theorem C12_wrap_limits : forall t, wrap t (hi t + 1) = lo t /\ wrap t (lo t - 1) = hi t.
Proof. exact Proofs.wrap_limits. Qed.
Print Assumptions C12_wrap_limits.

(** discriminants do NOT wrap: an implicit variant after MAX makes the enum unacceptable *)
Theorem C12_no_implicit_wrap : forall t v vs, vdiscr v = None -> rust_table t (hi t + 1) (v :: vs) = None.
Proof. exact Proofs.no_implicit_wrap. Qed.
Print Assumptions C12_no_implicit_wrap.

(* ---- arbitrary discriminant expressions: rustc's evaluation as an uninterpreted function *)

(** [ev] is ANY evaluation of discriminant expressions at the repr type that gives `(e) + k`, `(e)`
    and the literal 0 their Rust meaning ([evaluator_ok]); nothing is assumed about other operators,
    constants, casts, or the width of usize.  What is left to the oracle: that rustc is such an [ev]. *)
Theorem C12_inverse_any_evaluator : forall t ev, evaluator_ok t ev -> forall vs tbl f,
  rust_table_g t ev 0 vs = Some tbl -> NoDup (map snd tbl) ->
  try_from_g ev splice_parenthesised vs = Some f ->
  forall n v, f n = Ok v <-> (fieldless v = true /\ In (v, n) tbl).
Proof. exact Proofs.inverse_any_evaluator. Qed.
Print Assumptions C12_inverse_any_evaluator.

Theorem C12_err_any_evaluator : forall ev vs f n m,
  try_from_g ev splice_parenthesised vs = Some f -> f n = Err m -> m = n.
Proof. exact Proofs.err_any_evaluator. Qed.
Print Assumptions C12_err_any_evaluator.

Theorem C12_any_evaluator_instance : forall t,
  evaluator_ok t (eval t) /\
  (forall vs, rust_table_g t (eval t) 0 vs = rust_discrs t vs) /\
  (forall paren vs, try_from_g (eval t) paren vs = try_from paren t vs).
Proof. exact Proofs.any_evaluator_instance. Qed.
Print Assumptions C12_any_evaluator_instance.

(* ---- which items get an impl *)

Theorem C12_impl_iff : forall k r tf,
  expand_decision k r tf = DImpl <-> (k = KEnum /\ repr_of r <> None /\ tf = [TARepr]).
Proof. exact Proofs.impl_iff. Qed.
Print Assumptions C12_impl_iff.

Theorem C12_no_impl_iff : forall k r tf,
  expand_decision k r tf = DNoImpl <-> (k = KEnum /\ repr_of r <> None /\ tf = []).
Proof. exact Proofs.no_impl_iff. Qed.
Print Assumptions C12_no_impl_iff.

(* ---- impl header with inline bounds, defaults and a where-clause *)

(** every generic parameter reappears on the impl with its bounds and without its default, the
    enum is applied to all of them, the repr type to none, the where-clause is carried over *)
Theorem C12_header_full : forall r e ps w,
  Proofs.header_full_ok (gen_header_full generics_on_repr r e ps w) r e ps w.
Proof. exact (Proofs.header_full_on_enum generics_on_repr eq_refl). Qed.
Print Assumptions C12_header_full.

Theorem C12_header_full_forgets : forall on_repr r e ps w,
  let h := gen_header_full on_repr r e ps w in
  gen_header on_repr r e (map gp ps) =
  {| h_impl_params := map fst (hf_params h); h_trait_arg := hf_trait_arg h; h_self := hf_self h |}.
Proof. exact Proofs.header_full_forgets. Qed.
Print Assumptions C12_header_full_forgets.

(* ================================================================== one constant / arm per field-less variant *)

(** unconditionally (no range, distinctness or compile hypothesis): the generated constants are exactly the field-less
    variants, each once, in declaration order *)
Theorem C12_consts_variants : forall paren vs, map fst (consts paren vs) = filter fieldless vs.
Proof. exact Proofs.consts_variants. Qed.
Print Assumptions C12_consts_variants.

Theorem C12_arms_are_fieldless_in_order : forall paren t vs tbl,
  eval_consts t (consts paren vs) = Some tbl -> map fst tbl = filter fieldless vs.
Proof. exact Proofs.arms_are_fieldless_in_order. Qed.
Print Assumptions C12_arms_are_fieldless_in_order.

Theorem C12_ok_is_member : forall paren t vs f n v,
  try_from paren t vs = Some f -> f n = Ok v -> In v vs /\ fieldless v = true.
Proof. exact Proofs.ok_is_member. Qed.
Print Assumptions C12_ok_is_member.
