(** C12 - `TryFrom<repr>` is the exact inverse of the enum-to-integer cast: property theorems.
    [splice_parenthesised] / [generics_on_repr] are read back from /repo/impl/src/try_from.rs on
    every run (Gen/C12Flags.v, written by tools/lib/c12_gen.py).  The theorems are stated at the
    values the source has NOW (`(#last_discriminant) + #inc`, generics on the enum): the proofs
    use [eq_refl : splice_parenthesised = true] / [generics_on_repr = false], so a source that
    returns to the unparenthesised splice or to `TryFrom<repr<..>>` breaks these obligations. *)
From Coq Require Import List ZArith Bool.
Require Import Verif.Base.Chars Verif.Gen.C12Flags Verif.C12.Model Verif.C12.Proofs.
Import ListNotations.
Open Scope Z_scope.

(** [tbl] is the language-rule table (explicit, or previous + 1, every variant counted, in range);
    [enum_accepted] adds rustc's distinctness (E0081); [try_from .. = Some f] says the expansion
    compiles - see C12_compiles_* for when it does and C12_inc_literal_refuted for when not *)
Theorem C12_inverse : forall t vs tbl f,
  enum_accepted t vs tbl -> try_from splice_parenthesised t vs = Some f ->
  forall n v, f n = Ok v <-> (fieldless v = true /\ In (v, n) tbl).
Proof. exact (Proofs.inverse_paren splice_parenthesised eq_refl). Qed.
Print Assumptions C12_inverse.

Theorem C12_table_lists_variants : forall t vs tbl,
  rust_discrs t vs = Some tbl -> map fst tbl = vs /\ Forall (fun p => in_range t (snd p) = true) tbl.
Proof. exact Proofs.table_lists_variants. Qed.
Print Assumptions C12_table_lists_variants.

Theorem C12_err_carries_input : forall t vs f n m,
  try_from splice_parenthesised t vs = Some f -> f n = Err m -> m = n.
Proof. exact (Proofs.err_carries_input splice_parenthesised). Qed.
Print Assumptions C12_err_carries_input.

Theorem C12_err_iff : forall t vs tbl f,
  enum_accepted t vs tbl -> try_from splice_parenthesised t vs = Some f ->
  forall n, f n = Err n <-> (forall v, ~ (fieldless v = true /\ In (v, n) tbl)).
Proof. exact (Proofs.err_iff_paren splice_parenthesised eq_refl). Qed.
Print Assumptions C12_err_iff.

Theorem C12_out_of_range : forall t vs tbl f,
  enum_accepted t vs tbl -> try_from splice_parenthesised t vs = Some f ->
  forall n, in_range t n = false -> f n = Err n.
Proof. exact (Proofs.out_of_range_paren splice_parenthesised eq_refl). Qed.
Print Assumptions C12_out_of_range.

(** the expansion of a rustc-accepted enum compiles whenever no discriminant is negative, in
    particular for every unsigned repr ... *)
Theorem C12_compiles_nonneg : forall t vs tbl,
  enum_accepted t vs tbl -> Forall (fun p => 0 <= snd p) tbl ->
  try_from splice_parenthesised t vs = Some (first_match (filter Proofs.fl tbl)).
Proof. exact (Proofs.compiles_nonneg_paren splice_parenthesised eq_refl). Qed.
Print Assumptions C12_compiles_nonneg.

Theorem C12_compiles_unsigned : forall t vs tbl,
  signed t = false -> enum_accepted t vs tbl ->
  try_from splice_parenthesised t vs = Some (first_match (filter Proofs.fl tbl)).
Proof. exact (Proofs.compiles_unsigned_paren splice_parenthesised eq_refl). Qed.
Print Assumptions C12_compiles_unsigned.

(** ... partial for signed reprs: [inc_lits_ok] (every spliced offset literal fits the repr type)
    should not be needed; it is (known finding inc-literal-range) *)
Theorem C12_compiles_partial : forall t vs tbl,
  enum_accepted t vs tbl -> inc_lits_ok t 0 vs = true ->
  try_from splice_parenthesised t vs = Some (first_match (filter Proofs.fl tbl)).
Proof. exact (Proofs.compiles_paren splice_parenthesised eq_refl). Qed.
Print Assumptions C12_compiles_partial.

Theorem C12_inc_literal_refuted :
  exists tbl, enum_accepted I8 Proofs.Full_enum tbl /\ splice_ok false Proofs.Full_enum /\
              (forall paren, try_from paren I8 Proofs.Full_enum = None).
Proof. exact Proofs.inc_literal_refuted. Qed.
Print Assumptions C12_inc_literal_refuted.

Theorem C12_const_names_distinct : forall vs, NoDup (map vname vs) -> NoDup (map const_name vs).
Proof. exact Proofs.const_names_distinct. Qed.
Print Assumptions C12_const_names_distinct.

(* ---- repr selection *)

Theorem C12_repr_last_in_attr : forall hs, parse_attr hs = Proofs.last_opt (Proofs.ints hs).
Proof. exact Proofs.parse_attr_last. Qed.
Print Assumptions C12_repr_last_in_attr.

Theorem C12_repr_char : forall attrs,
  repr_of attrs = match Proofs.per_attr attrs with [] => Some Isize | [t] => Some t | _ => None end.
Proof. exact Proofs.repr_of_char. Qed.
Print Assumptions C12_repr_char.

Theorem C12_repr_unique : forall attrs t, int_hints attrs = [t] -> repr_of attrs = Some t.
Proof. exact Proofs.repr_unique. Qed.
Print Assumptions C12_repr_unique.

Theorem C12_repr_default : forall attrs, int_hints attrs = [] -> repr_of attrs = Some Isize.
Proof. exact Proofs.repr_default. Qed.
Print Assumptions C12_repr_default.

Theorem C12_repr_ignores_others : forall attrs, repr_of (map (filter is_int) attrs) = repr_of attrs.
Proof. exact Proofs.repr_ignores_others. Qed.
Print Assumptions C12_repr_ignores_others.

Theorem C12_repr_two_attrs_rejected : forall attrs,
  repr_of attrs = None <-> (2 <= length (Proofs.per_attr attrs))%nat.
Proof. exact Proofs.repr_two_attrs_rejected. Qed.
Print Assumptions C12_repr_two_attrs_rejected.

(* ---- impl header *)

(** the impl is provided for the enum together with all of its generic parameters *)
Theorem C12_header : forall r e ps, header_ok (gen_header generics_on_repr r e ps) r e ps.
Proof. exact (Proofs.header_on_enum generics_on_repr eq_refl). Qed.
Print Assumptions C12_header.

(** (both spellings) the header is well-formed iff the generics sit on the enum, or there are none *)
Theorem C12_header_iff : forall on_repr r e ps,
  header_ok (gen_header on_repr r e ps) r e ps <-> (on_repr = false \/ ps = []).
Proof. exact Proofs.header_iff. Qed.
Print Assumptions C12_header_iff.
