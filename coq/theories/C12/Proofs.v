(** C12 - proofs about the model of `#[derive(TryFrom)] #[try_from(repr)]`. *)
From Coq Require Import List ZArith Bool Lia.
Require Import Verif.Base.Chars.
Require Import Verif.C12.Model.
Import ListNotations.
Open Scope Z_scope.

(* ------------------------------------------------------------------ small facts *)

Lemma obind_some {A B} (o : option A) (f : A -> option B) b :
  obind o f = Some b -> exists a, o = Some a /\ f a = Some b.
Proof. destruct o as [a|]; cbn; intros H; [eauto | discriminate]. Qed.

Lemma check_some t z d : check t z = Some d -> d = z /\ in_range t z = true.
Proof. unfold check. destruct (in_range t z); intros H; inversion H; auto. Qed.

Lemma check_in_range t z : in_range t z = true -> check t z = Some z.
Proof. unfold check. intros ->. reflexivity. Qed.

Lemma in_range_0 t : in_range t 0 = true.
Proof. destruct t; vm_compute; reflexivity. Qed.

(* ------------------------------------------------------------------ first-match *)

Lemma first_match_err tbl n m : first_match tbl n = Err m -> m = n.
Proof.
  induction tbl as [|[v d] tbl IH]; cbn [first_match]; intros H.
  - inversion H; reflexivity.
  - destruct (d =? n); [discriminate | auto].
Qed.

Lemma first_match_ok_in tbl n v : first_match tbl n = Ok v -> In (v, n) tbl.
Proof.
  induction tbl as [|[w d] tbl IH]; cbn [first_match]; intros H.
  - discriminate.
  - destruct (Z.eqb_spec d n) as [E|E].
    + inversion H; subst. left; reflexivity.
    + right; auto.
Qed.

Lemma first_match_nodup tbl n v :
  NoDup (map snd tbl) -> In (v, n) tbl -> first_match tbl n = Ok v.
Proof.
  induction tbl as [|[w d] tbl IH]; cbn [first_match map snd]; intros ND HI.
  - destruct HI.
  - inversion ND as [|x l NI ND']; subst.
    destruct HI as [E|HI].
    + inversion E; subst. rewrite Z.eqb_refl. reflexivity.
    + destruct (Z.eqb_spec d n) as [E|E].
      * subst. exfalso. apply NI. change n with (snd (v, n)). apply in_map. exact HI.
      * auto.
Qed.

Lemma first_match_total tbl n : (exists v, first_match tbl n = Ok v) \/ first_match tbl n = Err n.
Proof.
  destruct (first_match tbl n) as [v|m] eqn:E; [left; eauto | right].
  apply first_match_err in E. subst; reflexivity.
Qed.

Lemma NoDup_map_filter {A B} (f : A -> B) (p : A -> bool) (l : list A) :
  NoDup (map f l) -> NoDup (map f (filter p l)).
Proof.
  induction l as [|a l IH]; cbn [map filter]; intros ND; [constructor|].
  inversion ND as [|x l' NI ND']; subst.
  destruct (p a); cbn [map]; [constructor|]; auto.
  intros HI. apply NI. apply in_map_iff in HI as [y [E HY]]. apply filter_In in HY as [HY _].
  apply in_map_iff. eauto.
Qed.

(* ------------------------------------------------------------------ the splice *)

Lemma splice_plus_safe e k : plus_safe e = true -> splice_plus e k = EBin Add e (ELit k).
Proof.
  destruct e as [z|ty v|a|a|o l r|a|a from]; cbn [splice_plus plus_safe]; try reflexivity.
  intros H. apply Nat.leb_le in H.
  destruct (Nat.ltb_spec (prec o) (prec Add)) as [L|L]; [lia | reflexivity].
Qed.

Definition sum_checked (t : ity) (o : option Z) (k : Z) : option Z :=
  obind o (fun x => obind (check t k) (fun y => check t (x + y))).

Lemma eval_splice paren t e k :
  paren = true \/ plus_safe e = true ->
  eval t (splice paren e k) = sum_checked t (eval t e) k.
Proof.
  intros H. unfold splice, sum_checked.
  destruct paren.
  - reflexivity.
  - destruct H as [H|H]; [discriminate|]. rewrite (splice_plus_safe _ _ H). reflexivity.
Qed.

Lemma sum_checked_some t b k c : sum_checked t (Some b) k = Some c -> c = b + k /\ in_range t k = true.
Proof.
  unfold sum_checked; cbn [obind]. intros H.
  apply obind_some in H as [y [H1 H2]]. apply check_some in H1 as [-> HR].
  apply check_some in H2 as [-> _]. auto.
Qed.

(* ------------------------------------------------------------------ consts = field-less rows of the language table *)

Definition explicit_safe (v : variant) : Prop :=
  match vdiscr v with Some e => plus_safe e = true | None => True end.

Definition fl (p : variant * Z) : bool := fieldless (fst p).

(** if the expansion compiles, its constants are exactly the language-rule discriminants of the
    field-less variants, in declaration order *)
Lemma consts_are_discrs paren t : forall vs last inc b tbl ctbl,
  (paren = true \/ plus_safe last = true) ->
  (paren = true \/ Forall explicit_safe vs) ->
  eval t last = Some b ->
  rust_table t (b + inc) vs = Some tbl ->
  eval_consts t (gen_consts paren last inc vs) = Some ctbl ->
  ctbl = filter fl tbl.
Proof.
  induction vs as [|v vs IH]; intros last inc b tbl ctbl Hl Hs Hb Hr Hc.
  - cbn in Hr, Hc. inversion Hr; inversion Hc; reflexivity.
  - cbn [rust_table] in Hr. cbn [gen_consts] in Hc.
    assert (Hs' : paren = true \/ Forall explicit_safe vs).
    { destruct Hs as [Hs|Hs]; [left; exact Hs | right; inversion Hs; assumption]. }
    assert (Hv : paren = true \/ explicit_safe v).
    { destruct Hs as [Hs|Hs]; [left; exact Hs | right; inversion Hs; assumption]. }
    apply obind_some in Hr as [d [Hd Hr]]. apply obind_some in Hr as [tl [Hr Htbl]].
    inversion Htbl; subst tbl; clear Htbl.
    unfold explicit_safe in Hv.
    destruct (vdiscr v) as [e|] eqn:Ev.
    + (* explicit discriminant *)
      apply obind_some in Hd as [d0 [He Hck]]. apply check_some in Hck as [-> HRd].
      assert (Hle : paren = true \/ plus_safe e = true) by (destruct Hv; auto).
      assert (Hr' : rust_table t (d0 + 1) vs = Some tl) by exact Hr.
      cbn [filter]. unfold fl at 1. cbn [fst].
      destruct (fieldless v) eqn:Fv.
      * cbn [eval_consts] in Hc.
        apply obind_some in Hc as [c [Hce Hc]]. apply obind_some in Hc as [ctl [Hc Hctbl]].
        inversion Hctbl; subst ctbl; clear Hctbl.
        rewrite (eval_splice _ _ _ _ Hle), He in Hce.
        apply sum_checked_some in Hce as [-> _].
        rewrite Z.add_0_r. f_equal.
        exact (IH e 1 d0 tl ctl Hle Hs' He Hr' Hc).
      * exact (IH e 1 d0 tl ctbl Hle Hs' He Hr' Hc).
    + (* implicit discriminant *)
      apply check_some in Hd as [-> HRd].
      assert (Hr' : rust_table t (b + (inc + 1)) vs = Some tl).
      { replace (b + (inc + 1)) with (b + inc + 1) by lia. exact Hr. }
      cbn [filter]. unfold fl at 1. cbn [fst].
      destruct (fieldless v) eqn:Fv.
      * cbn [eval_consts] in Hc.
        apply obind_some in Hc as [c [Hce Hc]]. apply obind_some in Hc as [ctl [Hc Hctbl]].
        inversion Hctbl; subst ctbl; clear Hctbl.
        rewrite (eval_splice _ _ _ _ Hl), Hb in Hce.
        apply sum_checked_some in Hce as [-> _].
        f_equal.
        exact (IH last (inc + 1) b tl ctl Hl Hs' Hb Hr' Hc).
      * exact (IH last (inc + 1) b tl ctbl Hl Hs' Hb Hr' Hc).
Qed.

(** ... and it does compile when, in addition, every spliced `inc` literal fits the repr type *)
Lemma consts_compile paren t : forall vs last inc b tbl,
  (paren = true \/ plus_safe last = true) ->
  (paren = true \/ Forall explicit_safe vs) ->
  eval t last = Some b ->
  rust_table t (b + inc) vs = Some tbl ->
  inc_lits_ok t inc vs = true ->
  eval_consts t (gen_consts paren last inc vs) = Some (filter fl tbl).
Proof.
  induction vs as [|v vs IH]; intros last inc b tbl Hl Hs Hb Hr Hi.
  - cbn in Hr. inversion Hr. reflexivity.
  - cbn [rust_table] in Hr. cbn [gen_consts]. cbn [inc_lits_ok] in Hi.
    assert (Hs' : paren = true \/ Forall explicit_safe vs).
    { destruct Hs as [Hs|Hs]; [left; exact Hs | right; inversion Hs; assumption]. }
    assert (Hv : paren = true \/ explicit_safe v).
    { destruct Hs as [Hs|Hs]; [left; exact Hs | right; inversion Hs; assumption]. }
    apply obind_some in Hr as [d [Hd Hr]]. apply obind_some in Hr as [tl [Hr Htbl]].
    inversion Htbl; subst tbl; clear Htbl.
    apply andb_true_iff in Hi as [Hi1 Hi2].
    unfold explicit_safe in Hv.
    destruct (vdiscr v) as [e|] eqn:Ev.
    + apply obind_some in Hd as [d0 [He Hck]]. apply check_some in Hck as [-> HRd].
      assert (Hle : paren = true \/ plus_safe e = true) by (destruct Hv; auto).
      assert (Hr' : rust_table t (d0 + 1) vs = Some tl) by exact Hr.
      cbn [filter]. unfold fl at 1. cbn [fst].
      pose proof (IH e (0 + 1) d0 tl Hle Hs' He Hr' Hi2) as IH'.
      destruct (fieldless v) eqn:Fv.
      * cbn [eval_consts]. rewrite (eval_splice _ _ _ _ Hle), He.
        unfold sum_checked; cbn [obind]. rewrite (check_in_range _ _ (in_range_0 t)). cbn [obind].
        rewrite Z.add_0_r, (check_in_range _ _ HRd). cbn [obind]. rewrite IH'. reflexivity.
      * exact IH'.
    + apply check_some in Hd as [-> HRd].
      assert (Hr' : rust_table t (b + (inc + 1)) vs = Some tl).
      { replace (b + (inc + 1)) with (b + inc + 1) by lia. exact Hr. }
      cbn [filter]. unfold fl at 1. cbn [fst].
      pose proof (IH last (inc + 1) b tl Hl Hs' Hb Hr' Hi2) as IH'.
      destruct (fieldless v) eqn:Fv.
      * cbn [eval_consts]. rewrite (eval_splice _ _ _ _ Hl), Hb.
        unfold sum_checked; cbn [obind]. rewrite (check_in_range _ _ Hi1). cbn [obind].
        rewrite (check_in_range _ _ HRd). cbn [obind]. rewrite IH'. reflexivity.
      * exact IH'.
Qed.

Lemma splice_ok_forall paren vs : splice_ok paren vs -> paren = true \/ Forall explicit_safe vs.
Proof. intros [H|H]; [left|right]; exact H. Qed.

Lemma try_from_table paren t vs tbl f :
  rust_discrs t vs = Some tbl -> splice_ok paren vs -> try_from paren t vs = Some f ->
  f = first_match (filter fl tbl).
Proof.
  intros Hr Hs Hf. unfold try_from in Hf.
  destruct (eval_consts t (consts paren vs)) as [ctbl|] eqn:Ec; [|discriminate].
  cbn in Hf. inversion Hf; subst f; clear Hf.
  f_equal. unfold consts in Ec. unfold rust_discrs in Hr.
  apply (consts_are_discrs paren t vs (ELit 0) 0 0 tbl ctbl).
  - right; reflexivity.
  - apply splice_ok_forall; exact Hs.
  - cbn [eval]. apply check_in_range, in_range_0.
  - exact Hr.
  - exact Ec.
Qed.

(* ------------------------------------------------------------------ the property *)

(** try_from is the exact inverse of the discriminant table on field-less variants *)
Theorem inverse paren t vs tbl f :
  enum_accepted t vs tbl -> splice_ok paren vs -> try_from paren t vs = Some f ->
  forall n v, f n = Ok v <-> (fieldless v = true /\ In (v, n) tbl).
Proof.
  intros [Hr ND] Hs Hf n v. rewrite (try_from_table _ _ _ _ _ Hr Hs Hf).
  split.
  - intros H. apply first_match_ok_in in H. apply filter_In in H as [HI HF]. split; [exact HF | exact HI].
  - intros [HF HI]. apply first_match_nodup.
    + apply NoDup_map_filter. exact ND.
    + apply filter_In. split; [exact HI | exact HF].
Qed.

(** the variants of the table are the declared variants, in order (so "In (v, n) tbl" reads
    "v is a variant of the enum whose discriminant is n") *)
Lemma rust_table_fst t : forall vs next tbl, rust_table t next vs = Some tbl -> map fst tbl = vs.
Proof.
  induction vs as [|v vs IH]; intros next tbl H; cbn [rust_table] in H.
  - inversion H; reflexivity.
  - apply obind_some in H as [d [_ H]]. apply obind_some in H as [tl [H E]].
    inversion E; subst. cbn [map fst]. f_equal. eapply IH; eauto.
Qed.

Lemma rust_table_in_range t : forall vs next tbl, rust_table t next vs = Some tbl ->
  Forall (fun p => in_range t (snd p) = true) tbl.
Proof.
  induction vs as [|v vs IH]; intros next tbl H; cbn [rust_table] in H.
  - inversion H; constructor.
  - apply obind_some in H as [d [Hd H]]. apply obind_some in H as [tl [H E]].
    inversion E; subst. constructor; [|eapply IH; eauto]. cbn [snd].
    destruct (vdiscr v).
    + apply obind_some in Hd as [d0 [_ Hd]]. apply check_some in Hd as [-> Hd]. exact Hd.
    + apply check_some in Hd as [-> Hd]. exact Hd.
Qed.

Lemma table_lists_variants t vs tbl :
  rust_discrs t vs = Some tbl -> map fst tbl = vs /\ Forall (fun p => in_range t (snd p) = true) tbl.
Proof.
  intros H. split; [exact (rust_table_fst t vs 0 tbl H) | exact (rust_table_in_range t vs 0 tbl H)].
Qed.

Theorem err_carries_input paren t vs f n m :
  try_from paren t vs = Some f -> f n = Err m -> m = n.
Proof.
  unfold try_from. destruct (eval_consts t (consts paren vs)); cbn; intros H; inversion H; subst.
  apply first_match_err.
Qed.

Theorem err_iff paren t vs tbl f :
  enum_accepted t vs tbl -> splice_ok paren vs -> try_from paren t vs = Some f ->
  forall n, f n = Err n <-> (forall v, ~ (fieldless v = true /\ In (v, n) tbl)).
Proof.
  intros Ha Hs Hf n. pose proof (inverse _ _ _ _ _ Ha Hs Hf n) as Hinv. split.
  - intros HE v Hv. apply Hinv in Hv. rewrite HE in Hv. discriminate.
  - intros HN. rewrite (try_from_table _ _ _ _ _ (proj1 Ha) Hs Hf) in *.
    destruct (first_match_total (filter fl tbl) n) as [[v Hv]|HE]; [|exact HE].
    exfalso. apply (HN v). apply Hinv. exact Hv.
Qed.

(** values outside the repr's range never succeed *)
Theorem out_of_range_err paren t vs tbl f :
  enum_accepted t vs tbl -> splice_ok paren vs -> try_from paren t vs = Some f ->
  forall n, in_range t n = false -> f n = Err n.
Proof.
  intros Ha Hs Hf n Hn. apply (err_iff _ _ _ _ _ Ha Hs Hf). intros v [_ HI].
  pose proof (rust_table_in_range _ _ _ _ (proj1 Ha)) as HR.
  rewrite Forall_forall in HR. apply HR in HI. cbn in HI. congruence.
Qed.

Theorem compiles paren t vs tbl :
  enum_accepted t vs tbl -> splice_ok paren vs -> inc_lits_ok t 0 vs = true ->
  try_from paren t vs = Some (first_match (filter fl tbl)).
Proof.
  intros [Hr _] Hs Hi. unfold try_from, consts. unfold rust_discrs in Hr.
  rewrite (consts_compile paren t vs (ELit 0) 0 0 tbl).
  - reflexivity.
  - right; reflexivity.
  - apply splice_ok_forall; exact Hs.
  - cbn [eval]. apply check_in_range, in_range_0.
  - exact Hr.
  - exact Hi.
Qed.

(** the `inc` literals are automatically in range when no discriminant is negative
    (in particular for every unsigned repr) *)
Lemma in_range_iff t z : in_range t z = true <-> lo t <= z <= hi t.
Proof. unfold in_range. rewrite andb_true_iff, !Z.leb_le. reflexivity. Qed.

Lemma lo_nonpos t : lo t <= 0.
Proof. destruct t; vm_compute; congruence. Qed.

Lemma inc_ok_nonneg t : forall vs inc b tbl,
  0 <= b -> 0 <= inc -> rust_table t (b + inc) vs = Some tbl ->
  Forall (fun p => 0 <= snd p) tbl -> inc_lits_ok t inc vs = true.
Proof.
  induction vs as [|v vs IH]; intros inc b tbl Hb Hi Hr Hnn; [reflexivity|].
  cbn [rust_table] in Hr. cbn [inc_lits_ok].
  apply obind_some in Hr as [d [Hd Hr]]. apply obind_some in Hr as [tl [Hr Htbl]].
  inversion Htbl; subst tbl; clear Htbl. inversion Hnn as [|x l Hd0 Hnn']; subst. cbn [snd] in Hd0.
  destruct (vdiscr v) as [e|].
  - apply andb_true_iff. split.
    + destruct (fieldless v); [apply in_range_0 | reflexivity].
    + apply (IH (0 + 1) d tl); try lia; [|exact Hnn']. replace (d + (0 + 1)) with (d + 1) by lia. exact Hr.
  - apply check_some in Hd as [-> HR]. apply in_range_iff in HR.
    apply andb_true_iff. split.
    + destruct (fieldless v); [|reflexivity]. apply in_range_iff. pose proof (lo_nonpos t). lia.
    + apply (IH (inc + 1) b tl); try lia; [|exact Hnn']. replace (b + (inc + 1)) with (b + inc + 1) by lia. exact Hr.
Qed.

Theorem compiles_nonneg paren t vs tbl :
  enum_accepted t vs tbl -> splice_ok paren vs -> Forall (fun p => 0 <= snd p) tbl ->
  try_from paren t vs = Some (first_match (filter fl tbl)).
Proof.
  intros Ha Hs Hnn. apply compiles; try assumption.
  apply (inc_ok_nonneg t vs 0 0 tbl); try lia; [exact (proj1 Ha) | exact Hnn].
Qed.

Theorem compiles_unsigned paren t vs tbl :
  signed t = false -> enum_accepted t vs tbl -> splice_ok paren vs ->
  try_from paren t vs = Some (first_match (filter fl tbl)).
Proof.
  intros Hu Ha Hs. apply compiles_nonneg; try assumption.
  pose proof (rust_table_in_range t vs 0 tbl (proj1 Ha)) as HR.
  eapply Forall_impl; [|exact HR]. intros p Hp. apply in_range_iff in Hp. unfold lo in Hp. rewrite Hu in Hp. lia.
Qed.

Lemma splice_okb_sound paren vs : splice_okb paren vs = true -> splice_ok paren vs.
Proof.
  unfold splice_okb, splice_ok. destruct paren; [left; reflexivity|]. cbn [orb].
  intros H. right. rewrite forallb_forall in H. apply Forall_forall. intros v Hv.
  specialize (H v Hv). destruct (vdiscr v); [exact H | exact I].
Qed.

(* ------------------------------------------------------------------ at the parenthesised splice (the source since 481e7f0) *)

Lemma splice_ok_paren paren vs : paren = true -> splice_ok paren vs.
Proof. intros H. left. exact H. Qed.

Theorem inverse_paren paren : paren = true -> forall t vs tbl f,
  enum_accepted t vs tbl -> try_from paren t vs = Some f ->
  forall n v, f n = Ok v <-> (fieldless v = true /\ In (v, n) tbl).
Proof. intros H t vs tbl f Ha Hf. exact (inverse paren t vs tbl f Ha (splice_ok_paren paren vs H) Hf). Qed.

Theorem err_iff_paren paren : paren = true -> forall t vs tbl f,
  enum_accepted t vs tbl -> try_from paren t vs = Some f ->
  forall n, f n = Err n <-> (forall v, ~ (fieldless v = true /\ In (v, n) tbl)).
Proof. intros H t vs tbl f Ha Hf. exact (err_iff paren t vs tbl f Ha (splice_ok_paren paren vs H) Hf). Qed.

Theorem out_of_range_paren paren : paren = true -> forall t vs tbl f,
  enum_accepted t vs tbl -> try_from paren t vs = Some f ->
  forall n, in_range t n = false -> f n = Err n.
Proof. intros H t vs tbl f Ha Hf. exact (out_of_range_err paren t vs tbl f Ha (splice_ok_paren paren vs H) Hf). Qed.

Theorem compiles_paren paren : paren = true -> forall t vs tbl,
  enum_accepted t vs tbl -> inc_lits_ok t 0 vs = true ->
  try_from paren t vs = Some (first_match (filter fl tbl)).
Proof. intros H t vs tbl Ha Hi. exact (compiles paren t vs tbl Ha (splice_ok_paren paren vs H) Hi). Qed.

Theorem compiles_nonneg_paren paren : paren = true -> forall t vs tbl,
  enum_accepted t vs tbl -> Forall (fun p => 0 <= snd p) tbl ->
  try_from paren t vs = Some (first_match (filter fl tbl)).
Proof. intros H t vs tbl Ha Hn. exact (compiles_nonneg paren t vs tbl Ha (splice_ok_paren paren vs H) Hn). Qed.

Theorem compiles_unsigned_paren paren : paren = true -> forall t vs tbl,
  signed t = false -> enum_accepted t vs tbl ->
  try_from paren t vs = Some (first_match (filter fl tbl)).
Proof. intros H t vs tbl Hu Ha. exact (compiles_unsigned paren t vs tbl Hu Ha (splice_ok_paren paren vs H)). Qed.

(** distinct variant names give distinct constant names *)
Theorem const_names_distinct vs : NoDup (map vname vs) -> NoDup (map const_name vs).
Proof.
  induction vs as [|v vs IH]; cbn [map]; intros ND; [constructor|].
  inversion ND as [|x l NI ND']; subst. constructor; [|auto].
  intros HI. apply NI. apply in_map_iff in HI as [w [E Hw]]. unfold const_name in E.
  apply app_inv_head in E. rewrite <- E. apply in_map. exact Hw.
Qed.

(* ------------------------------------------------------------------ refutations (witnesses replayed on the real macro by the check) *)

Definition nm (s : list N) : str := s.
Definition unit_v (name : str) (d : option expr) : variant := {| vraw := false; vname := name; vfields := FUnit; vdiscr := d |}.

(** `#[repr(u8)] enum P { A = 1 << 2, B }` *)
Definition P_A := unit_v [65%N] (Some (EBin Shl (ELit 1) (ELit 2))).
Definition P_B := unit_v [66%N] None.
Definition P_enum := [P_A; P_B].

Fixpoint nodupb (l : list Z) : bool :=
  match l with [] => true | x :: l' => negb (existsb (Z.eqb x) l') && nodupb l' end.

Lemma nodupb_sound l : nodupb l = true -> NoDup l.
Proof.
  induction l as [|x l IH]; cbn [nodupb]; intros H; [constructor|].
  apply andb_true_iff in H as [H1 H2]. constructor; [|auto].
  intros HI. apply negb_true_iff in H1.
  assert (existsb (Z.eqb x) l = true) as E.
  { apply existsb_exists. exists x. split; [exact HI | apply Z.eqb_refl]. }
  congruence.
Qed.

(** without parentheses the property fails although rustc accepts enum and expansion:
    B's discriminant is 5, `try_from(5)` is Err and `try_from(8)` is Ok(B) *)
Theorem inverse_refuted_unparenthesised :
  exists t vs tbl f v,
    enum_accepted t vs tbl /\ try_from false t vs = Some f /\
    fieldless v = true /\ In (v, 5) tbl /\ f 5 = Err 5 /\ f 8 = Ok v.
Proof.
  exists U8, P_enum, [(P_A, 4); (P_B, 5)], (first_match [(P_A, 4); (P_B, 8)]), P_B.
  split; [split; [reflexivity | apply nodupb_sound; reflexivity]|].
  split; [reflexivity|].
  split; [reflexivity|].
  split; [right; left; reflexivity|].
  split; reflexivity.
Qed.

(** the same enum with the parenthesised splice *)
Example P_enum_parenthesised :
  exists f, try_from true U8 P_enum = Some f /\ f 5 = Ok P_B /\ f 4 = Ok P_A /\ f 8 = Err 8.
Proof. eexists. split; [reflexivity|]. repeat split. Qed.

(** `#[repr(i8)] enum Full { V0 = -128, V1, .., V128 }`: accepted by rustc, every discriminant
    expression is a literal, and yet the expansion is rejected because the literal `128` spliced for
    V128 is not an `i8` (whether or not the splice is parenthesised) *)
Fixpoint implicit_run (k : nat) (c : N) : list variant :=
  match k with O => [] | S k' => unit_v [86%N; c] None :: implicit_run k' (c + 1)%N end.
Definition Full_enum : list variant := unit_v [86%N; 0%N] (Some (ELit (-128))) :: implicit_run 128 1%N.

Theorem inc_literal_refuted :
  exists tbl, enum_accepted I8 Full_enum tbl /\ splice_ok false Full_enum /\
              (forall paren, try_from paren I8 Full_enum = None).
Proof.
  destruct (rust_discrs I8 Full_enum) as [tbl|] eqn:E; [|vm_compute in E; discriminate].
  exists tbl. split; [split; [exact E|]|split].
  - apply nodupb_sound. vm_compute in E. inversion E. vm_compute. reflexivity.
  - apply splice_okb_sound. vm_compute. reflexivity.
  - intros [|]; vm_compute; reflexivity.
Qed.

(* ------------------------------------------------------------------ non-vacuity *)

(** `#[repr(i16)] enum E { A, B = -21, C(u8), D{}, E = 2 * 3, F }`: discriminants 0 -21 -20 -19 6 7 *)
Definition ex_A := unit_v [65%N] None.
Definition ex_B := unit_v [66%N] (Some (ELit (-21))).
Definition ex_C := {| vraw := false; vname := [67%N]; vfields := FTuple 1; vdiscr := None |}.
Definition ex_D := {| vraw := false; vname := [68%N]; vfields := FBraceEmpty; vdiscr := None |}.
Definition ex_E := unit_v [69%N] (Some (EBin Mul (ELit 2) (ELit 3))).
Definition ex_F := unit_v [70%N] None.
Definition ex_enum := [ex_A; ex_B; ex_C; ex_D; ex_E; ex_F].
Definition ex_tbl := [(ex_A, 0); (ex_B, -21); (ex_C, -20); (ex_D, -19); (ex_E, 6); (ex_F, 7)].

Example ex_hypotheses_satisfiable :
  enum_accepted I16 ex_enum ex_tbl /\ splice_ok false ex_enum /\ inc_lits_ok I16 0 ex_enum = true /\
  exists f, try_from false I16 ex_enum = Some f /\
            f 7 = Ok ex_F /\ f (-19) = Ok ex_D /\ f (-20) = Err (-20) /\ f 1 = Err 1.
Proof.
  split; [split; [reflexivity | apply nodupb_sound; reflexivity]|].
  split; [apply splice_okb_sound; reflexivity|].
  split; [reflexivity|].
  eexists. split; [reflexivity|]. repeat split.
Qed.

(* ------------------------------------------------------------------ repr selection *)

Fixpoint last_opt {A} (l : list A) : option A :=
  match l with [] => None | [x] => Some x | _ :: l' => last_opt l' end.

Definition ints (hs : list hint) : list ity := flat_map int_of hs.

Lemma last_opt_cons {A} (x : A) l :
  last_opt (x :: l) = match last_opt l with Some y => Some y | None => Some x end.
Proof.
  revert x. induction l as [|y l IH]; intros x; [reflexivity|].
  change (last_opt (x :: y :: l)) with (last_opt (y :: l)). rewrite IH.
  destruct (last_opt l); reflexivity.
Qed.

Lemma fold_hints hs : forall acc,
  fold_left (fun acc h => match h with HInt t => Some t | HOther _ _ => acc end) hs acc =
  match last_opt (ints hs) with Some t => Some t | None => acc end.
Proof.
  induction hs as [|h hs IH]; intros acc; cbn [fold_left]; [reflexivity|].
  rewrite IH. destruct h as [t|n g]; unfold ints; cbn [flat_map int_of app].
  - fold (ints hs). rewrite last_opt_cons. destruct (last_opt (ints hs)); reflexivity.
  - reflexivity.
Qed.

(** within one attribute the LAST integer hint wins *)
Lemma parse_attr_last hs : parse_attr hs = last_opt (ints hs).
Proof. unfold parse_attr. rewrite fold_hints. destruct (last_opt (ints hs)); reflexivity. Qed.

Definition opt_list {A} (o : option A) : list A := match o with Some a => [a] | None => [] end.
(** the integer repr each attribute contributes *)
Definition per_attr (attrs : list (list hint)) : list ity := flat_map (fun a => opt_list (parse_attr a)) attrs.

Lemma fold_attrs_char : forall attrs prev,
  fold_attrs (Some prev) attrs =
  match prev, per_attr attrs with
  | p, [] => Some (Some p)
  | None, [t] => Some (Some (Some t))
  | _, _ => None
  end.
Proof.
  induction attrs as [|a attrs IH]; intros prev; cbn [fold_attrs per_attr flat_map].
  - destruct prev; reflexivity.
  - fold (per_attr attrs). destruct prev as [p|]; destruct (parse_attr a) as [t|]; cbn [merge_attrs obind opt_list app].
    + reflexivity.
    + rewrite IH. destruct (per_attr attrs) as [|x [|y l]]; reflexivity.
    + rewrite IH. destruct (per_attr attrs) as [|x l]; reflexivity.
    + rewrite IH. reflexivity.
Qed.

(** full characterisation of the selection *)
Theorem repr_of_char attrs :
  repr_of attrs = match per_attr attrs with [] => Some Isize | [t] => Some t | _ => None end.
Proof.
  unfold repr_of. destruct attrs as [|a attrs]; [reflexivity|].
  cbn [fold_attrs per_attr flat_map]. fold (per_attr attrs). rewrite fold_attrs_char.
  destruct (parse_attr a) as [t|]; cbn [opt_list app].
  - destruct (per_attr attrs) as [|x l]; reflexivity.
  - destruct (per_attr attrs) as [|x [|y l]]; reflexivity.
Qed.

Lemma last_opt_nil_inv {A} (l : list A) : last_opt l = None -> l = [].
Proof.
  induction l as [|x l IH]; [reflexivity|]. cbn. destruct l; [discriminate|]. intros H. apply IH in H. discriminate.
Qed.

Lemma per_attr_cons a attrs : per_attr (a :: attrs) = opt_list (parse_attr a) ++ per_attr attrs.
Proof. reflexivity. Qed.
Lemma int_hints_cons a attrs : int_hints (a :: attrs) = ints a ++ int_hints attrs.
Proof. reflexivity. Qed.

Lemma per_attr_nil attrs : int_hints attrs = [] -> per_attr attrs = [].
Proof.
  induction attrs as [|a attrs IH]; [reflexivity|]. rewrite per_attr_cons, int_hints_cons.
  intros H. apply app_eq_nil in H as [H1 H2]. rewrite (IH H2), parse_attr_last, H1. reflexivity.
Qed.

Lemma per_attr_single attrs t : int_hints attrs = [t] -> per_attr attrs = [t].
Proof.
  induction attrs as [|a attrs IH]; [discriminate|]. rewrite per_attr_cons, int_hints_cons.
  intros H. rewrite parse_attr_last.
  destruct (ints a) as [|x l] eqn:E.
  - cbn in H |- *. apply IH. exact H.
  - cbn [app] in H. injection H as Hx Hl. apply app_eq_nil in Hl as [Hl Hr]. subst x l.
    rewrite (per_attr_nil _ Hr). reflexivity.
Qed.

(** exactly one integer hint among all repr hints: it is the repr *)
Theorem repr_unique attrs t : int_hints attrs = [t] -> repr_of attrs = Some t.
Proof. intros H. rewrite repr_of_char, (per_attr_single _ _ H). reflexivity. Qed.

(** no integer hint: isize *)
Theorem repr_default attrs : int_hints attrs = [] -> repr_of attrs = Some Isize.
Proof. intros H. rewrite repr_of_char, (per_attr_nil _ H). reflexivity. Qed.

Lemma ints_filter hs : ints (filter is_int hs) = ints hs.
Proof.
  induction hs as [|h hs IH]; [reflexivity|]. unfold ints in *. destruct h; cbn [filter is_int flat_map int_of app]; rewrite IH; reflexivity.
Qed.

(** non-integer hints are ignored *)
Theorem repr_ignores_others attrs : repr_of (map (filter is_int) attrs) = repr_of attrs.
Proof.
  rewrite !repr_of_char. replace (per_attr (map (filter is_int) attrs)) with (per_attr attrs); [reflexivity|].
  induction attrs as [|a attrs IH]; [reflexivity|]. cbn [map]. rewrite !per_attr_cons.
  rewrite <- IH, !parse_attr_last, ints_filter. reflexivity.
Qed.

(** integer hints in two different attributes are rejected (two in ONE attribute are not: last wins) *)
Theorem repr_two_attrs_rejected attrs :
  repr_of attrs = None <-> (2 <= length (per_attr attrs))%nat.
Proof.
  rewrite repr_of_char. destruct (per_attr attrs) as [|x [|y l]]; cbn [length]; split; intros H; try discriminate; try lia; reflexivity.
Qed.

Example repr_examples :
  repr_of [] = Some Isize /\
  repr_of [[HOther [67%N] false; HInt U8]] = Some U8 /\
  repr_of [[HOther [67%N] false]; [HOther [97%N] true; HInt I16]] = Some I16 /\
  repr_of [[HInt U8; HInt I16]] = Some I16 /\
  repr_of [[HInt U8]; [HInt U8]] = None.
Proof. repeat split. Qed.

(* ------------------------------------------------------------------ impl header *)

Theorem header_iff on_repr r e ps :
  header_ok (gen_header on_repr r e ps) r e ps <-> (on_repr = false \/ ps = []).
Proof.
  unfold header_ok, gen_header. destruct on_repr; cbn; split.
  - intros [_ [H _]]. right. inversion H as [H1]. destruct ps; [reflexivity | discriminate].
  - intros [H|H]; [discriminate|]. subst ps. cbn. auto.
  - intros _. left; reflexivity.
  - intros _. auto.
Qed.

(** `enum G<const N: usize> { A, B }` with the generics printed after the repr type:
    `impl<const N: usize> TryFrom<isize<N>> for G` *)
Theorem header_on_enum on_repr : on_repr = false -> forall r e ps,
  header_ok (gen_header on_repr r e ps) r e ps.
Proof. intros H r e ps. apply header_iff. left. exact H. Qed.

Theorem header_refuted_on_repr :
  exists r e ps, ~ header_ok (gen_header true r e ps) r e ps.
Proof.
  exists [105%N], [71%N], [GConst [78%N]]. rewrite header_iff. intros [H|H]; discriminate.
Qed.

(* ================================================================== growth round *)

(* ------------------------------------------------------------------ round trip through the cast *)

(** `E::try_from(v as repr) == Ok(v)` for every field-less variant *)
Theorem roundtrip paren t vs tbl f i v d :
  enum_accepted t vs tbl -> splice_ok paren vs -> try_from paren t vs = Some f ->
  nth_error tbl i = Some (v, d) -> fieldless v = true -> cast_at tbl i = Some d /\ f d = Ok v.
Proof.
  intros Ha Hs Hf Hn Hfl. split; [unfold cast_at; rewrite Hn; reflexivity|].
  apply (inverse paren t vs tbl f Ha Hs Hf). split; [exact Hfl | eapply nth_error_In; exact Hn].
Qed.

(** ... and a success is a cast: `try_from(n) == Ok(v)` implies `v as repr == n` for a declared v *)
Theorem ok_is_cast paren t vs tbl f n v :
  enum_accepted t vs tbl -> splice_ok paren vs -> try_from paren t vs = Some f ->
  f n = Ok v -> fieldless v = true /\ exists i, nth_error tbl i = Some (v, n) /\ cast_at tbl i = Some n /\ nth_error vs i = Some v.
Proof.
  intros Ha Hs Hf Hok. apply (inverse paren t vs tbl f Ha Hs Hf) in Hok as [Hfl HI]. split; [exact Hfl|].
  apply In_nth_error in HI as [i Hi]. exists i. split; [exact Hi|]. split; [unfold cast_at; rewrite Hi; reflexivity|].
  rewrite <- (proj1 (table_lists_variants t vs tbl (proj1 Ha))). apply (map_nth_error fst i tbl Hi).
Qed.

(** a variant WITH fields is never produced, whatever its discriminant *)
Lemma consts_only_fieldless paren t : forall vs last inc ctbl v n,
  eval_consts t (gen_consts paren last inc vs) = Some ctbl -> In (v, n) ctbl -> fieldless v = true.
Proof.
  induction vs as [|w vs IH]; intros last inc ctbl v n Ec Hok; cbn [gen_consts] in Ec.
  - cbn in Ec. inversion Ec; subst. destruct Hok.
  - destruct (fieldless w) eqn:Fw.
    + cbn [eval_consts] in Ec. apply obind_some in Ec as [c [_ Ec]]. apply obind_some in Ec as [ctl [Ec E]].
      inversion E; subst ctbl. destruct Hok as [Hok|Hok]; [inversion Hok; subst; exact Fw | eapply IH; eauto].
    + eapply IH; eauto.
Qed.

Theorem fielded_never_ok paren t vs f n v :
  try_from paren t vs = Some f -> f n = Ok v -> fieldless v = true.
Proof.
  unfold try_from, consts.
  destruct (eval_consts t (gen_consts paren (ELit 0) 0 vs)) as [ctbl|] eqn:Ec; [|cbn; discriminate].
  cbn. intros Hf Hok. inversion Hf; subst f; clear Hf. apply first_match_ok_in in Hok.
  eapply consts_only_fieldless; eauto.
Qed.

(** an enum without any field-less variant: the expansion always compiles and every input is Err *)
Lemma gen_consts_no_fieldless paren : forall vs last inc,
  (forall v, In v vs -> fieldless v = false) -> gen_consts paren last inc vs = [].
Proof.
  induction vs as [|v vs IH]; intros last inc H; [reflexivity|]. cbn [gen_consts].
  rewrite (H v (or_introl eq_refl)). apply IH. intros w Hw. apply H. right; exact Hw.
Qed.

Theorem no_fieldless_always_err paren t vs :
  (forall v, In v vs -> fieldless v = false) ->
  exists f, try_from paren t vs = Some f /\ forall n, f n = Err n.
Proof.
  intros H. unfold try_from, consts. rewrite (gen_consts_no_fieldless paren vs _ _ H). cbn.
  eexists. split; [reflexivity|]. intros n. reflexivity.
Qed.

(* ------------------------------------------------------------------ two's complement wrap-around (`as`, `<<`) *)

Ltac pow2 := repeat match goal with
  | |- context [2 ^ ?k] => let v := eval vm_compute in (2 ^ k) in change (2 ^ k) with v
  | H : context [2 ^ ?k] |- _ => let v := eval vm_compute in (2 ^ k) in change (2 ^ k) with v in H
  end.

(** the wrapped value is a value of the type *)
Theorem wrap_in_range t z : in_range t (wrap t z) = true.
Proof.
  apply in_range_iff. unfold wrap, lo, hi.
  pose proof (Z.mod_pos_bound z (2 ^ bits t)) as B.
  destruct t; cbn [bits signed andb] in *; pow2; cbn [Z.sub Z.add Z.opp Z.pos_sub Pos.pred_double] in *;
    try (specialize (B eq_refl); lia);
    match goal with |- context [?a <=? ?b] => destruct (Z.leb_spec a b) end; specialize (B eq_refl); lia.
Qed.

(** ... it differs from the argument by a multiple of 2^bits *)
Theorem wrap_congruent t z : exists k, wrap t z = z + k * 2 ^ bits t.
Proof.
  unfold wrap. pose proof (Z.div_mod z (2 ^ bits t)) as D.
  assert (P : 2 ^ bits t <> 0) by (destruct t; vm_compute; discriminate). specialize (D P).
  destruct (signed t && (2 ^ (bits t - 1) <=? z mod 2 ^ bits t)).
  - exists (- (z / 2 ^ bits t) - 1). lia.
  - exists (- (z / 2 ^ bits t)). lia.
Qed.

(** ... and it is the argument itself when that already is a value of the type *)
Theorem wrap_id t z : in_range t z = true -> wrap t z = z.
Proof.
  intros H. apply in_range_iff in H. unfold wrap, lo, hi in *.
  destruct (Z_lt_le_dec z 0) as [Neg|Pos].
  - (* negative: only signed types *)
    assert (S : signed t = true) by (destruct (signed t); [reflexivity | lia]). rewrite S in *. cbn [andb].
    assert (M : z mod 2 ^ bits t = z + 2 ^ bits t).
    { symmetry. apply (Z.mod_unique z (2 ^ bits t) (-1) (z + 2 ^ bits t)); [left|lia].
      destruct t; try discriminate; cbn [bits] in *; pow2; lia. }
    rewrite M. destruct (Z.leb_spec (2 ^ (bits t - 1)) (z + 2 ^ bits t)); [lia|].
    exfalso. destruct t; try discriminate; cbn [bits] in *; pow2; lia.
  - assert (M : z mod 2 ^ bits t = z).
    { apply Z.mod_small. destruct t; cbn [bits signed] in *; pow2; lia. }
    rewrite M. destruct (signed t) eqn:S; cbn [andb]; [|reflexivity].
    destruct (Z.leb_spec (2 ^ (bits t - 1)) z); [|reflexivity].
    exfalso. destruct t; try discriminate; cbn [bits] in *; pow2; lia.
Qed.

(** the two extremes wrap into each other: MAX + 1 is MIN, MIN - 1 is MAX *)
Theorem wrap_limits t : wrap t (hi t + 1) = lo t /\ wrap t (lo t - 1) = hi t.
Proof. destruct t; vm_compute; split; reflexivity. Qed.

(** an implicit discriminant never wraps: after MAX rustc (and the table) reject the enum *)
Theorem no_implicit_wrap t v vs : vdiscr v = None -> rust_table t (hi t + 1) (v :: vs) = None.
Proof.
  intros H. cbn [rust_table]. rewrite H. unfold check.
  replace (in_range t (hi t + 1)) with false; [reflexivity|].
  symmetry. destruct (in_range t (hi t + 1)) eqn:E; [|reflexivity]. apply in_range_iff in E. lia.
Qed.

(* ------------------------------------------------------------------ any evaluator *)

Section AnyEvaluatorProofs.
  Variable t : ity.
  Variable ev : expr -> option Z.
  Hypothesis EV : evaluator_ok t ev.

  Lemma ev_splice e k : ev (splice true e k) = sum_checked t (ev e) k.
  Proof. destruct EV as [Ha [Hp _]]. unfold splice, sum_checked. rewrite Ha, Hp. reflexivity. Qed.

  Lemma consts_are_discrs_g : forall vs last inc b tbl ctbl,
    ev last = Some b ->
    rust_table_g t ev (b + inc) vs = Some tbl ->
    eval_consts_g ev (gen_consts true last inc vs) = Some ctbl ->
    ctbl = filter fl tbl.
  Proof.
    induction vs as [|v vs IH]; intros last inc b tbl ctbl Hb Hr Hc.
    - cbn in Hr, Hc. inversion Hr; inversion Hc; reflexivity.
    - cbn [rust_table_g] in Hr. cbn [gen_consts] in Hc.
      apply obind_some in Hr as [d [Hd Hr]]. apply obind_some in Hr as [tl [Hr Htbl]].
      inversion Htbl; subst tbl; clear Htbl.
      destruct (vdiscr v) as [e|] eqn:Ev.
      + apply obind_some in Hd as [d0 [He Hck]]. apply check_some in Hck as [-> HRd].
        assert (Hr' : rust_table_g t ev (d0 + 1) vs = Some tl) by exact Hr.
        cbn [filter]. unfold fl at 1. cbn [fst].
        destruct (fieldless v) eqn:Fv.
        * cbn [eval_consts_g] in Hc.
          apply obind_some in Hc as [c [Hce Hc]]. apply obind_some in Hc as [ctl [Hc Hctbl]].
          inversion Hctbl; subst ctbl; clear Hctbl.
          rewrite ev_splice, He in Hce. apply sum_checked_some in Hce as [-> _].
          rewrite Z.add_0_r. f_equal. exact (IH e 1 d0 tl ctl He Hr' Hc).
        * exact (IH e 1 d0 tl ctbl He Hr' Hc).
      + apply check_some in Hd as [-> HRd].
        assert (Hr' : rust_table_g t ev (b + (inc + 1)) vs = Some tl).
        { replace (b + (inc + 1)) with (b + inc + 1) by lia. exact Hr. }
        cbn [filter]. unfold fl at 1. cbn [fst].
        destruct (fieldless v) eqn:Fv.
        * cbn [eval_consts_g] in Hc.
          apply obind_some in Hc as [c [Hce Hc]]. apply obind_some in Hc as [ctl [Hc Hctbl]].
          inversion Hctbl; subst ctbl; clear Hctbl.
          rewrite ev_splice, Hb in Hce. apply sum_checked_some in Hce as [-> _].
          f_equal. exact (IH last (inc + 1) b tl ctl Hb Hr' Hc).
        * exact (IH last (inc + 1) b tl ctbl Hb Hr' Hc).
  Qed.

  (** the property for ANY constant evaluator that gives `(e) + k` and literals their Rust meaning:
      arbitrary discriminant expressions, any pointer width *)
  Theorem inverse_any_evaluator vs tbl f :
    rust_table_g t ev 0 vs = Some tbl -> NoDup (map snd tbl) ->
    try_from_g ev true vs = Some f ->
    forall n v, f n = Ok v <-> (fieldless v = true /\ In (v, n) tbl).
  Proof.
    intros Hr ND Hf n v. unfold try_from_g, consts in Hf.
    destruct (eval_consts_g ev (gen_consts true (ELit 0) 0 vs)) as [ctbl|] eqn:Ec; [|discriminate].
    cbn in Hf. inversion Hf; subst f; clear Hf.
    rewrite (consts_are_discrs_g vs (ELit 0) 0 0 tbl ctbl (proj2 (proj2 EV)) Hr Ec).
    split.
    - intros H. apply first_match_ok_in in H. apply filter_In in H as [HI HF]. split; [exact HF | exact HI].
    - intros [HF HI]. apply first_match_nodup; [apply NoDup_map_filter; exact ND | apply filter_In; split; [exact HI | exact HF]].
  Qed.

  Theorem err_any_evaluator vs f n m : try_from_g ev true vs = Some f -> f n = Err m -> m = n.
  Proof.
    unfold try_from_g. destruct (eval_consts_g ev (consts true vs)); cbn; intros H; inversion H; subst. apply first_match_err.
  Qed.
End AnyEvaluatorProofs.

(** the model's own evaluator is such an evaluator, and the abstract definitions specialise to the concrete ones *)
Lemma eval_is_evaluator t : evaluator_ok t (eval t).
Proof.
  split; [|split].
  - intros a k. reflexivity.
  - intros a. reflexivity.
  - cbn [eval]. apply check_in_range, in_range_0.
Qed.

Lemma rust_table_g_eval t : forall vs next, rust_table_g t (eval t) next vs = rust_table t next vs.
Proof.
  induction vs as [|v vs IH]; intros next; [reflexivity|]. cbn [rust_table_g rust_table].
  destruct (match vdiscr v with Some e => obind (eval t e) (check t) | None => check t next end); cbn [obind]; [|reflexivity].
  rewrite IH. reflexivity.
Qed.

Lemma eval_consts_g_eval t : forall cs, eval_consts_g (eval t) cs = eval_consts t cs.
Proof.
  induction cs as [|[v e] cs IH]; [reflexivity|]. cbn [eval_consts_g eval_consts]. rewrite IH. reflexivity.
Qed.

Theorem any_evaluator_instance t :
  evaluator_ok t (eval t) /\
  (forall vs, rust_table_g t (eval t) 0 vs = rust_discrs t vs) /\
  (forall paren vs, try_from_g (eval t) paren vs = try_from paren t vs).
Proof.
  split; [apply eval_is_evaluator|]. split.
  - intros vs. apply rust_table_g_eval.
  - intros paren vs. unfold try_from_g, try_from. rewrite eval_consts_g_eval. reflexivity.
Qed.

(** non-vacuity: an evaluator that knows nothing about `<<` except one opaque value *)
Definition opaque_ev (e : expr) : option Z :=
  (fix go (e : expr) : option Z :=
     match e with
     | ELit z => check U8 z
     | EParen a => go a
     | EBin Add a (ELit k) => obind (go a) (fun x => obind (check U8 k) (fun y => check U8 (x + y)))
     | EBin Shl _ _ => Some 40            (* "whatever rustc says" *)
     | _ => None
     end) e.

Example opaque_evaluator_example :
  evaluator_ok U8 opaque_ev /\
  exists tbl f, rust_table_g U8 opaque_ev 0 P_enum = Some tbl /\ NoDup (map snd tbl) /\
                try_from_g opaque_ev true P_enum = Some f /\ f 41 = Ok P_B /\ f 40 = Ok P_A /\ f 5 = Err 5.
Proof.
  split.
  - split; [|split]; [intros a k; reflexivity | intros a; reflexivity | reflexivity].
  - eexists. eexists. split; [reflexivity|]. split; [apply nodupb_sound; reflexivity|]. split; [reflexivity|]. repeat split.
Qed.

(* ------------------------------------------------------------------ which items get an impl *)

Lemma parse_tf_some_disc : forall attrs,
  parse_tf (Some CDiscriminant) attrs = Some (Some CDiscriminant) -> attrs = [].
Proof. intros [|a rest]; [reflexivity|]. destruct a; cbn; discriminate. Qed.

Lemma parse_tf_types : forall attrs m, parse_tf (Some CTypes) attrs = Some m -> m = Some CTypes.
Proof.
  induction attrs as [|a rest IH]; intros m H; cbn in H; [inversion H; reflexivity|].
  destruct a; cbn in H; try discriminate. apply IH. exact H.
Qed.

(** an impl is emitted exactly for an enum with an acceptable repr and exactly one `#[try_from(repr)]` *)
Theorem impl_iff k r tf :
  expand_decision k r tf = DImpl <-> (k = KEnum /\ repr_of r <> None /\ tf = [TARepr]).
Proof.
  unfold expand_decision. split.
  - destruct k; try discriminate. destruct (repr_of r) as [t|]; [|discriminate].
    destruct tf as [|a rest]; [discriminate|]. destruct a; cbn [parse_tf]; try discriminate.
    + destruct (parse_tf (Some CDiscriminant) rest) as [[[|]|]|] eqn:E; try discriminate.
      intros _. apply parse_tf_some_disc in E. subst. split; [reflexivity|]. split; [discriminate | reflexivity].
    + destruct (parse_tf (Some CTypes) rest) as [m|] eqn:E; [|discriminate].
      apply parse_tf_types in E. subst m. discriminate.
  - intros [-> [Hr ->]]. destruct (repr_of r); [reflexivity | contradiction].
Qed.

(** nothing at all is emitted exactly for an enum (with an acceptable repr) without any `#[try_from]` *)
Theorem no_impl_iff k r tf :
  expand_decision k r tf = DNoImpl <-> (k = KEnum /\ repr_of r <> None /\ tf = []).
Proof.
  unfold expand_decision. split.
  - destruct k; try discriminate. destruct (repr_of r) as [t|]; [|discriminate].
    destruct tf as [|a rest]; [intros _; split; [reflexivity|]; split; [discriminate | reflexivity]|].
    destruct a; cbn [parse_tf]; try discriminate.
    + destruct (parse_tf (Some CDiscriminant) rest) as [[[|]|]|] eqn:E; try discriminate.
      exfalso. clear -E. destruct rest as [|a rest]; [cbn in E; discriminate|]. destruct a; cbn in E; discriminate.
    + destruct (parse_tf (Some CTypes) rest) as [m|] eqn:E; [|discriminate].
      apply parse_tf_types in E. subst m. discriminate.
  - intros [-> [Hr ->]]. destruct (repr_of r); [reflexivity | contradiction].
Qed.

Example decision_examples :
  expand_decision KEnum [[HInt U8]] [TARepr] = DImpl /\
  expand_decision KEnum [] [] = DNoImpl /\
  expand_decision KEnum [] [TARepr; TARepr] = DError /\
  expand_decision KEnum [] [TAReprTypes; TAReprTypes] = DError /\
  expand_decision KEnum [[HInt U8]; [HInt U8]] [TARepr] = DError /\
  expand_decision KStruct [] [TARepr] = DError.
Proof. repeat split. Qed.

(* ------------------------------------------------------------------ impl header with bounds, defaults, where-clause *)

Definition header_full_ok (h : header_full) (repr_name enum_name : str) (ps : list gparam_decl) (w : str) : Prop :=
  hf_params h = map (fun p => (gp p, gp_bounds p)) ps /\     (* every parameter, with its bounds, without default *)
  hf_trait_arg h = (repr_name, []) /\
  hf_self h = (enum_name, map (fun p => garg (gp p)) ps) /\
  hf_where h = w.

Theorem header_full_iff on_repr r e ps w :
  header_full_ok (gen_header_full on_repr r e ps w) r e ps w <-> (on_repr = false \/ ps = []).
Proof.
  unfold header_full_ok, gen_header_full. destruct on_repr; cbn; split.
  - intros [_ [H _]]. right. inversion H as [H1]. destruct ps; [reflexivity | discriminate].
  - intros [H|H]; [discriminate|]. subst ps. cbn. auto.
  - intros _. left; reflexivity.
  - intros _. auto.
Qed.

Theorem header_full_on_enum on_repr : on_repr = false -> forall r e ps w,
  header_full_ok (gen_header_full on_repr r e ps w) r e ps w.
Proof. intros H r e ps w. apply header_full_iff. left. exact H. Qed.

(** the simple header is the full one with bounds, defaults and where-clause forgotten *)
Theorem header_full_forgets on_repr r e ps w :
  let h := gen_header_full on_repr r e ps w in
  gen_header on_repr r e (map gp ps) =
  {| h_impl_params := map fst (hf_params h); h_trait_arg := hf_trait_arg h; h_self := hf_self h |}.
Proof.
  unfold gen_header_full, gen_header. destruct on_repr; cbn; rewrite !map_map; reflexivity.
Qed.

Definition ex_ps : list gparam_decl :=
  [{| gp := GLifetime [39;97]%N; gp_bounds := []; gp_default := None |};
   {| gp := GType [84]%N; gp_bounds := [67;108;111;110;101]%N; gp_default := Some [117;56]%N |};
   {| gp := GConst [78]%N; gp_bounds := []; gp_default := Some [52]%N |}].

(** `#[repr(u8)] enum E<'a, T: Clone = u8, const N: usize = 4> where T: Copy` *)
Example header_full_example :
  header_full_ok (gen_header_full false [117;56]%N [69]%N ex_ps [84;58;67;111;112;121]%N)
                 [117;56]%N [69]%N ex_ps [84;58;67;111;112;121]%N.
Proof. apply header_full_on_enum. reflexivity. Qed.

(* ------------------------------------------------------------------ one constant / arm per field-less variant, unconditionally *)

(** with no hypothesis at all (not even that the expansion compiles): the constants - hence the `match` arms - are
    exactly the field-less variants, each once, in declaration order; variants with fields get none *)
Lemma gen_consts_variants paren : forall vs last inc,
  map fst (gen_consts paren last inc vs) = filter fieldless vs.
Proof.
  induction vs as [|v vs IH]; intros last inc; cbn [gen_consts filter]; [reflexivity|].
  destruct (fieldless v); cbn [map fst]; rewrite IH; reflexivity.
Qed.

Theorem consts_variants paren vs : map fst (consts paren vs) = filter fieldless vs.
Proof. unfold consts. apply gen_consts_variants. Qed.

Lemma eval_consts_fst t : forall cs tbl, eval_consts t cs = Some tbl -> map fst tbl = map fst cs.
Proof.
  induction cs as [|[v e] cs IH]; intros tbl H; cbn [eval_consts] in H.
  - inversion H. reflexivity.
  - destruct (eval t e) as [d|]; cbn [obind] in H; [|discriminate].
    destruct (eval_consts t cs) as [tl|]; cbn [obind] in H; [|discriminate].
    inversion H; subst. cbn [map fst]. rewrite (IH tl eq_refl). reflexivity.
Qed.

(** the arms of a compiling expansion, in order, are the field-less variants in declaration order *)
Theorem arms_are_fieldless_in_order paren t vs tbl :
  eval_consts t (consts paren vs) = Some tbl -> map fst tbl = filter fieldless vs.
Proof. intros H. rewrite (eval_consts_fst _ _ _ H). apply consts_variants. Qed.

(** with no hypothesis on ranges or distinctness: whatever a compiling expansion accepts is a field-less variant of
    THIS enum (the arms cannot name anything else) *)
Theorem ok_is_member paren t vs f n v :
  try_from paren t vs = Some f -> f n = Ok v -> In v vs /\ fieldless v = true.
Proof.
  unfold try_from. destruct (eval_consts t (consts paren vs)) as [tbl|] eqn:E; cbn [option_map]; [|discriminate].
  intros H. inversion H; subst f. intros Hf. apply first_match_ok_in in Hf.
  apply (in_map fst) in Hf. cbn [fst] in Hf.
  rewrite (arms_are_fieldless_in_order _ _ _ _ E) in Hf. apply filter_In in Hf. exact Hf.
Qed.
