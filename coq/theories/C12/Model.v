(** C12 - executable model of `#[derive(TryFrom)] #[try_from(repr)]` on enums.

    Mirrors /repo/impl/src/try_from.rs (Expansion::to_tokens, lines 77-144) and
    /repo/impl/src/utils.rs `attr::ReprInt` (lines 1738-1830) + `ParseMultiple::parse_attrs_with`
    (lines 1579-1600).  No proofs in this file.

    Two places of the source are *switches* of the model (they are read back from the source on
    every run by tools/lib/c12_gen.py into Gen/C12Flags.v, see Props.v):
      - [paren]      : is the explicit discriminant parenthesised when `+ #inc` is spliced after it
                       (try_from.rs:111  `quote! { (#last_discriminant) + #inc }`  => true, since 481e7f0;
                        `#last_discriminant + #inc` => false)
      - [on_repr]    : are the enum's type generics printed after the repr type instead of after the
                       enum (try_from.rs:126-127 `TryFrom<#repr_ty> for #ident #ty_generics` => false,
                        since 6cf1b20)
    Every definition takes the switch as an argument; Props.v states the property at the values the
    source has now, so a source that goes back to the other spelling breaks the proof obligation. *)
From Coq Require Import List ZArith Bool Lia.
Require Import Verif.Base.Chars.
Import ListNotations.
Open Scope Z_scope.

(* ------------------------------------------------------------------ integer types *)

(** the 12 primitive integer types `ReprInt` recognises (utils.rs:1789-1802) *)
Inductive ity := U8 | U16 | U32 | U64 | U128 | Usize | I8 | I16 | I32 | I64 | I128 | Isize.

Definition ity_eqb (a b : ity) : bool :=
  match a, b with
  | U8, U8 | U16, U16 | U32, U32 | U64, U64 | U128, U128 | Usize, Usize
  | I8, I8 | I16, I16 | I32, I32 | I64, I64 | I128, I128 | Isize, Isize => true
  | _, _ => false
  end.

(** width in bits; `usize`/`isize` are those of the 64-bit target the check runs on
    (the check script measures `usize::BITS` in the generated program and fails closed otherwise) *)
Definition bits (t : ity) : Z :=
  match t with
  | U8 | I8 => 8 | U16 | I16 => 16 | U32 | I32 => 32 | U64 | I64 => 64 | U128 | I128 => 128
  | Usize | Isize => 64
  end.

Definition signed (t : ity) : bool :=
  match t with I8 | I16 | I32 | I64 | I128 | Isize => true | _ => false end.

Definition lo (t : ity) : Z := if signed t then - 2 ^ (bits t - 1) else 0.
Definition hi (t : ity) : Z := if signed t then 2 ^ (bits t - 1) - 1 else 2 ^ bits t - 1.

Definition in_range (t : ity) (z : Z) : bool := (lo t <=? z) && (z <=? hi t).

(** overflow-checked result (constant evaluation rejects overflow: E0080 / deny lints) *)
Definition check (t : ity) (z : Z) : option Z := if in_range t z then Some z else None.

(** two's complement wrap-around (what `as` and `<<` do) *)
Definition wrap (t : ity) (z : Z) : Z :=
  let m := z mod 2 ^ bits t in
  if signed t && (2 ^ (bits t - 1) <=? m) then m - 2 ^ bits t else m.

(* ------------------------------------------------------------------ discriminant expressions *)

Inductive binop := Mul | Div | Rem | Add | Sub | Shl | Shr | BAnd | BXor | BOr.

(** Rust's binary operator precedence (reference, "Expression precedence"); larger binds tighter;
    all of these are left-associative *)
Definition prec (o : binop) : nat :=
  match o with
  | Mul | Div | Rem => 10
  | Add | Sub => 9
  | Shl | Shr => 8
  | BAnd => 7
  | BXor => 6
  | BOr => 5
  end%nat.

(** The expression forms the check generates.  An [expr] stands for the tree `syn` builds from the
    source text, so parentheses are explicit nodes and a tree never contradicts precedence. *)
Inductive expr :=
| ELit (z : Z)                      (* unsuffixed integer literal, `-5` included (negated literal) *)
| EConst (ty : ity) (val : Z)       (* path to a `const NAME: ty = val;` in scope *)
| ENeg (e : expr)                   (* -e   (unary operators bind tighter than every binary one) *)
| ENot (e : expr)                   (* !e *)
| EBin (o : binop) (l r : expr)
| EParen (e : expr)
| ECast (e : expr) (from : ity).    (* `e as <the type expected here>`, [e] itself has type [from] *)

Definition obind {A B} (o : option A) (f : A -> option B) : option B :=
  match o with Some a => f a | None => None end.

(** Constant evaluation at type [t] (the type of the `const` item / of the discriminant).
    [None] = rustc rejects the constant (overflow, division by zero, shift amount too large, type
    mismatch, `-` on an unsigned type).  The right operand of a shift has its own type; the
    generator only writes `i32` expressions there (unsuffixed literals default to i32). *)
Fixpoint eval (t : ity) (e : expr) : option Z :=
  match e with
  | ELit z => check t z
  | EConst ty v => if ity_eqb ty t then check t v else None
  | ENeg a => if signed t then obind (eval t a) (fun x => check t (- x)) else None
  | ENot a => obind (eval t a) (fun x => Some (if signed t then - x - 1 else hi t - x))
  | EParen a => eval t a
  | ECast a from => obind (eval from a) (fun x => Some (wrap t x))
  | EBin o a b =>
      match o with
      | Shl => obind (eval t a) (fun x => obind (eval I32 b) (fun s =>
                 if (0 <=? s) && (s <? bits t) then Some (wrap t (x * 2 ^ s)) else None))
      | Shr => obind (eval t a) (fun x => obind (eval I32 b) (fun s =>
                 if (0 <=? s) && (s <? bits t) then Some (Z.shiftr x s) else None))
      | _ =>
        obind (eval t a) (fun x => obind (eval t b) (fun y =>
          match o with
          | Mul => check t (x * y)
          | Div => if y =? 0 then None else check t (Z.quot x y)
          | Rem => if y =? 0 then None else check t (Z.rem x y)
          | Add => check t (x + y)
          | Sub => check t (x - y)
          | BAnd => Some (Z.land x y)
          | BXor => Some (Z.lxor x y)
          | BOr => Some (Z.lor x y)
          | Shl | Shr => None
          end))
      end
  end.

(** What re-parsing the token sequence `<tokens of e> + k` yields (try_from.rs:112 without
    parentheses): `+ k` attaches to the right-most operand reachable through operators that bind
    looser than `+`;  `1 << 2` + 1  is  `1 << (2 + 1)`,  `A | B` + 1  is  `A | (B + 1)`. *)
Fixpoint splice_plus (e : expr) (k : Z) : expr :=
  match e with
  | EBin o l r =>
      if (prec o <? prec Add)%nat then EBin o l (splice_plus r k) else EBin Add e (ELit k)
  | _ => EBin Add e (ELit k)
  end.

(** try_from.rs:112  `quote! { #last_discriminant + #inc }`  (or `(#last_discriminant) + #inc`) *)
Definition splice (paren : bool) (e : expr) (k : Z) : expr :=
  if paren then EBin Add (EParen e) (ELit k) else splice_plus e k.

(** the expression keeps its meaning when `+ k` is appended textually *)
Definition plus_safe (e : expr) : bool :=
  match e with
  | EBin o _ _ => (prec Add <=? prec o)%nat
  | _ => true
  end.

(* ------------------------------------------------------------------ enums *)

Inductive fields_kind :=
| FUnit                 (* `V`      *)
| FTupleEmpty           (* `V()`    *)
| FBraceEmpty           (* `V{}`    *)
| FTuple (n : nat)      (* `V(T1, .., Tn)`, n >= 1 *)
| FBrace (n : nat).     (* `V{a1: T1, ..}`, n >= 1 *)

(** `syn::Fields::is_empty()` *)
Definition fields_empty (f : fields_kind) : bool :=
  match f with FUnit | FTupleEmpty | FBraceEmpty => true | _ => false end.

(** [vname] is the variant's name without `r#`; [vraw] says whether it is written `r#name` *)
Record variant := { vraw : bool; vname : str; vfields : fields_kind; vdiscr : option expr }.

(** try_from.rs:109 `format_ident!("__DISCRIMINANT_{}", ident.unraw())` (since 33c6018) *)
Definition const_prefix : str := [95;95;68;73;83;67;82;73;77;73;78;65;78;84;95]%N.
Definition const_name (v : variant) : str := const_prefix ++ vname v.

Definition fieldless (v : variant) : bool := fields_empty (vfields v).

(** The language rule (reference, "Enumerations / Discriminants"): explicit, or previous + 1 (0 for
    the first), every variant counted.  [None] = rustc rejects the enum (a discriminant does not
    evaluate or leaves the range of the repr type: E0080/E0370). *)
Fixpoint rust_table (t : ity) (next : Z) (vs : list variant) : option (list (variant * Z)) :=
  match vs with
  | [] => Some []
  | v :: vs' =>
      obind (match vdiscr v with Some e => obind (eval t e) (check t) | None => check t next end) (fun d =>
      obind (rust_table t (d + 1) vs') (fun tl => Some ((v, d) :: tl)))
  end.

Definition rust_discrs (t : ity) (vs : list variant) := rust_table t 0 vs.

(** try_from.rs:87-122: `last_discriminant` / `inc`, one `(const name, expression)` per variant whose
    `fields.is_empty()`; [inc] is bumped for every variant. *)
Fixpoint gen_consts (paren : bool) (last : expr) (inc : Z) (vs : list variant) : list (variant * expr) :=
  match vs with
  | [] => []
  | v :: vs' =>
      let last' := match vdiscr v with Some d => d | None => last end in
      let inc' := match vdiscr v with Some _ => 0 | None => inc end in
      let rest := gen_consts paren last' (inc' + 1) vs' in
      if fieldless v then (v, splice paren last' inc') :: rest else rest
  end.

(** try_from.rs:87-88 *)
Definition consts (paren : bool) (vs : list variant) : list (variant * expr) :=
  gen_consts paren (ELit 0) 0 vs.

(** `const __DISCRIMINANT_V: repr = <expr>;` for every entry; [None] = some constant is rejected,
    i.e. the expansion does not compile *)
Fixpoint eval_consts (t : ity) (cs : list (variant * expr)) : option (list (variant * Z)) :=
  match cs with
  | [] => Some []
  | (v, e) :: cs' =>
      obind (eval t e) (fun d => obind (eval_consts t cs') (fun tl => Some ((v, d) :: tl)))
  end.

Inductive result (A E : Type) := Ok (a : A) | Err (e : E).
Arguments Ok {A E} a.
Arguments Err {A E} e.

(** try_from.rs:135-140: `match val { C1 => Ok(V1), .., _ => Err(TryFromReprError::new(val)) }`,
    first matching arm wins *)
Fixpoint first_match (tbl : list (variant * Z)) (n : Z) : result variant Z :=
  match tbl with
  | [] => Err n
  | (v, d) :: tbl' => if d =? n then Ok v else first_match tbl' n
  end.

(** the derived `try_from`; [None] = the expansion does not compile *)
Definition try_from (paren : bool) (t : ity) (vs : list variant) : option (Z -> result variant Z) :=
  option_map first_match (eval_consts t (consts paren vs)).

(** every `inc` literal spliced for a field-less variant fits the repr type *)
Fixpoint inc_lits_ok (t : ity) (inc : Z) (vs : list variant) : bool :=
  match vs with
  | [] => true
  | v :: vs' =>
      let inc' := match vdiscr v with Some _ => 0 | None => inc end in
      (if fieldless v then in_range t inc' else true) && inc_lits_ok t (inc' + 1) vs'
  end.

(** every explicit discriminant can take a textual `+ k` (trivially so when parenthesised) *)
Definition splice_ok (paren : bool) (vs : list variant) : Prop :=
  paren = true \/
  Forall (fun v => match vdiscr v with Some e => plus_safe e = true | None => True end) vs.

Definition splice_okb (paren : bool) (vs : list variant) : bool :=
  paren || forallb (fun v => match vdiscr v with Some e => plus_safe e | None => true end) vs.

(** what rustc enforces on the enum declaration: discriminants evaluate in range and are distinct (E0081) *)
Definition enum_accepted (t : ity) (vs : list variant) (tbl : list (variant * Z)) : Prop :=
  rust_discrs t vs = Some tbl /\ NoDup (map snd tbl).

(* ------------------------------------------------------------------ repr selection *)

(** one nested meta item of a `#[repr(...)]` attribute *)
Inductive hint :=
| HInt (t : ity)                         (* `u8` .. `isize` *)
| HOther (name : str) (group : bool).    (* `C`, `packed`, `align(4)`, `packed(2)`, `a::b`, .. *)

(** utils.rs:1781-1811 `ReprInt::parse_attr_with`: the last integer hint of ONE attribute *)
Definition parse_attr (hs : list hint) : option ity :=
  fold_left (fun acc h => match h with HInt t => Some t | HOther _ _ => acc end) hs None.

(** utils.rs:1813-1828 `ReprInt::merge_attrs` *)
Definition merge_attrs (prev new : option ity) : option (option ity) :=
  match prev, new with
  | Some _, Some _ => None
  | Some p, None => Some (Some p)
  | None, x => Some x
  end.

(** utils.rs:1579-1600 `parse_attrs_with`: try_fold over the `repr` attributes.
    state: None = no attribute seen yet, Some r = merged so far;  outer None = syn::Error *)
Fixpoint fold_attrs (merged : option (option ity)) (attrs : list (list hint)) : option (option (option ity)) :=
  match attrs with
  | [] => Some merged
  | a :: rest =>
      let parsed := parse_attr a in
      match merged with
      | Some prev => obind (merge_attrs prev parsed) (fun m => fold_attrs (Some m) rest)
      | None => fold_attrs (Some parsed) rest
      end
  end.

(** try_from.rs:20-22 + `ReprInt::ty()`: `.map(into_inner).unwrap_or_default()`, default `isize` *)
Definition repr_of (attrs : list (list hint)) : option ity :=
  match fold_attrs None attrs with
  | None => None
  | Some None => Some Isize
  | Some (Some None) => Some Isize
  | Some (Some (Some t)) => Some t
  end.

Definition is_int (h : hint) : bool := match h with HInt _ => true | _ => false end.
Definition int_of (h : hint) : list ity := match h with HInt t => [t] | _ => [] end.
(** all integer hints of all `repr` attributes, in source order *)
Definition int_hints (attrs : list (list hint)) : list ity := flat_map (flat_map int_of) attrs.

(* ------------------------------------------------------------------ impl header *)

Inductive gparam := GLifetime (name : str) | GType (name : str) | GConst (name : str).
Definition garg (p : gparam) : str := match p with GLifetime n | GType n | GConst n => n end.

Record header := {
  h_impl_params : list gparam;          (* `impl<...>` *)
  h_trait_arg : str * list str;         (* the `T` of `TryFrom<T>`: path + generic arguments *)
  h_self : str * list str               (* `for X<...>` *)
}.

(** try_from.rs:124-128 *)
Definition gen_header (on_repr : bool) (repr_name enum_name : str) (ps : list gparam) : header :=
  if on_repr
  then {| h_impl_params := ps; h_trait_arg := (repr_name, map garg ps); h_self := (enum_name, []) |}
  else {| h_impl_params := ps; h_trait_arg := (repr_name, []); h_self := (enum_name, map garg ps) |}.

(** "the impl is provided for the enum together with all of its generic parameters" *)
Definition header_ok (h : header) (repr_name enum_name : str) (ps : list gparam) : Prop :=
  h_impl_params h = ps /\ h_trait_arg h = (repr_name, []) /\ h_self h = (enum_name, map garg ps).

(* ------------------------------------------------------------------ evaluation helpers for the tie *)

Fixpoint index_of (name : str) (vs : list variant) (i : nat) : nat :=
  match vs with
  | [] => i
  | v :: vs' => if str_eqb (vname v) name then i else index_of name vs' (S i)
  end.

(** [lo..lo+len-1] *)
Fixpoint zrange (from : Z) (len : nat) : list Z :=
  match len with O => [] | S k => from :: zrange (from + 1) k end.

(** Ok hits of the model over a list of inputs: (n, index of the variant in the declaration) and
    whether every Err carries its input *)
Definition hits (f : Z -> result variant Z) (vs : list variant) (dom : list Z) : list (Z * nat) * bool :=
  (flat_map (fun n => match f n with Ok v => [(n, index_of (vname v) vs 0)] | Err _ => [] end) dom,
   forallb (fun n => match f n with Ok _ => true | Err m => m =? n end) dom).

Definition run_hits (paren : bool) (t : ity) (vs : list variant) (dom : list Z) :=
  option_map (fun f => hits f vs dom) (try_from paren t vs).

(** whole domain of an 8/16-bit repr *)
Definition full_domain (t : ity) : list Z := zrange (lo t) (Z.to_nat (hi t - lo t + 1)).

Definition table_view (o : option (list (variant * Z))) (vs : list variant) :=
  option_map (map (fun p => (index_of (vname (fst p)) vs 0, snd p))) o.

(** one case of the differential run: the repr the macro selects, the language-rule table, the
    constants of the expansion, and the Ok hits over [dom] (None = whole domain of the repr) *)
Definition run_case (paren : bool) (attrs : list (list hint)) (vs : list variant) (dom : option (list Z)) :=
  match repr_of attrs with
  | None => None
  | Some t =>
      Some (t, table_view (rust_discrs t vs) vs,
            table_view (eval_consts t (consts paren vs)) vs,
            run_hits paren t vs (match dom with Some d => d | None => full_domain t end))
  end.

(* ================================================================== growth round *)

(* ------------------------------------------------------------------ the cast `v as repr` *)

(** `v as repr` of the variant at position [i] of the declaration: its language-rule discriminant.
    (rustc computes it; the compiled program of the check prints the same table as its oracle.) *)
Definition cast_at (tbl : list (variant * Z)) (i : nat) : option Z := option_map snd (nth_error tbl i).

(* ------------------------------------------------------------------ any evaluator *)

(** The same definitions with the constant evaluator abstracted: [ev] stands for whatever rustc
    computes for an expression at the repr type (arbitrary user expressions, any target width).
    The theorems only ask [ev] to treat `(e) + k` and literals the way Rust does. *)
Section AnyEvaluator.
  Variable t : ity.
  Variable ev : expr -> option Z.

  Fixpoint rust_table_g (next : Z) (vs : list variant) : option (list (variant * Z)) :=
    match vs with
    | [] => Some []
    | v :: vs' =>
        obind (match vdiscr v with Some e => obind (ev e) (check t) | None => check t next end) (fun d =>
        obind (rust_table_g (d + 1) vs') (fun tl => Some ((v, d) :: tl)))
    end.

  Fixpoint eval_consts_g (cs : list (variant * expr)) : option (list (variant * Z)) :=
    match cs with
    | [] => Some []
    | (v, e) :: cs' =>
        obind (ev e) (fun d => obind (eval_consts_g cs') (fun tl => Some ((v, d) :: tl)))
    end.

  Definition try_from_g (paren : bool) (vs : list variant) : option (Z -> result variant Z) :=
    option_map first_match (eval_consts_g (consts paren vs)).

  (** what the theorems need of the evaluator *)
  Definition evaluator_ok : Prop :=
    (forall a k, ev (EBin Add a (ELit k)) =
                 obind (ev a) (fun x => obind (check t k) (fun y => check t (x + y)))) /\
    (forall a, ev (EParen a) = ev a) /\
    ev (ELit 0) = Some 0.
End AnyEvaluator.

(* ------------------------------------------------------------------ which items get an impl at all *)

(** try_from.rs:13-45 `expand`: structs and unions are refused; on an enum the `#[repr]` attributes are
    parsed first (`?`), then the `#[try_from(...)]` attributes (utils.rs `ReprConversion`, merged by
    `parse_attrs`): none => nothing is emitted, `repr(<types>)` => "not supported yet". *)
Inductive item_kind := KStruct | KEnum | KUnion.
Inductive tf_arg :=
| TARepr                 (* `#[try_from(repr)]` *)
| TAReprTypes            (* `#[try_from(repr(T, ..))]` *)
| TAInvalid.             (* anything `ReprConversion::parse` rejects: `#[try_from(foo)]`, `#[try_from]`, `= ..` *)
Inductive conv := CDiscriminant | CTypes.
Inductive decision := DError | DNoImpl | DImpl.

(** utils.rs `ReprConversion::merge_attrs` *)
Definition merge_conv (prev new : conv) : option conv :=
  match prev, new with
  | CTypes, CTypes => Some CTypes
  | _, _ => None
  end.

(** utils.rs `parse_attrs_with` over the `try_from` attributes; outer None = syn::Error *)
Fixpoint parse_tf (merged : option conv) (attrs : list tf_arg) : option (option conv) :=
  match attrs with
  | [] => Some merged
  | a :: rest =>
      match a with
      | TAInvalid => None
      | _ =>
          let parsed := match a with TARepr => CDiscriminant | _ => CTypes end in
          match merged with
          | Some prev => obind (merge_conv prev parsed) (fun m => parse_tf (Some m) rest)
          | None => parse_tf (Some parsed) rest
          end
      end
  end.

Definition expand_decision (k : item_kind) (repr_attrs : list (list hint)) (tf : list tf_arg) : decision :=
  match k with
  | KStruct | KUnion => DError
  | KEnum =>
      match repr_of repr_attrs with
      | None => DError
      | Some _ =>
          match parse_tf None tf with
          | None => DError
          | Some None => DNoImpl                (* try_from.rs:79-81 `if self.attr.is_none() { return; }` *)
          | Some (Some CTypes) => DError        (* "`#[try_from(repr(...))]` attribute is not supported yet" *)
          | Some (Some CDiscriminant) => DImpl
          end
      end
  end.

(* ------------------------------------------------------------------ impl header with bounds, defaults and where-clause *)

(** a generic parameter as declared on the enum: inline bounds and a default (token text) *)
Record gparam_decl := { gp : gparam; gp_bounds : str; gp_default : option str }.

Record header_full := {
  hf_params : list (gparam * str);      (* `impl<...>`: parameter + its inline bounds, never a default *)
  hf_trait_arg : str * list str;
  hf_self : str * list str;
  hf_where : str                        (* where-clause, token text *)
}.

(** try_from.rs:83,124-128 with syn's `Generics::split_for_impl`: `ImplGenerics` prints the parameters
    with their bounds and WITHOUT defaults, `TypeGenerics` prints the bare names, the where-clause is
    passed on unchanged *)
Definition gen_header_full (on_repr : bool) (repr_name enum_name : str) (ps : list gparam_decl) (w : str) : header_full :=
  let ips := map (fun p => (gp p, gp_bounds p)) ps in
  let args := map (fun p => garg (gp p)) ps in
  if on_repr
  then {| hf_params := ips; hf_trait_arg := (repr_name, args); hf_self := (enum_name, []); hf_where := w |}
  else {| hf_params := ips; hf_trait_arg := (repr_name, []); hf_self := (enum_name, args); hf_where := w |}.
