//! C16: one request = one comma separated token list; reports
//!   * `tokens`: the flat token trees of the input (real proc_macro2 lexer),
//!   * `dm`    : the split made by the real `parsing::Expr` (token trees of every argument, `ident()` flag),
//!   * `syn`   : the split made by syn's FULL expression parser, as token-tree index ranges into `tokens`
//!               (measured on the parse stream itself, so syn's printer is not involved), the `Expr` variant,
//!               whether it is a plain identifier path, whether it has the shape `ident = expr`, and the set of
//!               `syn::Expr` variants occurring anywhere inside (generator coverage, measured).
use quote::ToTokens;
use serde_json::{json, Value};
use syn::parse::Parser as _;

pub fn tt_json(t: proc_macro2::TokenStream) -> Value {
    let mut v = Vec::new();
    for tt in t {
        v.push(match tt {
            proc_macro2::TokenTree::Ident(i) => json!({"i": i.to_string()}),
            proc_macro2::TokenTree::Punct(p) => {
                json!({"p": p.as_char().to_string(), "j": p.spacing() == proc_macro2::Spacing::Joint})
            }
            proc_macro2::TokenTree::Literal(l) => json!({"l": l.to_string()}),
            proc_macro2::TokenTree::Group(g) => {
                json!({"g": format!("{:?}", g.delimiter()), "s": tt_json(g.stream())})
            }
        });
    }
    json!(v)
}

pub fn kind(e: &syn::Expr) -> &'static str {
    use syn::Expr::*;
    match e {
        Array(_) => "Array",
        Assign(_) => "Assign",
        Async(_) => "Async",
        Await(_) => "Await",
        Binary(_) => "Binary",
        Block(_) => "Block",
        Break(_) => "Break",
        Call(_) => "Call",
        Cast(_) => "Cast",
        Closure(_) => "Closure",
        Const(_) => "Const",
        Continue(_) => "Continue",
        Field(_) => "Field",
        ForLoop(_) => "ForLoop",
        Group(_) => "Group",
        If(_) => "If",
        Index(_) => "Index",
        Infer(_) => "Infer",
        Let(_) => "Let",
        Lit(_) => "Lit",
        Loop(_) => "Loop",
        Macro(_) => "Macro",
        Match(_) => "Match",
        MethodCall(_) => "MethodCall",
        Paren(_) => "Paren",
        Path(_) => "Path",
        Range(_) => "Range",
        RawAddr(_) => "RawAddr",
        Reference(_) => "Reference",
        Repeat(_) => "Repeat",
        Return(_) => "Return",
        Struct(_) => "Struct",
        Try(_) => "Try",
        TryBlock(_) => "TryBlock",
        Tuple(_) => "Tuple",
        Unary(_) => "Unary",
        Unsafe(_) => "Unsafe",
        Verbatim(_) => "Verbatim",
        While(_) => "While",
        Yield(_) => "Yield",
        _ => "Other",
    }
}

struct Kinds(std::collections::BTreeSet<String>);
impl<'ast> syn::visit::Visit<'ast> for Kinds {
    fn visit_expr(&mut self, e: &'ast syn::Expr) {
        let mut k = kind(e).to_string();
        if let syn::Expr::Binary(b) = e {
            k = format!("Binary:{}", b.op.to_token_stream());
        }
        if let syn::Expr::Cast(c) = e {
            if c.ty.to_token_stream().to_string().contains('<') {
                k = "Cast:generic".to_string();
            }
        }
        self.0.insert(k);
        syn::visit::visit_expr(self, e);
    }
}

fn plain_ident(e: &syn::Expr) -> Option<String> {
    match e {
        syn::Expr::Path(p) if p.qself.is_none() && p.attrs.is_empty() => {
            p.path.get_ident().map(|i| i.to_string())
        }
        _ => None,
    }
}

pub fn run(src: &str) -> Value {
    use crate::guarded;
    let tokens: proc_macro2::TokenStream = match src.parse() {
        Ok(t) => t,
        Err(e) => return json!({"lex_error": e.to_string()}),
    };
    let flat = tt_json(tokens.clone());
    let total = tokens.clone().into_iter().count();

    let t1 = tokens.clone();
    let dm = guarded(move || {
        let r = syn::punctuated::Punctuated::<crate::parsing::Expr, syn::token::Comma>::parse_terminated
            .parse2(t1);
        match r {
            Ok(p) => json!({
                "ok": p.iter().map(|e| json!({
                    "tt": tt_json(e.to_token_stream()),
                    "ident": e.ident().is_some(),
                })).collect::<Vec<_>>(),
                "trailing": p.trailing_punct(),
            }),
            Err(e) => json!({"err": e.to_string()}),
        }
    });

    let t2 = tokens;
    let sy = guarded(move || {
        let parser = move |input: syn::parse::ParseStream| -> syn::Result<(Vec<Value>, bool)> {
            let consumed =
                |input: syn::parse::ParseStream| total - input.cursor().token_stream().into_iter().count();
            let mut v = Vec::new();
            let mut trailing = false;
            loop {
                if input.is_empty() {
                    break;
                }
                let start = consumed(input);
                let e: syn::Expr = input.parse()?;
                let end = consumed(input);
                let mut ks = Kinds(Default::default());
                syn::visit::Visit::visit_expr(&mut ks, &e);
                let assign_ident = match &e {
                    syn::Expr::Assign(a) if a.attrs.is_empty() => plain_ident(&a.left),
                    _ => None,
                };
                let assign_rhs_ident = match &e {
                    syn::Expr::Assign(a) if a.attrs.is_empty() => plain_ident(&a.right).is_some(),
                    _ => false,
                };
                v.push(json!({
                    "assign_rhs_ident": assign_rhs_ident,
                    "start": start,
                    "end": end,
                    "kind": kind(&e),
                    "ident": plain_ident(&e).is_some(),
                    "assign_ident": assign_ident,
                    "kinds": ks.0.into_iter().collect::<Vec<_>>(),
                }));
                trailing = false;
                if input.is_empty() {
                    break;
                }
                input.parse::<syn::Token![,]>()?;
                trailing = true;
            }
            Ok((v, trailing))
        };
        match parser.parse2(t2) {
            Ok((v, trailing)) => json!({"ok": v, "trailing": trailing}),
            Err(e) => json!({"err": e.to_string()}),
        }
    });

    json!({"tokens": flat, "dm": dm, "syn": sy})
}
