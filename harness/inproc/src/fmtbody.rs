//! Structural summary of the `fmt` bodies the Display-like and Debug derives emit
//! (used by the C02/C04/C05/C07 ties): delegate / write! / write_str / match-_variant / builders.
use quote::ToTokens;
use serde_json::{json, Value};

fn ts<T: ToTokens>(t: &T) -> String {
    t.to_token_stream().to_string()
}

fn path_str(p: &syn::Path) -> String {
    p.segments.iter().map(|s| s.ident.to_string()).collect::<Vec<_>>().join("::")
}

/// `lit, a, b = c, ...` of a `write!`/`format_args!` invocation (after an optional formatter expression)
fn macro_args(tokens: proc_macro2::TokenStream, has_formatter: bool) -> Value {
    use syn::parse::Parser as _;
    let parser = syn::punctuated::Punctuated::<syn::Expr, syn::Token![,]>::parse_terminated;
    match parser.parse2(tokens.clone()) {
        Ok(p) => {
            let mut it = p.into_iter();
            if has_formatter {
                it.next();
            }
            let lit = match it.next() {
                Some(syn::Expr::Lit(syn::ExprLit { lit: syn::Lit::Str(s), .. })) => Some(s.value()),
                _ => None,
            };
            let args: Vec<Value> = it
                .map(|e| match &e {
                    syn::Expr::Assign(a) => json!({"alias": ts(&a.left), "expr": ts(&a.right)}),
                    other => json!({"alias": null, "expr": ts(other)}),
                })
                .collect();
            json!({"lit": lit, "args": args})
        }
        Err(_) => json!({"raw": tokens.to_string()}),
    }
}

pub fn expr(e: &syn::Expr) -> Value {
    match e {
        syn::Expr::Call(c) => {
            let f = match &*c.func {
                syn::Expr::Path(p) => path_str(&p.path),
                other => ts(other),
            };
            let args: Vec<String> = c.args.iter().map(ts).collect();
            if f.starts_with("derive_more::core::fmt::") && f.ends_with("::fmt") && args.len() == 2 {
                let tr = f["derive_more::core::fmt::".len()..f.len() - "::fmt".len()].to_string();
                return json!({"k": "delegate", "trait": tr, "expr": args[0], "f": args[1]});
            }
            if f == "derive_more::core::fmt::Formatter::write_str" && args.len() == 2 {
                if let Some(syn::Expr::Lit(syn::ExprLit { lit: syn::Lit::Str(s), .. })) = c.args.iter().nth(1) {
                    return json!({"k": "write_str", "s": s.value(), "form": "path"});
                }
            }
            // builder chains of Debug
            let inner: Vec<Value> = c.args.iter().map(expr).collect();
            json!({"k": "call", "f": f, "args": inner})
        }
        syn::Expr::MethodCall(m) => {
            if m.method == "write_str" {
                if let Some(syn::Expr::Lit(syn::ExprLit { lit: syn::Lit::Str(s), .. })) = m.args.first() {
                    return json!({"k": "write_str", "s": s.value(), "form": "method", "recv": ts(&*m.receiver)});
                }
            }
            json!({"k": "other", "tokens": ts(e)})
        }
        syn::Expr::Macro(m) => {
            let name = path_str(&m.mac.path);
            if name == "derive_more::core::write" {
                let mut v = macro_args(m.mac.tokens.clone(), true);
                v["k"] = json!("write");
                return v;
            }
            if name == "derive_more::core::format_args" {
                let mut v = macro_args(m.mac.tokens.clone(), false);
                v["k"] = json!("format_args");
                return v;
            }
            json!({"k": "macro", "name": name, "tokens": m.mac.tokens.to_string()})
        }
        syn::Expr::Reference(r) => json!({"k": "ref", "mut": r.mutability.is_some(), "e": expr(&r.expr)}),
        syn::Expr::Lit(syn::ExprLit { lit: syn::Lit::Str(s), .. }) => json!({"k": "str", "s": s.value()}),
        syn::Expr::Match(m) => {
            let arms: Vec<Value> = m
                .arms
                .iter()
                .map(|a| json!({"pat": ts(&a.pat), "guard": a.guard.as_ref().map(|g| ts(&*g.1)), "body": expr(&a.body)}))
                .collect();
            json!({"k": "match", "on": expr(&m.expr), "on_tokens": ts(&*m.expr), "arms": arms})
        }
        syn::Expr::Block(b) => block(&b.block),
        syn::Expr::Path(p) => json!({"k": "path", "p": ts(p)}),
        other => json!({"k": "other", "tokens": ts(other)}),
    }
}

pub fn block(b: &syn::Block) -> Value {
    let mut lets = Vec::new();
    let mut last = Value::Null;
    for st in &b.stmts {
        match st {
            syn::Stmt::Local(l) => lets.push(json!({
                "pat": ts(&l.pat),
                "init": l.init.as_ref().map(|i| ts(&*i.expr)),
            })),
            syn::Stmt::Expr(e, _) => last = expr(e),
            other => last = json!({"k": "other", "tokens": ts(other)}),
        }
    }
    if lets.is_empty() {
        last
    } else {
        json!({"k": "block", "lets": lets, "tail": last})
    }
}

/// For an expansion: every `fn fmt` body, structurally.
pub fn fmt_bodies(tokens: &proc_macro2::TokenStream) -> Value {
    let file: syn::File = match syn::parse2(tokens.clone()) {
        Ok(f) => f,
        Err(e) => return json!({"unparsable": e.to_string()}),
    };
    let mut out = Vec::new();
    for it in &file.items {
        if let syn::Item::Impl(im) = it {
            for m in &im.items {
                if let syn::ImplItem::Fn(f) = m {
                    if f.sig.ident == "fmt" {
                        out.push(block(&f.block));
                    }
                }
            }
        }
    }
    json!(out)
}
