//! In-process harness: the real `derive_more-impl` sources (pulled in by `#[path]` from
//! `/repo/impl/src`, module list and derive table regenerated from `lib.rs` by `build.rs`)
//! driven over JSON lines.
//!
//! stdin : one JSON object per line, `{"cmd": ..., ...}`
//! stdout: one JSON object per line, same order.
#![recursion_limit = "128"]
#![allow(dead_code, unused_imports, unused_macros, clippy::all)]

use std::io::{BufRead, Write};
use std::panic;
use std::sync::Mutex;

use serde_json::{json, Value};

include!(concat!(env!("OUT_DIR"), "/mods.rs"));

mod fmtbody;
#[cfg(any(feature = "debug", feature = "display"))]
mod c16cmd;

type Expander = fn(&syn::DeriveInput) -> Result<proc_macro2::TokenStream, syn::Error>;

trait Output {
    fn res(self) -> Result<proc_macro2::TokenStream, syn::Error>;
}
impl Output for proc_macro2::TokenStream {
    fn res(self) -> Result<proc_macro2::TokenStream, syn::Error> {
        Ok(self)
    }
}
impl Output for Result<proc_macro2::TokenStream, syn::Error> {
    fn res(self) -> Result<proc_macro2::TokenStream, syn::Error> {
        self
    }
}

fn derives() -> Vec<(&'static str, &'static str, Expander)> {
    let mut v: Vec<(&'static str, &'static str, Expander)> = Vec::new();
    macro_rules! create_derive(
        ($feature:literal, $mod_:ident $(:: $mod_rest:ident)*, $trait_:ident, $fn_name: ident $(,$attribute:ident)* $(,)?) => {
            #[cfg(feature = $feature)]
            {
                fn f(ast: &syn::DeriveInput) -> Result<proc_macro2::TokenStream, syn::Error> {
                    Output::res($mod_$(:: $mod_rest)*::expand(ast, stringify!($trait_)))
                }
                v.push((stringify!($trait_), $feature, f as Expander));
            }
        }
    );
    include!(concat!(env!("OUT_DIR"), "/derives.rs"));
    v
}

static LAST_PANIC: Mutex<Option<(String, String)>> = Mutex::new(None);
/// derive_more frames (innermost first) of the last panic whose location is outside `impl/src`
/// (a panic raised inside syn/quote/proc-macro2 on behalf of the expander); used by C18 to map
/// such a panic back to the calling site.
static LAST_FRAMES: Mutex<Vec<String>> = Mutex::new(Vec::new());

fn panic_msg(p: &(dyn std::any::Any + Send)) -> String {
    if let Some(s) = p.downcast_ref::<&str>() {
        s.to_string()
    } else if let Some(s) = p.downcast_ref::<String>() {
        s.clone()
    } else {
        "<non-string panic>".into()
    }
}

fn guarded<F: FnOnce() -> Value + panic::UnwindSafe>(f: F) -> Value {
    *LAST_PANIC.lock().unwrap() = None;
    LAST_FRAMES.lock().unwrap().clear();
    match panic::catch_unwind(f) {
        Ok(v) => v,
        Err(p) => {
            let (loc, msg2) = LAST_PANIC
                .lock()
                .unwrap()
                .take()
                .unwrap_or_else(|| ("?".into(), String::new()));
            let mut msg = panic_msg(&*p);
            if msg == "<non-string panic>" && !msg2.is_empty() {
                msg = msg2;
            }
            let frames = std::mem::take(&mut *LAST_FRAMES.lock().unwrap());
            if frames.is_empty() {
                json!({"panic": {"msg": msg, "loc": loc}})
            } else {
                json!({"panic": {"msg": msg, "loc": loc, "frames": frames}})
            }
        }
    }
}

// ---------------------------------------------------------------- canonical summary of an expansion

fn ts<T: quote::ToTokens>(t: &T) -> String {
    t.to_token_stream().to_string()
}

fn summarize(tokens: &proc_macro2::TokenStream) -> Value {
    let file: syn::File = match syn::parse2(tokens.clone()) {
        Ok(f) => f,
        Err(e) => return json!({"unparsable": e.to_string()}),
    };
    let mut items = Vec::new();
    for it in &file.items {
        items.push(summarize_item(it));
    }
    json!(items)
}

fn summarize_item(it: &syn::Item) -> Value {
    match it {
        syn::Item::Impl(im) => {
            let attrs: Vec<String> = im.attrs.iter().map(ts).collect();
            let params: Vec<String> = im.generics.params.iter().map(ts).collect();
            let preds: Vec<String> = im
                .generics
                .where_clause
                .as_ref()
                .map(|w| w.predicates.iter().map(ts).collect())
                .unwrap_or_default();
            let tr = im.trait_.as_ref().map(|(bang, p, _)| {
                format!("{}{}", if bang.is_some() { "!" } else { "" }, ts(p))
            });
            let mut members = Vec::new();
            for m in &im.items {
                match m {
                    syn::ImplItem::Fn(f) => members.push(json!({
                        "kind": "fn",
                        "attrs": f.attrs.iter().map(ts).collect::<Vec<_>>(),
                        "sig": ts(&f.sig),
                        "vis": ts(&f.vis),
                        "body": ts(&f.block),
                    })),
                    syn::ImplItem::Type(t) => members.push(json!({
                        "kind": "type", "name": t.ident.to_string(), "ty": ts(&t.ty),
                    })),
                    syn::ImplItem::Const(c) => members.push(json!({
                        "kind": "const", "name": c.ident.to_string(), "ty": ts(&c.ty), "expr": ts(&c.expr),
                    })),
                    other => members.push(json!({"kind": "other", "tokens": ts(other)})),
                }
            }
            json!({
                "kind": "impl",
                "attrs": attrs,
                "params": params,
                "trait": tr,
                "self_ty": ts(&*im.self_ty),
                "where": preds,
                "members": members,
            })
        }
        syn::Item::Const(c) => {
            // `const _: () = { ... };` wrappers: look inside the block
            if let syn::Expr::Block(b) = &*c.expr {
                let mut inner = Vec::new();
                for st in &b.block.stmts {
                    if let syn::Stmt::Item(i) = st {
                        inner.push(summarize_item(i));
                    } else {
                        inner.push(json!({"kind": "stmt", "tokens": ts(st)}));
                    }
                }
                json!({"kind": "const_block", "attrs": c.attrs.iter().map(ts).collect::<Vec<_>>(), "items": inner})
            } else {
                json!({"kind": "const", "tokens": ts(c)})
            }
        }
        other => json!({"kind": "other", "tokens": ts(other)}),
    }
}

// ---------------------------------------------------------------- fmt literal parser (derive_more side)

#[cfg(any(feature = "debug", feature = "display"))]
mod fmtcmd {
    use super::fmt_parsing_top as p;
    use serde_json::{json, Value};

    fn arg(a: &p::Argument<'_>) -> Value {
        match a {
            p::Argument::Integer(i) => json!({"int": i.to_string()}),
            p::Argument::Identifier(s) => json!({"id": s}),
        }
    }
    fn count(c: &p::Count<'_>) -> Value {
        match c {
            p::Count::Integer(i) => json!({"int": i.to_string()}),
            p::Count::Parameter(a) => json!({"param": arg(a)}),
        }
    }
    fn format(f: &p::Format<'_>) -> Value {
        let spec = f.spec.as_ref().map(|s| {
            json!({
                "align": s.align.map(|(fill, al)| json!({
                    "fill": fill.map(|c| c as u32),
                    "align": format!("{:?}", al),
                })),
                "sign": s.sign.map(|x| format!("{:?}", x)),
                "alt": s.alternate.is_some(),
                "zero": s.zero_padding.is_some(),
                "width": s.width.as_ref().map(count),
                "prec": s.precision.as_ref().map(|pr| match pr {
                    p::Precision::Count(c) => json!({"count": count(c)}),
                    p::Precision::Star => json!("star"),
                }),
                "ty": format!("{:?}", s.ty),
            })
        });
        json!({"arg": f.arg.as_ref().map(arg), "spec": spec})
    }

    pub fn run(lit: &str) -> Value {
        let fs = p::format_string(lit).map(|fs| fs.formats.iter().map(format).collect::<Vec<_>>());
        let single = p::format(lit).map(|(rest, f)| json!({"rest_len": rest.len(), "format": format(&f)}));
        #[cfg(feature = "verif_hooks")]
        let ph: Value = crate::fmt::verif_hooks::placeholders(lit)
            .into_iter()
            .map(|(a, m, t)| {
                json!({
                    "arg": match a { Ok(i) => json!({"pos": i.to_string()}), Err(n) => json!({"name": n}) },
                    "mods": m,
                    "trait": t,
                })
            })
            .collect::<Vec<_>>()
            .into();
        #[cfg(not(feature = "verif_hooks"))]
        let ph = Value::Null;
        json!({"formats": fs, "single": single, "placeholders": ph})
    }
}

// ---------------------------------------------------------------- commands

fn handle(req: &Value, table: &[(&'static str, &'static str, Expander)]) -> Value {
    let cmd = req["cmd"].as_str().unwrap_or("");
    match cmd {
        "list" => json!({"derives": table.iter().map(|(n, f, _)| json!([n, f])).collect::<Vec<_>>()}),
        "expand" => {
            let derive = req["derive"].as_str().unwrap_or("").to_string();
            let item = req["item"].as_str().unwrap_or("").to_string();
            let want_summary = req["summary"].as_bool().unwrap_or(true);
            let want_fmt = req["fmt_bodies"].as_bool().unwrap_or(false);
            let Some((_, _, f)) = table.iter().find(|(n, _, _)| *n == derive) else {
                return json!({"bad_request": format!("unknown derive {derive}")});
            };
            let ast: syn::DeriveInput = match syn::parse_str(&item) {
                Ok(a) => a,
                Err(e) => return json!({"item_unparsable": e.to_string()}),
            };
            let f = *f;
            guarded(move || match f(&ast) {
                Ok(t) => {
                    let mut o = json!({"ok": t.to_string()});
                    if want_summary {
                        o["items"] = summarize(&t);
                    }
                    if want_fmt {
                        o["fmt_bodies"] = fmtbody::fmt_bodies(&t);
                    }
                    o
                }
                Err(e) => json!({"err": e.to_string()}),
            })
        }
        #[cfg(any(feature = "debug", feature = "display"))]
        "fmt_parse" => {
            let lit = req["lit"].as_str().unwrap_or("").to_string();
            guarded(move || fmtcmd::run(&lit))
        }
        // one private grammar function / combinator of fmt/parsing.rs on an arbitrary input (C03)
        "fmt_sub" => {
            let name = req["fn"].as_str().unwrap_or("").to_string();
            let input = req["input"].as_str().unwrap_or("").to_string();
            guarded(move || fmt_parsing_open::verif_open::call(&name, &input))
        }
        "fmt_comb" => {
            let name = req["comb"].as_str().unwrap_or("").to_string();
            let s = req["s"].as_str().unwrap_or("").to_string();
            let input = req["input"].as_str().unwrap_or("").to_string();
            guarded(move || fmt_parsing_open::verif_open::comb(&name, &s, &input))
        }
        #[cfg(all(any(feature = "debug", feature = "display"), feature = "verif_hooks"))]
        "fmt_attr" => {
            // tokens of the attribute body, e.g.  "{} {}", a, b = c
            let src = req["tokens"].as_str().unwrap_or("").to_string();
            let tokens: proc_macro2::TokenStream = match src.parse() {
                Ok(t) => t,
                Err(e) => return json!({"lex_error": e.to_string()}),
            };
            guarded(move || match fmt::verif_hooks::fmt_attribute(tokens) {
                Ok((lit, args, transparent, printed)) => json!({
                    "lit": lit,
                    "args": args.iter().map(|(a, e, i)| json!({"alias": a, "expr": e, "ident": i})).collect::<Vec<_>>(),
                    "transparent": transparent.map(|(e, t)| json!({"expr": e, "trait": t})),
                    "printed": printed,
                }),
                Err(e) => json!({"err": e.to_string()}),
            })
        }
        #[cfg(any(feature = "debug", feature = "display"))]
        "split_exprs" => {
            // comma separated expressions through the real `parsing::Expr`
            use syn::parse::Parser as _;
            let src = req["tokens"].as_str().unwrap_or("").to_string();
            let tokens: proc_macro2::TokenStream = match src.parse() {
                Ok(t) => t,
                Err(e) => return json!({"lex_error": e.to_string()}),
            };
            guarded(move || {
                let r = syn::punctuated::Punctuated::<parsing::Expr, syn::token::Comma>::parse_terminated
                    .parse2(tokens);
                match r {
                    Ok(p) => json!({"ok": p.iter().map(|e| json!({
                        "tokens": ts(e), "ident": e.ident().is_some()})).collect::<Vec<_>>()}),
                    Err(e) => json!({"err": e.to_string()}),
                }
            })
        }
        "split_syn" => {
            // oracle: syn's full expression parser on the same tokens
            use syn::parse::Parser as _;
            let src = req["tokens"].as_str().unwrap_or("").to_string();
            let tokens: proc_macro2::TokenStream = match src.parse() {
                Ok(t) => t,
                Err(e) => return json!({"lex_error": e.to_string()}),
            };
            guarded(move || {
                let r = syn::punctuated::Punctuated::<syn::Expr, syn::token::Comma>::parse_terminated
                    .parse2(tokens);
                match r {
                    Ok(p) => json!({"ok": p.iter().map(|e| json!({
                        "tokens": ts(e),
                        "ident": matches!(e, syn::Expr::Path(p) if p.qself.is_none() && p.attrs.is_empty() && p.path.get_ident().is_some())
                    })).collect::<Vec<_>>()}),
                    Err(e) => json!({"err": e.to_string()}),
                }
            })
        }
        #[cfg(any(feature = "debug", feature = "display"))]
        "c16_split" => {
            // C16: tokens + real derive_more split + syn-full split (index ranges), see c16cmd.rs
            c16cmd::run(req["tokens"].as_str().unwrap_or(""))
        }
        "tokens" => {
            // lex `src` and echo the flat token-tree structure (used to tie the Coq token model to proc_macro2)
            let src = req["tokens"].as_str().unwrap_or("").to_string();
            match src.parse::<proc_macro2::TokenStream>() {
                Ok(t) => json!({"ok": tt_json(t)}),
                Err(e) => json!({"lex_error": e.to_string()}),
            }
        }
        "expand_seq" => {
            // C19: expand several items one after the other ON THIS ONE THREAD (the real proc-macro server
            // expands all derives of a crate on one thread, so thread-local / static state of the macro
            // survives from one expansion to the next); `reqs` = list of `expand` requests
            let reqs: Vec<Value> = req["reqs"].as_array().cloned().unwrap_or_default();
            let mut out = Vec::with_capacity(reqs.len());
            for r in &reqs {
                let mut r = r.clone();
                r["cmd"] = json!("expand");
                out.push(handle(&r, table));
            }
            json!({"seq": out})
        }
        "hash_probe" => {
            // C19 control: iteration order of the same keys in (1) the crate's own `utils::HashSet` alias
            // (whatever hasher state it is built with) and (2) std's `HashSet` with `RandomState`
            let keys: Vec<String> = req["keys"]
                .as_array()
                .map(|a| a.iter().filter_map(|k| k.as_str().map(str::to_string)).collect())
                .unwrap_or_default();
            // one `insert` per key, as `entry(..).or_insert_with(..)` does it (no up-front `reserve`: the growth path
            // of the table decides where colliding keys end up)
            let mut alias: utils::HashSet<String> = Default::default();
            let mut random: std::collections::HashSet<String> = Default::default();
            for k in &keys {
                alias.insert(k.clone());
                random.insert(k.clone());
            }
            json!({
                "alias": alias.iter().cloned().collect::<Vec<_>>(),
                "random_state": random.iter().cloned().collect::<Vec<_>>(),
            })
        }
        "xid" => {
            // character classes used by the literal parser, for a range of code points
            let lo = req["lo"].as_u64().unwrap_or(0) as u32;
            let hi = req["hi"].as_u64().unwrap_or(0) as u32;
            use unicode_xid::UnicodeXID as _;
            let mut start = Vec::new();
            let mut cont = Vec::new();
            let mut ws = Vec::new();
            for c in lo..hi {
                if let Some(ch) = char::from_u32(c) {
                    if ch.is_xid_start() { start.push(c); }
                    if ch.is_xid_continue() { cont.push(c); }
                    if ch.is_whitespace() { ws.push(c); }
                }
            }
            json!({"start": start, "cont": cont, "ws": ws})
        }
        #[cfg(any(feature = "debug", feature = "display"))]
        "ident_probe" => {
            // C18: code points the REAL literal parser (fmt/parsing.rs `identifier`, through `format`) accepts at the
            // start / inside of a placeholder name but `proc_macro2::Ident::new` (what `format_ident!("{name}")` in
            // FmtAttribute::transparent_call calls) rejects, for a range of code points
            use fmt_parsing_top as p;
            let lo = req["lo"].as_u64().unwrap_or(0) as u32;
            let hi = req["hi"].as_u64().unwrap_or(0) as u32;
            let accepted = |name: &str| -> bool {
                let lit = format!("{{{name}}}");
                match p::format(&lit) {
                    Some((rest, f)) => {
                        rest.is_empty() && matches!(f.arg, Some(p::Argument::Identifier(n)) if n == name)
                    }
                    None => false,
                }
            };
            let ident_ok = |name: &str| -> bool {
                let name = name.to_string();
                panic::catch_unwind(move || proc_macro2::Ident::new(&name, proc_macro2::Span::call_site())).is_ok()
            };
            let mut bad_start = Vec::new();
            let mut bad_cont = Vec::new();
            let mut n_start = 0u32;
            let mut n_cont = 0u32;
            for c in lo..hi {
                if let Some(ch) = char::from_u32(c) {
                    let s = ch.to_string();
                    if accepted(&s) {
                        n_start += 1;
                        if !ident_ok(&s) { bad_start.push(c); }
                    }
                    for pre in ["a", "_"] {
                        let s = format!("{pre}{ch}");
                        if accepted(&s) {
                            n_cont += 1;
                            if !ident_ok(&s) { bad_cont.push(c); break; }
                        }
                    }
                }
            }
            json!({"bad_start": bad_start, "bad_cont": bad_cont, "n_start": n_start, "n_cont": n_cont})
        }
        _ => json!({"bad_request": format!("unknown cmd {cmd}")}),
    }
}

fn tt_json(t: proc_macro2::TokenStream) -> Value {
    let mut v = Vec::new();
    for tt in t {
        v.push(match tt {
            proc_macro2::TokenTree::Ident(i) => json!({"i": i.to_string()}),
            proc_macro2::TokenTree::Punct(p) => json!({"p": p.as_char().to_string(), "j": p.spacing() == proc_macro2::Spacing::Joint}),
            proc_macro2::TokenTree::Literal(l) => json!({"l": l.to_string()}),
            proc_macro2::TokenTree::Group(g) => json!({"g": format!("{:?}", g.delimiter()), "s": tt_json(g.stream())}),
        });
    }
    json!(v)
}

fn main() {
    panic::set_hook(Box::new(|info| {
        let loc = info
            .location()
            .map(|l| format!("{}:{}", l.file(), l.line()))
            .unwrap_or_else(|| "?".into());
        let msg = panic_msg(info.payload());
        if !loc.contains("/impl/src/") {
            // raised inside a dependency: record which derive_more functions are on the stack
            let bt = std::backtrace::Backtrace::force_capture().to_string();
            let mut frames = Vec::new();
            for l in bt.lines() {
                let l = l.trim();
                let sym = l.splitn(2, ": ").nth(1).unwrap_or("");
                if sym.contains("dm_inproc::")
                    && !sym.contains("dm_inproc::main")
                    && !sym.contains("dm_inproc::handle")
                    && !sym.contains("dm_inproc::guarded")
                    && !sym.contains("dm_inproc::derives")
                {
                    frames.push(sym.to_string());
                    if frames.len() >= 6 {
                        break;
                    }
                }
            }
            *LAST_FRAMES.lock().unwrap() = frames;
        }
        *LAST_PANIC.lock().unwrap() = Some((loc, msg));
    }));
    let table = derives();
    let stdin = std::io::stdin();
    let stdout = std::io::stdout();
    let mut out = std::io::BufWriter::new(stdout.lock());
    for line in stdin.lock().lines() {
        let Ok(line) = line else { break };
        if line.trim().is_empty() {
            continue;
        }
        let resp = match serde_json::from_str::<Value>(&line) {
            Ok(req) => {
                // run on a big-stack thread so deep recursion shows up as a result, not a crash of the batch
                let table2 = table.clone();
                let h = std::thread::Builder::new()
                    .stack_size(256 << 20)
                    .spawn(move || handle(&req, &table2))
                    .unwrap();
                match h.join() {
                    Ok(v) => v,
                    Err(_) => json!({"panic": {"msg": "thread died", "loc": "?"}}),
                }
            }
            Err(e) => json!({"bad_request": e.to_string()}),
        };
        writeln!(out, "{}", resp).unwrap();
        out.flush().unwrap();
    }
}
