// Regenerates the module list and the derive table from /repo/impl/src/lib.rs on every build,
// so the harness always mirrors what the real proc-macro crate declares.
use std::{env, fs, path::Path};

fn main() {
    let repo = env::var("VERIF_REPO").unwrap_or_else(|_| "/repo".to_string());
    println!("cargo:rerun-if-env-changed=VERIF_REPO");
    let src = format!("{repo}/impl/src");
    let lib = fs::read_to_string(format!("{src}/lib.rs")).expect("read lib.rs");
    println!("cargo:rerun-if-changed={src}/lib.rs");
    println!("cargo:rerun-if-changed={src}");

    // --- modules: every top-level `mod x;` (with the cfg attribute lines that precede it)
    let mut mods = String::new();
    let mut pending_attr = String::new();
    let mut in_attr = false;
    for line in lib.lines() {
        let t = line.trim();
        if in_attr {
            pending_attr.push_str(t);
            pending_attr.push('\n');
            if t.ends_with(")]") { in_attr = false; }
            continue;
        }
        if t.starts_with("#[cfg(") {
            pending_attr.push_str(t);
            pending_attr.push('\n');
            if !t.ends_with(")]") { in_attr = true; }
            continue;
        }
        let stripped = t.strip_prefix("pub(crate) ").unwrap_or(t);
        if let Some(rest) = stripped.strip_prefix("mod ") {
            if let Some(name) = rest.strip_suffix(';') {
                let fname = name.trim_start_matches("r#");
                let f1 = format!("{src}/{fname}.rs");
                let f2 = format!("{src}/{fname}/mod.rs");
                let path = if Path::new(&f1).exists() { f1 } else { f2 };
                mods.push_str(&pending_attr);
                mods.push_str(&format!("#[path = \"{path}\"]\npub(crate) mod {name};\n"));
            }
        }
        if !t.starts_with("#[") { pending_attr.clear(); }
    }
    // second inclusion of the two parsers as top-level modules (their pub(crate) API becomes callable)
    mods.push_str(&format!("#[path = \"{src}/fmt/parsing.rs\"]\n#[allow(dead_code)]\npub(crate) mod fmt_parsing_top;\n"));

    // --- derives: every create_derive!(...) invocation after the macro definition
    let mut derives = String::new();
    let marker = "create_derive!(\"";
    let norm: String = lib.split_whitespace().collect::<Vec<_>>().join(" ");
    let mut rest = norm.as_str();
    while let Some(p) = rest.find("create_derive!(") {
        let after = &rest[p + "create_derive!(".len()..];
        let after_t = after.trim_start();
        if !after_t.starts_with('"') { rest = after; continue; }
        let end = after.find(");").expect("close");
        derives.push_str("create_derive!(");
        derives.push_str(&after[..end]);
        derives.push_str(");\n");
        rest = &after[end..];
    }
    let _ = marker;
    let out = env::var("OUT_DIR").unwrap();
    fs::write(format!("{out}/mods.rs"), mods).unwrap();
    fs::write(format!("{out}/derives.rs"), format!("{{\n{derives}}}\n")).unwrap();
}
