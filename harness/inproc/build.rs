// Regenerates the module list and the derive table from /repo/impl/src/lib.rs on every build,
// so the harness always mirrors what the real proc-macro crate declares.
use std::{env, fs, path::Path};

fn main() {
    let repo = env::var("VERIF_REPO").unwrap_or_else(|_| "/repo".to_string());
    println!("cargo:rerun-if-env-changed=VERIF_REPO");
    let src = format!("{repo}/impl/src");
    let lib = fs::read_to_string(format!("{src}/lib.rs")).expect("read lib.rs");
    println!("cargo:rerun-if-changed={src}/lib.rs");
    println!("cargo:rerun-if-changed={src}");

    // --- modules: every top-level `mod x;` (with the cfg attribute lines that precede it)
    let mut mods = String::new();
    let mut pending_attr = String::new();
    let mut in_attr = false;
    for line in lib.lines() {
        let t = line.trim();
        if in_attr {
            pending_attr.push_str(t);
            pending_attr.push('\n');
            if t.ends_with(")]") { in_attr = false; }
            continue;
        }
        if t.starts_with("#[cfg(") {
            pending_attr.push_str(t);
            pending_attr.push('\n');
            if !t.ends_with(")]") { in_attr = true; }
            continue;
        }
        let stripped = t.strip_prefix("pub(crate) ").unwrap_or(t);
        if let Some(rest) = stripped.strip_prefix("mod ") {
            if let Some(name) = rest.strip_suffix(';') {
                let fname = name.trim_start_matches("r#");
                let f1 = format!("{src}/{fname}.rs");
                let f2 = format!("{src}/{fname}/mod.rs");
                let path = if Path::new(&f1).exists() { f1 } else { f2 };
                mods.push_str(&pending_attr);
                mods.push_str(&format!("#[path = \"{path}\"]\npub(crate) mod {name};\n"));
            }
        }
        if !t.starts_with("#[") { pending_attr.clear(); }
    }
    // second inclusion of the two parsers as top-level modules (their pub(crate) API becomes callable)
    mods.push_str(&format!("#[path = \"{src}/fmt/parsing.rs\"]\n#[allow(dead_code)]\npub(crate) mod fmt_parsing_top;\n"));

    // third inclusion of the literal parser: the unmodified source text with a child module appended
    // (src/parsing_open_tail.rs.in) through which its private grammar functions and combinators are callable
    {
        let out = env::var("OUT_DIR").unwrap();
        let psrc = fs::read_to_string(format!("{src}/fmt/parsing.rs")).expect("read fmt/parsing.rs");
        println!("cargo:rerun-if-changed={src}/fmt/parsing.rs");
        println!("cargo:rerun-if-changed=src/parsing_open_tail.rs.in");
        let tail = fs::read_to_string("src/parsing_open_tail.rs.in").expect("read parsing_open_tail.rs.in");
        let has_fn = |name: &str| {
            psrc.lines().any(|l| {
                let t = l.trim_start();
                let t = t.strip_prefix("pub(crate) ").unwrap_or(t);
                t.strip_prefix("fn ").map_or(false, |r| {
                    r.strip_prefix(name).map_or(false, |r2| r2.starts_with('(') || r2.starts_with('<'))
                })
            })
        };
        let mut open = psrc.clone();
        for line in tail.lines() {
            if let Some(rest) = line.strip_prefix("/*@") {
                if let Some((name, body)) = rest.split_once("*/") {
                    if has_fn(name) {
                        open.push_str(body);
                        open.push('\n');
                    }
                    continue;
                }
            }
            open.push_str(line);
            open.push('\n');
        }
        fs::write(format!("{out}/parsing_open.rs"), open).unwrap();
        mods.push_str(&format!("#[path = \"{out}/parsing_open.rs\"]\n#[allow(dead_code)]\npub(crate) mod fmt_parsing_open;\n"));
    }

    // --- derives: every create_derive!(...) invocation after the macro definition
    let mut derives = String::new();
    let marker = "create_derive!(\"";
    let norm: String = lib.split_whitespace().collect::<Vec<_>>().join(" ");
    let mut rest = norm.as_str();
    while let Some(p) = rest.find("create_derive!(") {
        let after = &rest[p + "create_derive!(".len()..];
        let after_t = after.trim_start();
        if !after_t.starts_with('"') { rest = after; continue; }
        let end = after.find(");").expect("close");
        derives.push_str("create_derive!(");
        derives.push_str(&after[..end]);
        derives.push_str(");\n");
        rest = &after[end..];
    }
    let _ = marker;
    let out = env::var("OUT_DIR").unwrap();
    fs::write(format!("{out}/mods.rs"), mods).unwrap();
    fs::write(format!("{out}/derives.rs"), format!("{{\n{derives}}}\n")).unwrap();
}
