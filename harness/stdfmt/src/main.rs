//! Oracle for the std side: rustc's own `rustc_parse_format::Parser` (nightly, rustc_private),
//! run as a library on each literal.  JSON lines in ({"lit": "..."}), JSON lines out.
#![feature(rustc_private)]
extern crate rustc_driver;
extern crate rustc_lexer;
extern crate rustc_parse_format;

use rustc_parse_format as pf;
use serde_json::{json, Value};
use std::io::{BufRead, Write};

fn pos(p: &pf::Position<'_>) -> Value {
    match p {
        pf::Position::ArgumentImplicitlyIs(i) => json!({"pos": i.to_string(), "implicit": true}),
        pf::Position::ArgumentIs(i) => json!({"pos": i.to_string(), "implicit": false}),
        pf::Position::ArgumentNamed(s) => json!({"name": s}),
    }
}

fn count(c: &pf::Count<'_>) -> Value {
    match c {
        pf::Count::CountIs(i) => json!({"int": i.to_string()}),
        pf::Count::CountIsName(s, _) => json!({"param": {"id": s}}),
        pf::Count::CountIsParam(i) => json!({"param": {"int": i.to_string()}}),
        pf::Count::CountIsStar(i) => json!({"star": i.to_string()}),
        pf::Count::CountImplied => Value::Null,
    }
}

fn run(lit: &str) -> Value {
    let mut p = pf::Parser::new(lit, None, None, false, pf::ParseMode::Format);
    let mut args = Vec::new();
    for piece in &mut p {
        if let pf::Piece::NextArgument(a) = piece {
            let f = &a.format;
            let ty_ok = matches!(f.ty, "" | "?" | "e" | "E" | "o" | "p" | "b" | "x" | "X");
            args.push(json!({
                "position": pos(&a.position),
                "fill": f.fill.map(|c| c as u32),
                "align": format!("{:?}", f.align),
                "sign": f.sign.map(|s| format!("{:?}", s)),
                "alt": f.alternate,
                "zero": f.zero_pad,
                "debug_hex": f.debug_hex.map(|d| format!("{:?}", d)),
                "width": count(&f.width),
                "prec": count(&f.precision),
                "ty": f.ty,
                "ty_ok": ty_ok,
            }));
        }
    }
    let errs: Vec<String> = p.errors.iter().map(|e| e.description.clone()).collect();
    json!({"args": args, "errors": errs})
}

fn main() {
    let stdin = std::io::stdin();
    let stdout = std::io::stdout();
    let mut out = std::io::BufWriter::new(stdout.lock());
    for line in stdin.lock().lines() {
        let Ok(line) = line else { break };
        if line.trim().is_empty() { continue; }
        let req: Value = serde_json::from_str(&line).unwrap();
        let resp = if let Some(lit) = req["lit"].as_str() {
            run(lit)
        } else if req["cmd"] == "idclass" {
            let lo = req["lo"].as_u64().unwrap() as u32;
            let hi = req["hi"].as_u64().unwrap() as u32;
            let mut start = Vec::new();
            let mut cont = Vec::new();
            for c in lo..hi {
                if let Some(ch) = char::from_u32(c) {
                    if rustc_lexer::is_id_start(ch) { start.push(c); }
                    if rustc_lexer::is_id_continue(ch) { cont.push(c); }
                }
            }
            json!({"start": start, "cont": cont})
        } else {
            json!({"bad_request": true})
        };
        writeln!(out, "{}", resp).unwrap();
    }
    out.flush().unwrap();
}
