"""C15 - expansions depend on no name from the caller's scope (macro hygiene by full paths).

proofs : coq/theories/C15 - over the list of ALL `quote!`/`parse_quote!` templates of /repo/impl/src (regenerated into
         coq/theories/Gen/Templates.v by tools/lib/c15_templates.py on every run): every head identifier of every
         template is closed (keyword / primitive / bound by a template / `derive_more`) or one of the explicitly
         listed known offenders; a closed template resolves identically in any two scopes that agree outside the
         prelude and outside arbitrary hostile user items (C15_scope_independent).
         Growth round: every macro a template invokes is `derive_more::core::<name>!`; every `derive_more::..` path is backed by
         an export of src/lib.rs (regenerated); every `recv.method(..)` site has a receiver whose type the macro fixes, or is the
         one listed site (`#expr.as_dyn_error()`); inherent calls are scope independent / trait-method calls observe the scope
         (logical skeleton of method resolution); a head that is not closed DOES observe the scope (completeness); `::x` heads
         depend on the crate table only; the generic parameters / lifetimes the macro introduces are `__`-prefixed (fresh
         against user parameters that are not), except the listed `'_request`.
tie    : T-gen (the templates ARE the source, lexer counts cross-checked with grep-level counts, fail closed) +
         the Coq classifier run on the REAL expansions of every corpus item (in-process expander) and compared,
         case by case, with rustc's verdict on the real macro.
oracle : hostile corpus compiled by rustc with the real proc-macro: every derive x expansion path inside
         (np) `#[no_implicit_prelude] mod { use ::derive_more; .. }` and (sh) a module defining its own
         Result/Ok/Err/Option/Some/None/String/Vec/Box/traits/macros; cargo build --message-format=json, diagnostics
         mapped to the case by file, and run-time equality of behaviour with the plain twin (pl).

Primitives (`bool`, `str`, `isize`, ..): they belong to the *language* prelude, which `#[no_implicit_prelude]` and
`#![no_std]` do not remove; they are reachable in every scope the property text names, so `allowed_head` accepts
them.  They ARE shadowable by a user item literally called `bool`/`str` (user items are looked up first); the
property text lists std-prelude names ("Result, Ok, .. Error and the like"), not primitive names, so this is only
measured (scope `pr`, reported under `observations`), never a violation.
"""
import json
import os
import re

from lib import common
from lib import c15_templates as T
from lib import c15_corpus as C

TRUSTED = [
    "Coq 8.16.1 kernel + vm_compute (coqc full .vo build); no axioms (Print Assumptions: closed)",
    "tools/lib/c15_templates.py: Rust lexer + quote!-template extractor (fails closed on unknown syntax; opener counts "
    "cross-checked against an independent regular-expression count per file on every run)",
    "the head-position classifier coq/theories/C15/Model.v is syntactic; it is validated against rustc on every run: it is "
    "evaluated on the real expansion of every corpus item and its per-case prediction is compared with the compiler's",
    "splice assumption: a local-like identifier that is free in its template (rhs, src, value, __derive_more_f, ..) is bound by "
    "the template it is spliced into (all such names are bound by some template; discharged by rustc in scope np)",
    "interpolated values are the user's own tokens, other templates, or format_ident! names (all local-like or derived from "
    "the trait name, C15_format_idents_local_like); tokens emitted without quote! are covered by the expansion tie only",
    "method calls: the model classifies the RECEIVER (user-typed or fixed by the macro); whether the method found on a macro-fixed "
    "receiver is inherent (autoref steps, inherent-before-trait) is rustc's - measured by scope mh (a blanket by-value user trait "
    "with every method name the expansions call), every dot call on a user-typed receiver the classifier finds in a real expansion "
    "must be disturbed by it",
    "tools/lib/c15_templates.py extract_exports: the `pub use` / `pub mod` items of src/lib.rs (cfg feature gates are not modelled; "
    "the corpus builds with `full`)",
    "rustc 1.95 name resolution as the oracle; tools/lib/c15_corpus.py (hand-written items that avoid every prelude name)",
]

NP_RE = re.compile(r"cannot find (?:[a-z, ]+ )?`([A-Za-z_][A-Za-z0-9_]*)` in this scope")
NP_MACRO_RE = re.compile(r"cannot find macro `([A-Za-z_][A-Za-z0-9_]*)`")
BT_RE = re.compile(r"`([^`]*)`")


# ------------------------------------------------------------------ helpers

def split_items(src):
    """corpus snippet -> [(derives, item source without the derive attribute)]"""
    out = []
    for chunk in re.split(r"(?=#\[derive\()", src):
        chunk = chunk.strip()
        if not chunk:
            continue
        m = re.match(r"#\[derive\(([^)]*)\)\]\s*", chunk)
        assert m, chunk
        ds = [d.strip().replace("derive_more::", "") for d in m.group(1).split(",")]
        out.append((ds, chunk[m.end():]))
    return out


def idents_of(src):
    return set(t[1] for t in T.lex(src) if t[0] in ("id", "life"))


def expansion_ttok(text):
    return T.to_ttok(T.tree(T.lex(text, "<expansion>"), "<expansion>"), "<expansion>")


def coq_template(tt, fname):
    return '{| t_file := %s; t_fn := ""; t_index := 0; t_line := 0; t_var := ""; t_tokens := %s |}' % (T.coq_string(fname), T.coq_ttoks(tt, 0))


def flat_words(tt):
    """flattened token words (interpolations and repetitions become None separators)"""
    out = []
    for x in tt:
        k = x[0]
        if k in ("id", "punct"):
            out.append(x[1])
        elif k == "lit":
            out.append("\0lit")
        elif k == "interp":
            out.append(None)
        elif k == "rep":
            out.append(None)
            out += flat_words(x[1])
            out.append(None)
        elif k == "group":
            out.append(x[1])
            out += flat_words(x[2])
            out.append(T.OPEN[x[1]])
    return out


def longest_literal_run(tt):
    best, cur = [], []
    for w in flat_words(tt) + [None]:
        if w is None or w == "\0lit":
            if len(cur) > len(best):
                best = cur
            cur = []
        else:
            cur.append(w)
    return best


def token_lines(tt, name):
    """lines of the identifier tokens `name` that are not path tails / field accesses / declarations"""
    out = []
    prev = None
    for x in tt:
        if x[0] == "id" and x[1] == name:
            tail = prev is not None and ((prev[0] == "punct" and prev[1] in (".", "'") ) or (prev[0] == "id" and prev[1] in ("type", "fn")))
            if prev is not None and prev[0] == "punct" and prev[1] == "::":
                tail = name != "std" or True
            if name == "std" and prev is not None and prev[0] == "punct" and prev[1] == "::":
                tail = False
            if not tail:
                out.append(x[2])
        elif x[0] == "rep":
            out += token_lines(x[1], name)
        elif x[0] == "group":
            out += token_lines(x[2], name)
        prev = x
    return out


def bare_name(shown):
    return shown.rstrip("!").lstrip(":")


def qualified(shown):
    """proposed replacement for a bare name"""
    table = {"Ok": "derive_more::core::result::Result::Ok", "Err": "derive_more::core::result::Result::Err",
             "Result": "derive_more::core::result::Result", "Option": "derive_more::core::option::Option",
             "Some": "derive_more::core::option::Option::Some", "None": "derive_more::core::option::Option::None",
             "panic!": "derive_more::core::panic!", "stringify!": "derive_more::core::stringify!",
             "matches!": "derive_more::core::matches!", "write!": "derive_more::core::write!",
             "format_args!": "derive_more::core::format_args!", "unreachable!": "derive_more::core::unreachable!",
             "::std": "a `derive_more::__private` re-export of std::backtrace::Backtrace (src/lib.rs re-exports only `core`)"}
    return table.get(shown, "derive_more::core::...::" + shown)


# ------------------------------------------------------------------ diagnostics

def parse_messages(out):
    msgs = []
    for l in out.splitlines():
        if not l.startswith("{"):
            continue
        try:
            m = json.loads(l)
        except Exception:
            continue
        if m.get("reason") == "compiler-message" and m["message"].get("level") == "error":
            msgs.append(m["message"])
    return msgs


def all_spans(msg):
    for s in msg.get("spans", []):
        yield s
    for ch in msg.get("children", []):
        for s in all_spans(ch):
            yield s


def all_text(msg):
    yield msg.get("message", "")
    for s in msg.get("spans", []):
        if s.get("label"):
            yield s["label"]
    for ch in msg.get("children", []):
        for t in all_text(ch):
            yield t


def names_in_message(msg, modname, scope, hostile, prelude_lines):
    """names of the caller's scope this diagnostic shows the expansion to depend on"""
    found = set()
    texts = list(all_text(msg))
    for t in texts:
        if C.MACRO_MARK in t:
            found.add(t.split(C.MACRO_MARK)[1].split()[0].strip('"') + "!")
        for m in NP_MACRO_RE.finditer(t):
            found.add(m.group(1) + "!")
        for m in NP_RE.finditer(t):
            if m.group(1) + "!" not in found:
                found.add(m.group(1))
        for m in BT_RE.finditer(t):
            b = m.group(1)
            if b.startswith(modname + "::") and b[len(modname) + 2:] in hostile:
                found.add(b[len(modname) + 2:])
    if scope in ("sh", "pr", "bc"):
        for s in all_spans(msg):
            if os.path.basename(s["file_name"]) == modname + ".rs" and s["line_start"] <= prelude_lines:
                for tx in s.get("text", []):
                    hl = tx["text"][tx["highlight_start"] - 1:tx["highlight_end"] - 1]
                    for w in re.findall(r"[A-Za-z_][A-Za-z0-9_]*", hl):
                        if w in hostile and C.MACRO_MARK not in hl:
                            found.add(w)
    return found


# ------------------------------------------------------------------ the corpus run

PR_PRELUDE = "pub struct bool; pub struct str; pub struct isize;"
# every trait item the expansions reach on user types (operators, conversions, formatting, iteration, constructors)
OPERATOR_METHODS = ["default", "new", "product", "provide", "as_dyn_error", "add", "sub", "mul", "div", "rem", "shl", "shr", "bitand", "bitor", "bitxor", "not", "neg",
                    "add_assign", "sub_assign", "mul_assign", "div_assign", "rem_assign", "shl_assign", "shr_assign",
                    "bitand_assign", "bitor_assign", "bitxor_assign", "deref", "deref_mut", "index", "index_mut",
                    "from", "into", "try_from", "try_into", "from_str", "into_iter", "as_ref", "as_mut", "sum", "product",
                    "fmt", "source", "clone", "to_string", "map", "unwrap"]
IN_PRELUDE = ("impl E1 { pub fn as_dyn_error(&self) -> &(dyn ::std::error::Error + 'static) { &crate::h::OTHER } }")
INFO_SCOPES = {"pr": [PR_PRELUDE, ["IsVariant_enum", "FromStr_enum", "TryFrom_default_repr"]],
               # a blanket, by-value user trait with a method for every name the expansions call with dot syntax (filled in at
               # run time from the model's inventory) and for the operator / conversion method names
               "mh": ["", []],
               # the user's source type has an inherent method called like the vendored thiserror helper
               "in": [IN_PRELUDE, ["Error_named_source", "Error_tuple_source"]]}


def set_hijack_scope(method_names, case_ids):
    names = sorted(set(n for n in method_names if re.match(r"^[a-z_][a-z0-9_]*$", n)))
    body = "\n".join("    fn %s(self) -> Self { self }" % n for n in names)
    INFO_SCOPES["mh"][0] = "pub trait Hijack: ::core::marker::Sized {\n%s\n}\nimpl<T> Hijack for T {}" % body
    INFO_SCOPES["mh"][1] = list(case_ids)


BC_NAMES = {}      # case id -> sorted non-`__` binder names of its real expansion (scope bc)


def bc_prelude(names):
    """unit items called like the binders: unit structs, constants and glob-imported unit variants, one per line"""
    lines, variants = [], []
    for k, nme in enumerate(names):
        if k % 3 == 0:
            lines.append("pub struct %s;" % nme)
        elif k % 3 == 1:
            lines.append("pub const %s: () = ();" % nme)
        else:
            variants.append(nme)
    for v in variants:
        lines.append("pub use self::BcUnitVariants::%s;" % v)
    lines.append("pub enum BcUnitVariants { %s BcNone }" % "".join(v + ", " for v in variants))
    return "\n".join(lines)


def module_source(c, scope):
    if scope == "bc":
        return bc_prelude(BC_NAMES[c["id"]]) + "\n" + C.module_source(c, "pl")
    if scope in INFO_SCOPES:
        return INFO_SCOPES[scope][0] + "\n" + C.module_source(c, "pl")
    return C.module_source(c, scope)


def prelude_lines(scope, cid=None):
    if scope == "bc":
        return bc_prelude(BC_NAMES[cid]).count("\n") + 1
    if scope == "sh":
        return C.hostile_prelude().count("\n") + 1
    if scope in INFO_SCOPES:
        return INFO_SCOPES[scope][0].count("\n") + 1
    return 0


def build_corpus(chk, cases, name, toolchain=None, crate_attrs="", target_dir=None):
    """-> (failed: {(id,scope): [messages]}, outputs: {(id,scope): obs}, rounds)"""
    active = [(c, s) for c in cases for s in C.SCOPES]
    for sc, (_, ids) in INFO_SCOPES.items():
        active += [(c, sc) for c in cases if c["id"] in ids]
    active += [(c, "bc") for c in cases if c["id"] in BC_NAMES]
    failed = {}
    rounds = 0
    outputs = {}
    # name the target directory explicitly: common.cargo then takes a lock per directory (a private VERIF_RT_TARGET does not
    # wait for other checks' cargo runs; cargo itself still locks the directory)
    target_dir = target_dir or common.rt_target_dir()
    while True:
        rounds += 1
        extra = {"%s_%s.rs" % (s, c["id"]): module_source(c, s) for c, s in active}
        d = common.make_crate(name, C.main_rs(active, crate_attrs), extra_files=extra)
        rc, out = common.cargo(d, ([toolchain] if toolchain else []) + ["build", "--message-format=json"], timeout=1500,
                               target_dir=target_dir)
        if rc == 0:
            break
        msgs = parse_messages(out)
        bad = {}
        for m in msgs:
            files = set(os.path.basename(s["file_name"])[:-3] for s in all_spans(m) if s["file_name"].startswith("src"))
            files.discard("main")
            for f in files:
                bad.setdefault(f, []).append(m)
        hit = [(c, s) for c, s in active if "%s_%s" % (s, c["id"]) in bad]
        if not hit or rounds > 12:
            raise common.BuildError("corpus crate does not build and no diagnostic maps to a case:\n" + out[-3000:])
        for c, s in hit:
            failed.setdefault((c["id"], s), []).extend(bad["%s_%s" % (s, c["id"])])
        active = [(c, s) for c, s in active if "%s_%s" % (s, c["id"]) not in bad]
    chk.log("corpus crate builds after %d round(s); %d module(s) rejected by rustc" % (rounds, len(failed)))
    import subprocess
    binp = os.path.join(target_dir or common.rt_target_dir(), "debug", name)
    p = subprocess.run([binp], stdout=subprocess.PIPE, stderr=subprocess.PIPE, text=True, timeout=600, errors="replace")
    if p.returncode != 0:
        raise common.BuildError("corpus binary failed: rc=%s %s" % (p.returncode, p.stderr[-2000:]))
    for line in p.stdout.splitlines():
        parts = line.split("\t", 2)
        if len(parts) == 3:
            outputs[(parts[0], parts[1])] = parts[2]
    return failed, outputs, rounds


def build_corpus_info(cases, name, toolchain, crate_attrs, target_dir):
    """plain modules only; -> ({case id: [messages]}, None, 1)"""
    active = [(c, "pl") for c in cases]
    extra = {"pl_%s.rs" % c["id"]: C.module_source(c, "pl") for c in cases}
    d = common.make_crate(name, C.main_rs(active, crate_attrs), extra_files=extra)
    rc, out = common.cargo(d, ([toolchain] if toolchain else []) + ["build", "--message-format=json"], timeout=1500, target_dir=target_dir)
    failed = {}
    if rc != 0:
        for m in parse_messages(out):
            for sp in all_spans(m):
                f = os.path.basename(sp["file_name"])[:-3]
                if f.startswith("pl_"):
                    failed.setdefault(f[3:], []).append(m)
    return failed, None, 1


# ------------------------------------------------------------------ the check

def run(tier, seed, replay):
    chk = common.Check("C15", tier, seed)
    chk.proof_broken = False
    st = None
    only_case = None
    only_key = None
    if replay:
        rp = json.load(open(replay)).get("replay", {})
        only_case = rp.get("case")
        only_key = rp.get("key")

    # ---- T-gen
    try:
        ex = T.generate(common.REPO, common.COQ)
    except T.TranslateError as e:
        chk.violation("translator-fail-closed", {"error": str(e)},
                      "the template extractor met syntax it does not know, or its counts disagree with grep: %s" % e, no_input=True)
        return chk.finish(proof=None, rule="T-gen failed closed", trusted=TRUSTED)
    cnt = ex["counts"]
    chk.log("T-gen: %d templates (%d tokens) in %d files; openers lexer=%d grep=%d (in cfg(test): %d); format_ident! lexer=%d grep=%d" % (
        cnt["templates"], cnt["tokens"], cnt["files"], cnt["openers_lexer"], cnt["openers_grep"], cnt["openers_in_cfg_test"],
        cnt["format_ident_lexer"], cnt["format_ident_grep"]))

    # ---- proofs (re-checked against the regenerated list)
    st = common.check_proofs(chk, "C15", extra_dirs=("Gen",))

    # ---- the model on the templates
    try:
        terms = common.coq_eval(["Verif.C15.Model", "Verif.Gen.Templates"], [
            "offenders templates",
            "map (fun t => (t_file t, t_line t, map show_head (head_idents t), binders t, method_idents t)) templates",
            "global_binders templates",
            "known_offender_keys",
            "flat_map macro_paths templates",
            "flat_map (fun t => map (fun s => (t_file t, t_line t, ms_name s, method_site_closed (global_typed_binders templates) s)) (method_sites t)) templates",
            "method_offenders templates",
            "known_method_sites",
            "introduced_generics templates format_idents",
            "known_non_dunder_generics",
            "filter (fun g => negb (starts_dunder g)) (introduced_generics templates format_idents)",
            "List.length (flat_map dm_paths templates)",
            "flat_map (fun t => map (fun p => (t_file t, t_line t, hd EmptyString p, last_seg p, assoc_path_closed templates (generic_params t) p)) (assoc_paths t)) templates",
            "assoc_offenders templates",
            "known_assoc_sites",
            "flat_map (fun t => map (fun x => (t_file t, t_line t, x, starts_dunder x, binder_listed x)) (pattern_binders t)) templates"], tag="c15m")
    except common.BuildError as e:
        chk.violation("model-does-not-evaluate", {"error": str(e)[-3000:]}, "Model.v / Gen/Templates.v do not compile", no_input=True)
        return chk.finish(proof=st, rule="model failed", trusted=TRUSTED)
    (m_off, m_tpl, m_gb, m_known, m_macros, m_msites, m_moff, m_mknown, m_gens, m_gknown, m_nondunder, m_ndm,
     m_asites, m_aoff, m_aknown, m_binders) = terms
    m_aknown = [m_aknown] if isinstance(m_aknown, str) else list(m_aknown)
    m_known = [m_known] if isinstance(m_known, str) else list(m_known)
    m_mknown = [m_mknown] if isinstance(m_mknown, str) else list(m_mknown)
    m_gknown = [m_gknown] if isinstance(m_gknown, str) else list(m_gknown)
    m_off = [tuple(o) for o in m_off]
    assert len(m_tpl) == len(ex["templates"])
    n_heads = 0
    head_hist = {}
    methods = set()
    for (f, line, heads, binders, meths), t in zip(m_tpl, ex["templates"]):
        assert f == t["file"] and line == t["line"]
        n_heads += len(heads)
        for h in heads:
            head_hist[h] = head_hist.get(h, 0) + 1
        methods |= set(meths)
        chk.count(("template", f, t["index"]), nontrivial=len(heads) > 0)
        chk.bump("templates:" + f)
    chk.bump("head_identifiers", n_heads)
    # offenders with file:line
    off_by_key = {}
    for (f, fn, shown) in m_off:
        key = "%s:%s" % (f, shown)
        lines = []
        for t in ex["templates"]:
            if t["file"] == f and t["fn"] == fn:
                lines += token_lines(t["tokens"], bare_name(shown))
        e = off_by_key.setdefault(key, {"file": f, "name": shown, "sites": set(), "fns": set()})
        e["sites"] |= set("impl/src/%s:%d" % (f, l) for l in lines)
        e["fns"].add(fn)
    chk.log("model: %d head identifiers, %d offender occurrence(s) in %d class(es): %s" % (
        n_heads, len(m_off), len(off_by_key), ", ".join(sorted(off_by_key))))
    off_names_by_file = {}
    for k, e in off_by_key.items():
        off_names_by_file.setdefault(e["file"], set()).add(e["name"])

    # ---- inventories of the growth round: macros, method calls, introduced generic names
    chk.bump("macro_invocations", len(m_macros))
    chk.bump("method_call_sites", len(m_msites))
    chk.bump("derive_more_paths", m_ndm)
    for pth in m_macros:
        if len(pth) < 3 or pth[0] != "derive_more" or pth[1] != "core":
            chk.notes.append("macro path %s is not derive_more::core::<name> (also reported as a head offender)" % "::".join(pth))
    method_site_table = []
    for (f, line, nme, closed_) in m_msites:
        method_site_table.append({"site": "impl/src/%s:%d" % (f, line), "method": nme, "closed": closed_ == "true"})
    method_offender_keys = {}
    for (f, nme) in [tuple(o) for o in m_moff]:
        mkey = "%s:.%s" % (f, nme)
        method_offender_keys[mkey] = [x["site"] for x in method_site_table if x["method"] == nme and x["site"].startswith("impl/src/" + f)]
    chk.bump("pattern_binders_in_templates", len(m_binders))
    tpl_binders = {}
    for (f, line, x, dd, listed) in m_binders:
        tpl_binders.setdefault(x, {"dunder": dd == "true", "listed": listed == "true", "sites": set()})["sites"].add("impl/src/%s:%d" % (f, line))
    for x, v in sorted(tpl_binders.items()):
        if not v["dunder"] and not v["listed"] and not only_key:
            chk.violation("binder-unlisted:" + x, {"name": x, "sites": sorted(v["sites"])},
                          "template(s) at %s introduce the pattern binder `%s`, which is neither `__`-prefixed nor in the listed class" % (
                              ", ".join(sorted(v["sites"])), x), no_input=True)
    chk.bump("associated_path_sites", len(m_asites))
    assoc_offender_keys = {}
    for (f, shown) in [tuple(o) for o in m_aoff]:
        akey = "%s:%s" % (f, shown)
        root, last = shown.split("::", 1)
        assoc_offender_keys[akey] = {"name": last, "sites": sorted(set("impl/src/%s:%d" % (x[0], x[1]) for x in m_asites
                                                                   if x[0] == f and x[2] == root and x[3] == last and x[4] == "false"))}
    for g in m_nondunder:
        if g not in m_gknown and not only_key:
            chk.violation("generic-name:" + g, {"name": g},
                          "the macro introduces the generic parameter / lifetime `%s` next to the user's own parameters without the `__` "
                          "prefix" % g, no_input=True)

    # ---- corpus
    cases = [c for c in C.CASES if tier == "thorough" or c["tier"] == "quick"]
    if only_case:
        cases = [c for c in C.CASES if c["id"] == only_case] or cases
    derives_covered = set(d for c in cases for d in c["derives"])
    missing = sorted(set(C.DERIVES) - derives_covered)
    if missing and not only_case:
        chk.violation("corpus-misses-derive", {"derives": missing}, "no corpus case for derives %s" % missing, no_input=True)
    # the list of derives the corpus knows must be the one lib.rs declares
    lib_derives = set(re.findall(r"create_derive!\(\s*\"[a-z_]+\",\s*[a-z_#:]+,\s*([A-Za-z]+)\s*,",
                                 open(os.path.join(common.REPO, "impl/src/lib.rs")).read()))
    if lib_derives != set(C.DERIVES):
        chk.violation("corpus-derive-table", {"lib.rs": sorted(lib_derives ^ set(C.DERIVES))},
                      "impl/src/lib.rs declares derives the corpus does not know (or vice versa): %s" % sorted(lib_derives ^ set(C.DERIVES)),
                      no_input=True)

    inproc = common.build_inproc()
    state = {"expansions": [], "rounds": 0, "n_valid": 0}
    captured = {}        # derive -> {case id: binder names rustc reports as captured}
    exhibited = {}       # key -> [case ids]
    case_binders = {}        # case id -> non-`__` binders the macro introduces in the real expansion (not user identifiers)
    derive_binders = {}      # derive -> the same
    predicted_methods = {}   # case id -> method names called with dot syntax on a user-typed receiver in the real expansion
    observations = {"primitive_shadowing(pr)": {}, "inherent_namesake(in)": {},
                    "trait_method_hijack(mh)": {"user_receiver_rejected": [], "std_receiver_rejected": {}, "unaffected": 0}}
    hostile = C.hostile_names() | {"bool", "str", "isize"}

    def classify_expansions(cases_):
        """(a) the classifier on the real expansion of every item (in-process expander)"""
        reqs, owner = [], []
        for c in cases_:
            for ds, item in split_items(c["src"]):
                for dname in ds:
                    reqs.append({"cmd": "expand", "derive": dname, "item": item, "summary": False})
                    owner.append((c["id"], dname, item))
        resps = common.run_jsonl(inproc, reqs)
        exprs, ex_owner = [], []
        for (cid, dname, item), r in zip(owner, resps):
            if "ok" not in r:
                chk.violation("corpus-item-not-expandable", {"case": cid, "derive": dname, "item": item, "response": r},
                              "corpus item of %s is rejected by the in-process expander: %s" % (cid, str(r)[:200]), no_input=True)
                continue
            try:
                tt = expansion_ttok(r["ok"])
            except T.TranslateError as e:
                chk.violation("expansion-not-lexable", {"case": cid, "derive": dname, "error": str(e)}, str(e), no_input=True)
                continue
            state["expansions"].append((cid, tt))
            exprs.append("let t := %s in (offenders_of gb t, method_offenders_of (typed_binders t ++ gtb) t, assoc_offenders_of templates t, map (fun x => (x, starts_dunder x, binder_listed x)) (pattern_binders t))" % coq_template(tt, cid))
            ex_owner.append((cid, dname, item))
        pre = ("Definition gb := Eval vm_compute in global_binders templates.\n"
               "Definition gtb := Eval vm_compute in global_typed_binders templates.")
        preds = common.coq_eval(["Verif.C15.Model", "Verif.Gen.Templates"], exprs, preamble=pre, batch=40, tag="c15e")
        predicted = {}     # case id -> set of shown heads that come from the macro, not from the user's item
        for (cid, dname, item), (offs, moffs, aoffs, pbs) in zip(ex_owner, preds):
            user = idents_of(item)
            for (x, dd, listed) in pbs:
                if x in user or dd == "true":
                    continue
                # a binder the MACRO chose (not one of the user's field names) without the `__` prefix
                case_binders.setdefault(cid, set()).add(x)
                derive_binders.setdefault(dname, set()).add(x)
                if listed != "true":
                    chk.violation("binder-unlisted:" + x, {"case": cid, "derive": dname, "name": x, "item": item},
                                  "the real expansion of %s (derive %s) binds `%s` in pattern position: neither `__`-prefixed nor in the "
                                  "listed class of Model.binder_listed" % (cid, dname, x))
            for mo in moffs:
                predicted_methods.setdefault(cid, set()).add(mo[1])
            for ao in aoffs:
                predicted_methods.setdefault(cid, set()).add(ao[1])
            for o in offs:
                shown = o[2]
                if bare_name(shown) not in user:
                    predicted.setdefault(cid, set()).add(shown)
            chk.bump("expansions_classified")
        chk.log("classifier evaluated on %d real expansions; %d case(s) predicted to depend on the caller's scope" % (len(exprs), len(predicted)))
        return predicted

    def analyse(cases_, predicted, failed, outputs):
        """(b) rustc's verdict on the real macro in the hostile scopes, compared with the classifier's"""
        for c in cases_:
            cid = c["id"]
            files = C.files_of(c)
            if (cid, "pl") in failed:
                msgs_pl = [m["message"] for m in failed[(cid, "pl")]][:5]
                if predicted_methods.get(cid) or predicted.get(cid):
                    # the classifier says the expansion looks a name up in the caller's scope / on the user's type, and the corpus type
                    # (with its inherent namesakes) does not even compile in a plain module
                    chk.violation("plain-rejected:%s" % c["derives"][0],
                                  {"case": cid, "source": c["src"], "messages": msgs_pl,
                                   "classifier": sorted(predicted_methods.get(cid, set()) | predicted.get(cid, set()))},
                                  "%s is rejected even in a plain module (%s); the classifier finds the by-name lookups %s in its expansion" % (
                                      cid, msgs_pl[:2], sorted(predicted_methods.get(cid, set()) | predicted.get(cid, set()))))
                else:
                    chk.violation("corpus-plain-fails:" + cid, {"case": cid, "messages": msgs_pl},
                                  "corpus case %s does not compile in a plain module (check defect)" % cid, no_input=True)
                continue
            R = set()
            for sc in C.SCOPES[1:]:
                chk.count((cid, sc), nontrivial=True)
                chk.bump("scope:" + sc)
                msgs = failed.get((cid, sc))
                if msgs is None:
                    continue
                chk.bump("rejected:" + sc)
                modname = "%s_%s" % (sc, cid)
                found = set()
                for m in msgs:
                    found |= names_in_message(m, modname, sc, hostile, prelude_lines(sc))
                R |= found
                if not found:
                    chk.violation("unexplained-rejection:%s" % c["derives"][0],
                                  {"case": cid, "scope": sc, "source": c["src"], "messages": [m["message"] for m in msgs][:6]},
                                  "%s is rejected in scope %s but no caller-scope name could be read off the diagnostics: %s" % (
                                      cid, sc, [m["message"] for m in msgs][:2]))
            for sc in INFO_SCOPES:
                if cid in INFO_SCOPES[sc][1] and ((cid, sc) in failed or (cid, sc) in outputs):
                    msgs = failed.get((cid, sc))
                    verdict = "compiles" if msgs is None else "rejected: " + "; ".join(sorted(set(m["message"] for m in msgs)))[:300]
                    if sc == "pr":
                        observations["primitive_shadowing(pr)"][cid] = verdict
                    elif sc == "in":
                        o = outputs.get((cid, sc))
                        observations["inherent_namesake(in)"][cid] = verdict if msgs is not None else (
                            "compiles; behaviour %s (plain %r, with an inherent `as_dyn_error` on the source type %r)" % (
                                "DIFFERS" if o != outputs.get((cid, "pl")) else "same", outputs.get((cid, "pl")), o))
                    else:
                        # tie of the method-call classification: a dot call on a user-typed receiver must be captured by the
                        # blanket trait (ambiguity or hijack => rejected)
                        chk.bump("method_hijack_cases")
                        M = predicted_methods.get(cid, set())
                        if M and msgs is None:
                            chk.violation("method-prediction-wrong:%s" % cid, {"case": cid, "classifier": sorted(M), "source": c["src"]},
                                          "classifier says the expansion of %s calls %s on a user-typed receiver, but a blanket user trait with "
                                          "these methods does not disturb it" % (cid, sorted(M)))
                        elif M:
                            state["n_valid"] += 1
                            observations["trait_method_hijack(mh)"]["user_receiver_rejected"].append(cid)
                        elif msgs is not None:
                            chk.violation("hijack-unpredicted:%s" % c["derives"][0],
                                          {"case": cid, "source": c["src"], "messages": [m["message"] for m in msgs][:6]},
                                          "a blanket user trait with items named like the trait items the expansions use disturbs %s (%s), but the "
                                          "classifier finds no by-name lookup on a user type in its expansion" % (cid, verdict[:200]))
                        else:
                            observations["trait_method_hijack(mh)"]["unaffected"] += 1
            # scope bc: unit items called like the macro's non-`__` binders
            if cid in BC_NAMES:
                chk.count((cid, "bc"), nontrivial=True)
                chk.bump("scope:bc")
                msgs = failed.get((cid, "bc"))
                if msgs is None:
                    chk.violation("binder-prediction-wrong:%s" % cid, {"case": cid, "binders": BC_NAMES[cid], "source": c["src"]},
                                  "the classifier finds the non-`__` pattern binders %s in the expansion of %s, but unit items of these names in "
                                  "the caller's scope do not disturb it" % (BC_NAMES[cid], cid))
                else:
                    found = set()
                    for m in msgs:
                        found |= names_in_message(m, "bc_" + cid, "bc", set(BC_NAMES[cid]), prelude_lines("bc", cid))
                    if not found:
                        chk.violation("unexplained-rejection:%s" % c["derives"][0],
                                      {"case": cid, "scope": "bc", "source": c["src"], "messages": [m["message"] for m in msgs][:6]},
                                      "%s is rejected in scope bc but none of the binder names %s can be read off the diagnostics: %s" % (
                                          cid, BC_NAMES[cid], [m["message"] for m in msgs][:2]))
                    else:
                        state["n_valid"] += 1
                        chk.bump("rejected:bc")
                        for d in c["derives"]:
                            if found & derive_binders.get(d, set()):
                                captured.setdefault(d, {}).setdefault(cid, sorted(found))
            # compare with the classifier's prediction for this case
            P = predicted.get(cid, set())
            rejected = any((cid, sc) in failed for sc in C.SCOPES[1:])
            ok = True
            for nme in sorted(R - P):
                ok = False
                chk.violation("classifier-miss:%s:%s" % (files[0], nme), {"case": cid, "rustc": sorted(R), "classifier": sorted(P), "source": c["src"]},
                              "rustc shows the expansion of %s to depend on `%s`, which the classifier calls closed" % (cid, nme))
            if bool(P) != rejected:
                ok = False
                chk.violation("prediction-wrong:%s" % cid, {"case": cid, "rustc_rejects": rejected, "classifier": sorted(P), "source": c["src"]},
                              "classifier predicts %s for the real expansion of %s, rustc %s it in the hostile scopes" % (
                                  sorted(P) or "closed", cid, "rejects" if rejected else "accepts"))
            if ok:
                state["n_valid"] += 1
            # class keys
            for nme in sorted(P | R):
                fs = [f for f in files if nme in off_names_by_file.get(f, ())]
                if not fs:
                    chk.violation("expansion-head-without-template:%s:%s" % (c["derives"][0], nme), {"case": cid, "name": nme, "files": files},
                                  "the expansion of %s has the open name `%s`, but no template of %s has such an offender" % (cid, nme, files))
                    continue
                if nme in R:
                    exhibited.setdefault("%s:%s" % (fs[0], nme), []).append(cid)
            # behaviour
            base = outputs.get((cid, "pl"))
            if c.get("expect") is not None and base is not None:
                chk.bump("inherent_namesake_cases")
                if base != c["expect"]:
                    chk.violation("inherent-namesake:%s" % c["derives"][0], {"case": cid, "expected": c["expect"], "observed": base, "source": c["src"]},
                                  "%s: the derived impl of a type whose field/target type has inherent items named like the trait items "
                                  "computes %s instead of %s (an inherent item was picked up by name)" % (cid, base, c["expect"]))
            for sc in C.SCOPES[1:]:
                o = outputs.get((cid, sc))
                if o is not None:
                    chk.bump("behaviour_compared")
                    if o != base:
                        chk.violation("behaviour-differs:%s" % cid, {"case": cid, "scope": sc, "plain": base, "hostile": o, "source": c["src"]},
                                      "%s behaves differently in scope %s: %r vs %r" % (cid, sc, o, base))
            chk.sample({"case": cid, "plain_obs": base, "rejected_in": [sc for sc in C.SCOPES[1:] if (cid, sc) in failed],
                        "names": sorted(R)}, limit=8)

    predicted = classify_expansions(cases)
    BC_NAMES.clear()
    BC_NAMES.update({cid: sorted(v) for cid, v in case_binders.items()})
    # scope mh: a blanket by-value user trait with an item for every name that the model says is (or could be) looked up by
    # name on a user type - the operator / conversion / associated-function names - but NOT the names of the methods called on
    # receivers whose type the macro fixes (as_str, write_str, ..: their hijacking is rustc's autoref business, see observations)
    fixed_recv_methods = set(x["method"] for x in method_site_table if x["closed"])
    hijack_names = (set(OPERATOR_METHODS) | set(x["method"] for x in method_site_table if not x["closed"])
                    | set(v["name"] for v in assoc_offender_keys.values())) - fixed_recv_methods
    set_hijack_scope(hijack_names, [c["id"] for c in cases])
    name = "c15_corpus"
    try:
        failed, outputs, rounds = build_corpus(chk, cases, name)
    finally:
        common.cleanup_scratch(name)
    state["rounds"] = rounds
    analyse(cases, predicted, failed, outputs)

    # thorough: the Error::provide / Backtrace path needs nightly (error_generic_member_access)
    nightly_cases = []
    if tier == "thorough" and not only_case:
        nightly_cases = list(C.NIGHTLY_CASES)
        npred = classify_expansions(nightly_cases)
        BC_NAMES.clear()
        BC_NAMES.update({cid: sorted(v) for cid, v in case_binders.items() if cid in set(c["id"] for c in nightly_cases)})
        set_hijack_scope(methods, [])
        INFO_SCOPES["lt"] = ["", [c["id"] for c in C.NIGHTLY_INFO_CASES]]
        nname = "c15_corpus_nightly"
        try:
            nfailed, noutputs, _ = build_corpus(chk, nightly_cases, nname, toolchain="+nightly",
                                                crate_attrs="#![feature(error_generic_member_access)]",
                                                target_dir=os.path.join(common.BUILD, "target-rt-nightly-C15"))
            analyse(nightly_cases, npred, nfailed, noutputs)
            # user lifetime called like the macro's own `'_request` (known_non_dunder_generics): measured, not a violation
            d2 = "c15_corpus_nightly_lt"
            try:
                lfailed, _, _ = build_corpus_info(C.NIGHTLY_INFO_CASES, d2, "+nightly", "#![feature(error_generic_member_access)]",
                                                  os.path.join(common.BUILD, "target-rt-nightly-C15"))
                for c in C.NIGHTLY_INFO_CASES:
                    msgs = lfailed.get(c["id"])
                    observations.setdefault("generic_name_clash", {})[c["id"]] = "compiles" if not msgs else "rejected: " + "; ".join(
                        sorted(set(m["message"] for m in msgs)))[:300]
            finally:
                common.cleanup_scratch(d2)
            INFO_SCOPES.pop("lt", None)
        finally:
            common.cleanup_scratch(nname)
    chk.cov["traces_validated_against_impl"] = state["n_valid"]

    # template coverage by the corpus (literal runs of each template found in some real expansion)
    exp_words = [" ".join(w for w in flat_words(tt) if w is not None) for _, tt in state["expansions"]]
    covered, coverable, uncovered = 0, 0, []
    for t in ex["templates"]:
        run_ = longest_literal_run(t["tokens"])
        if len(run_) < 2:
            continue
        coverable += 1
        needle = " ".join(run_)
        if any(needle in w for w in exp_words):
            covered += 1
        else:
            uncovered.append("%s:%d" % (t["file"], t["line"]))

    # ---- dot calls on user-typed receivers: class key `<file>:.<method>` (listed ones become KNOWN-FINDING lines)
    for mkey, sites in sorted(method_offender_keys.items()):
        if only_key and mkey != only_key:
            continue
        nme = mkey.split(":.")[1]
        chk.violation(mkey, {"key": mkey, "sites": sites,
                             "inherent_namesake_probe": observations["inherent_namesake(in)"],
                             "blanket_trait_probe_rejected": observations["trait_method_hijack(mh)"]["user_receiver_rejected"][:8],
                             "in_Model_known_method_sites": mkey in m_mknown},
                      "template(s) at %s call `.%s(..)` with method-call syntax on a user-typed receiver: the trait must be in scope at the "
                      "call site, another applicable trait makes it ambiguous, and an inherent method of the user's type with that name "
                      "wins (measured: %s)" % (", ".join(sites), nme,
                                               "; ".join("%s: %s" % kv for kv in sorted(observations["inherent_namesake(in)"].items()))[:300]))
        if mkey not in m_mknown:
            chk.notes.append("method site %s is not in Model.known_method_sites: C15_method_calls_classified fails on this tree" % mkey)

    # ---- binders in pattern position without the `__` prefix: ONE class
    listed_tpl = sorted(x for x, v in tpl_binders.items() if not v["dunder"])
    if (listed_tpl or captured) and not (only_key and only_key != "binder-name-captured"):
        ex_case = None
        for d in sorted(captured):
            for cid in sorted(captured[d]):
                ex_case = next(c for c in C.CASES + C.NIGHTLY_CASES if c["id"] == cid)
                break
            if ex_case:
                break
        robj = {"key": "binder-name-captured",
                "template_binders": {x: sorted(tpl_binders[x]["sites"]) for x in listed_tpl},
                "expansion_binders_by_derive": {d: sorted(v) for d, v in sorted(derive_binders.items())},
                "derives_rejected_by_rustc": {d: len(v) for d, v in sorted(captured.items())}}
        if ex_case:
            robj["case"] = ex_case["id"]
            robj["source"] = bc_prelude(BC_NAMES.get(ex_case["id"], [])) + "\n" + ex_case["src"]
            robj["captured"] = captured[ex_case["derives"][0]].get(ex_case["id"])
        chk.violation("binder-name-captured", robj,
                      "%d template binder name(s) without the `__` prefix (%s); in real expansions %d derives bind such names; with unit items "
                      "of these names in the caller's scope rustc rejects %d corpus case(s) of %d derive(s), e.g. %s" % (
                          len(listed_tpl), ", ".join(listed_tpl), len(derive_binders), sum(len(v) for v in captured.values()), len(captured),
                          ex_case["id"] if ex_case else "-"))

    # ---- type-relative associated paths on user types: class key `<file>:<>::<name>`
    for akey, v in sorted(assoc_offender_keys.items()):
        if only_key and akey != only_key:
            continue
        hit = sorted(cid for cid, M in predicted_methods.items() if v["name"] in M)
        robj = {"key": akey, "sites": v["sites"], "exhibited_by": hit[:8]}
        if hit:
            c0 = next(c for c in C.CASES + C.NIGHTLY_CASES if c["id"] == hit[0])
            robj["case"] = c0["id"]
            robj["source"] = c0["src"]
        chk.violation(akey, robj,
                      "template(s) at %s reach `%s` through a type-relative path (`<Ty>::%s` / `Ty::%s`) on a user type: it is looked up by "
                      "name - an inherent item of the user's type wins and any other trait in the caller's scope with such an item makes it "
                      "ambiguous; qualify it (`<Ty as derive_more::core::..::Trait>::%s`); corpus: %s" % (
                          ", ".join(v["sites"]), v["name"], v["name"], v["name"], v["name"], ", ".join(hit[:4]) or "not exhibited"))
        if akey not in m_aknown:
            chk.notes.append("associated path %s is not in Model.known_assoc_sites: C15_assoc_paths_classified fails on this tree" % akey)

    # ---- report every offender class (template level), with its exhibiting cases
    for key in sorted(off_by_key):
        if only_key and key != only_key:
            continue
        e = off_by_key[key]
        cases_x = exhibited.get(key, [])
        replay_obj = {"key": key, "sites": sorted(e["sites"]), "functions": sorted(e["fns"]), "name": e["name"],
                      "replacement": qualified(e["name"]), "exhibited_by": cases_x[:6]}
        if cases_x:
            c0 = next(c for c in C.CASES + C.NIGHTLY_CASES if c["id"] == cases_x[0])
            replay_obj["case"] = c0["id"]
            replay_obj["source"] = c0["src"]
        chk.violation(key, replay_obj,
                      "template(s) at %s use the %s `%s`; replace by %s; rustc: %s" % (
                          ", ".join(sorted(e["sites"])),
                          "global path root (a crate other than derive_more)" if e["name"].startswith("::") else
                          "bare name (resolved in the caller's scope)", e["name"], qualified(e["name"]),
                          ("rejected in hostile scope, e.g. case " + cases_x[0]) if cases_x else "not exhibited by the corpus"))
        if not cases_x and not e["name"].startswith("::") and not only_case:
            chk.violation("unexhibited:" + key, replay_obj,
                          "offender %s of the template classifier is not exhibited by any corpus case (corpus gap or classifier false positive)" % key)
        if key not in m_known:
            chk.notes.append("offender %s is not in Model.known_offender_keys: C15_closed_modulo_known fails on this tree" % key)
    if any(e["name"].startswith("::") for e in off_by_key.values()):
        chk.notes.append("`::std::backtrace::Backtrace` (error.rs, nightly-only provide() path) is a global path: immune to module-level "
                         "shadowing and to no_implicit_prelude, hence not exhibited by the stable corpus; it is still not reached through "
                         "the derive_more crate path (fails when the caller's crate has no `std`, or renames a dependency to `std`)")

    if getattr(chk, "proof_broken", False) and not chk.violations and not chk.known_hits:
        chk.violation("proof-broken", chk.proof_failure, "a C15 proof obligation no longer checks: %s" % chk.proof_failure["failed"], no_input=True)
    elif getattr(chk, "proof_broken", False):
        chk.notes.append("proof obligation broken at %s; failing inputs found by the corpus" % chk.proof_failure["failed"])

    observations["method_calls_in_templates"] = sorted(methods)
    observations["note"] = ("outside the property text: (pr) a user item literally called bool/str/isize shadows the primitive types the "
                            "expansions name; (mh) a blanket user trait with a method called like a method the expansion calls with dot "
                            "syntax makes the call ambiguous")
    return chk.finish(
        proof=st,
        rule="templates: ALL %d quote!/parse_quote! bodies of impl/src (T-gen, every run); corpus: %d hand-written items covering the 50 derives x "
             "struct/enum/generic shapes x documented attribute modes, each compiled in 3 scopes (plain, #[no_implicit_prelude], prelude names "
             "shadowed by local types/traits/macros) with the real macro; every item is also expanded in-process and classified by the Coq "
             "model; non-trivial = a (case, hostile scope) pair compiled or rejected with an explained name; distinct by case x scope and by template"
             % (cnt["templates"], len(cases) + len(nightly_cases)),
        trusted=TRUSTED,
        extra={"tgen_counts": {k: v for k, v in cnt.items() if k != "per_file"}, "templates_per_file": cnt["per_file"],
               "head_identifier_histogram": dict(sorted(head_hist.items(), key=lambda kv: -kv[1])),
               "global_binders": sorted(set(m_gb)),
               "offender_classes": {k: {"sites": sorted(v["sites"]), "replacement": qualified(v["name"]), "exhibited_by": exhibited.get(k, [])[:8]}
                                    for k, v in off_by_key.items()},
               "template_coverage_by_corpus": {"coverable_templates": coverable, "covered": covered, "uncovered": uncovered},
               "corpus_build_rounds": state["rounds"],
               "macro_paths": sorted(set("::".join(x) for x in m_macros)),
               "method_call_sites": method_site_table,
               "known_method_sites": m_mknown,
               "pattern_binders": {"template_occurrences": len(m_binders),
                                   "template_names": {x: {"dunder": v["dunder"], "sites": sorted(v["sites"])} for x, v in sorted(tpl_binders.items())},
                                   "non_dunder_by_derive_in_real_expansions": {d: sorted(v) for d, v in sorted(derive_binders.items())},
                                   "derives_with_rejected_cases": sorted(captured), "cases_rejected": sum(len(v) for v in captured.values()),
                                   "cases_in_scope_bc": len(BC_NAMES)},
               "associated_path_sites": len(m_asites),
               "associated_path_roots": sorted(set("%s::%s" % (x[2], x[3]) for x in m_asites if not x[2].startswith("derive_more"))),
               "introduced_generic_names": sorted(set(m_gens)),
               "known_non_dunder_generics": m_gknown,
               "lib_rs_exports": len(ex["exports"]),
               "observations": observations})


META = {
    "level": "proof",
    "technique": "Coq proof over the regenerated list of all quote! templates (closedness of every head identifier, scope-independence of "
                 "closed templates) + rustc on the real macro in hostile scopes",
    "text": "A translator re-extracts every quote!/parse_quote! template of impl/src as a token tree into Coq on every run (lexer counts "
            "cross-checked with grep, fail closed). Theorems: every head identifier of every template is a keyword, primitive, bound by a "
            "template, or `derive_more` - or one of the explicitly listed known offenders (finite vm_compute lifted to a Prop over all "
            "templates = all code paths of all expansions); a closed template resolves identically in any two scopes that differ in the "
            "prelude and in arbitrary user items not called `derive_more`/primitive names. The syntactic classifier is tied to rustc: it is run "
            "on the real expansion of each of ~250 corpus items (50 derives x shapes x attribute modes) and its verdict compared with the "
            "compiler's on the same item inside #[no_implicit_prelude] and prelude-shadowing modules; behaviour is compared at run time "
            "with the plain twin.",
    "note": "Also proved: macros only through derive_more::core, derive_more paths exported by src/lib.rs, method-call receivers "
            "classified (one listed user-typed site), completeness of the head classification, `__`-freshness of introduced generic "
            "names (one listed exception). Trusted: Coq kernel; the Rust lexer/extractor; the syntactic head-position classifier (validated per case against rustc); the "
            "splice assumption for local-like names; interpolated values; rustc as oracle. Primitive type names are accepted (language "
            "prelude) and their shadowing is only measured.",
    "design_ref": "DESIGN.md section 2 / C15",
}
