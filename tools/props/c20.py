"""C20 - every feature works on its own, with and without `std`.

proofs : coq/theories/C20 - cfg guards as propositional formulas; a decision procedure for implication, proved sound;
         over Gen/CfgFacts.v (regenerated on every run by tools/lib/c20_cfg.py from both Cargo.toml files, impl/src/**
         and src/**): every (use guard, definition guard) pair is valid for ALL assignments of the feature variables,
         each derive is exported exactly under its feature, helper items only where used, the facade->impl feature map
         is the identity, `full` = the derive features, the verification hook feature is in no default/full list.
tie    : T-gen (the facts ARE the source).  A pair the translator's truth table refutes breaks the obligation
         C20_defined_where_used; the check then searches for an input of a derive of the witness feature set that makes
         the real expander emit the path (violation with that input), else reports no-failing-input-found.
oracle : PARTIAL BY NATURE - the real build matrix (cargo/rustc do the building): `cargo check` of both crates and
         `cargo test` of the derive's own test file for single features (and pairs in the thorough tier), with and
         without `std`, from the working tree (`--manifest-path /repo/Cargo.toml --offline --locked`, private target
         dirs), plus regression crates built against the real macro under a single feature, plus an API-SURFACE
         PROBE per configuration (lib/c20_api.py): a generated consumer crate that uses every derive of the enabled
         features incl. the documented error paths, asserts the trait impls of every exported helper type (expected
         list measured on the `full` build) and names every derive / re-exported trait in both namespaces; and a NEGATIVE
         probe crate per configuration: every derive (three paths) / trait / helper type of a feature that the facade's
         feature table does not switch on must NOT resolve (one `use .. as _;` per line, each line must be an error).  A configuration FAILS on a
         build error or a failing test (the property text says "builds without errors").  Warnings are not errors:
         configurations whose warnings differ from those of the `full` build are recorded in the evidence
         (coverage.warning_only_configs) as observations only.
"""
import itertools
import json
import os
import shutil
import subprocess
import time

from lib import common, c20_cfg, c20_api

TRUSTED = [
    "Coq 8.16.1 kernel + vm_compute (coqc full .vo build); no axioms (Print Assumptions: closed)",
    "tools/lib/c20_cfg.py + tools/lib/rustlex_c19c20.py (lexer, item/extent parser, expansion of create_derive!/"
    "re_export_traits!, path resolution with namespaces, manifests) - trusted to LIST definitions, use sites and guards "
    "faithfully; #[cfg] count cross-checked against a regex count; unknown syntax is an error; sensitivity controls "
    "re-run each run on mutated copies of the sources",
    "modelled, not verified: name resolution is approximated (module-level scopes, explicit imports shadow globs per "
    "namespace, type/value vs macro namespace); reachability of a template from a derive entry point is NOT modelled "
    "(a template's use guard is the guard of the code containing it) - refuted pairs are therefore examined by an "
    "expansion search; trait-level needs that only type inference reveals (e.g. syn `extra-traits`) are not in the "
    "model and are found by the build matrix only",
    "cargo 1.95 / rustc 1.95 (the subject toolchain) decide the builds; non-feature cfgs: docsrs/doc = false "
    "(documentation builds out of scope), cfg(test) and feature verif_hooks items skipped, ci/nightly free variables",
]

TARGET = os.path.join(common.BUILD, "target-c20")
WORKERS = 8


# ------------------------------------------------------------------ cargo

def cargo_cmd(kind, feats, std, test=None):
    fl = list(feats) + (["std"] if std else [])
    base = ["cargo", kind if kind != "check-impl" else "check"]
    if kind == "check-impl":
        return ["cargo", "check", "--manifest-path", os.path.join(common.REPO, "Cargo.toml"), "--offline", "--locked",
                "-p", "derive_more-impl", "--features", ",".join(feats), "--message-format=json"]
    if kind == "check":
        return ["cargo", "check", "--manifest-path", os.path.join(common.REPO, "Cargo.toml"), "--offline", "--locked",
                "-p", "derive_more", "--no-default-features", "--features", ",".join(fl), "--message-format=json"]
    if kind == "test":
        return ["cargo", "test", "--manifest-path", os.path.join(common.REPO, "Cargo.toml"), "--offline", "--locked",
                "-p", "derive_more", "--no-default-features", "--features", ",".join(fl), "--test", test,
                "--message-format=json"]
    raise ValueError(kind)


def run_job(job, worker):
    r = _run_job(job, worker)
    if r["rc"] != 0 and not any(m["level"] == "error" for m in r["messages"]) and r["kind"] != "test":
        # a failure without any compiler diagnostic (resource exhaustion, lock contention ...): once more
        r2 = _run_job(job, worker)
        r2["retried"] = r["stderr_tail"][-300:]
        return r2
    return r


def _run_job(job, worker):
    env = dict(common.CARGO_ENV, CARGO_TARGET_DIR=os.path.join(TARGET, "w%d" % worker), CARGO_TERM_COLOR="never")
    env.pop("RUSTFLAGS", None)
    env["CARGO_BUILD_JOBS"] = str(max(1, common.NCPU // WORKERS))
    t0 = time.time()
    try:
        p = subprocess.run(job["cmd"], cwd=common.REPO, env=env, stdout=subprocess.PIPE, stderr=subprocess.PIPE,
                           text=True, errors="replace", timeout=1500)
        rc, out, err = p.returncode, p.stdout, p.stderr
    except subprocess.TimeoutExpired:
        rc, out, err = 124, "", "timeout"
    msgs = []
    tail = []
    for line in out.splitlines():
        if line.startswith('{"reason"'):
            try:
                m = json.loads(line)
            except Exception:
                continue
            if m.get("reason") == "compiler-message":
                mm = m["message"]
                if mm.get("level") in ("warning", "error") and (mm.get("code") or mm.get("spans")):
                    sp = next((s for s in mm.get("spans", []) if s.get("is_primary")), None)
                    pkg = m.get("package_id", "")
                    pkg = "derive_more-impl" if "/impl#" in pkg or "derive_more-impl" in pkg else (
                        "derive_more" if "derive_more" in pkg else pkg)
                    msgs.append({"level": mm["level"], "code": (mm.get("code") or {}).get("code"),
                                 "file": os.path.relpath(os.path.join(common.REPO, sp["file_name"]), common.REPO) if sp else None,
                                 "line": sp["line_start"] if sp else None, "text": mm.get("message", "")[:200],
                                 "package": pkg, "target": m.get("target", {}).get("name")})
        else:
            tail.append(line)
    job = dict(job, rc=rc, messages=msgs, wall=round(time.time() - t0, 2),
               stderr_tail=err[-1200:], stdout_tail="\n".join(tail)[-800:])
    return job


def msg_key(m):
    return (m["package"], m["code"], m["file"], m["line"], m["text"][:80])


# ------------------------------------------------------------------ exceptions: is the refuted pair reachable?

SHAPES = [
    "struct S1(i32);", "struct S2(i32, u8);", "struct S3 { a: i32 }", "struct S4 { a: i32, b: u8 }", "struct S5;",
    "struct S6<T>(T);", "struct S7<T, U> { a: T, b: U }",
    "enum E1 { A(i32), B(i32) }", "enum E2 { A, B }", "enum E3 { A(i32), B { x: u8 }, C }", "enum E4 { A(i32) }",
    "enum E5<T> { A(T), B(T, T), C }",
]


def reach_corpus(derives, table_attrs):
    reqs = []
    for d in derives:
        attr = table_attrs.get(d)
        for s in SHAPES:
            variants = [s]
            if attr:
                variants.append("#[%s(forward)] %s" % (attr, s))
                variants.append("#[%s(ignore)] %s" % (attr, s))
                variants.append("#[%s(owned, ref, ref_mut)] %s" % (attr, s))
                if "(i32" in s:
                    variants.append(s.replace("(i32", "(#[%s(forward)] i32" % attr, 1))
                    variants.append(s.replace("(i32", "(#[%s] i32" % attr, 1))
                if "{ a: i32" in s:
                    variants.append(s.replace("{ a: i32", "{ #[%s(forward)] a: i32" % attr, 1))
                    variants.append(s.replace("{ a: i32", "{ #[%s] a: i32" % attr, 1))
                if s.startswith("enum") and "A(i32)" in s:
                    variants.append(s.replace("A(i32)", "#[%s(forward)] A(i32)" % attr, 1))
            for v in variants:
                reqs.append({"cmd": "expand", "derive": d, "item": v, "summary": False})
    return reqs


def derive_attrs():
    """derive name -> helper attribute (first one) from the create_derive! table of impl/src/lib.rs"""
    import re
    src = open(os.path.join(common.REPO, "impl", "src", "lib.rs")).read()
    out = {}
    for m in re.finditer(r"create_derive!\(([^;]*?)\);", src, re.S):
        args = [a.strip() for a in m.group(1).replace("\n", " ").split(",") if a.strip()]
        if len(args) >= 4 and args[0].startswith('"'):
            out[args[2]] = args[4] if len(args) > 4 else None
    return out


# ------------------------------------------------------------------ translator sensitivity controls

def mutated_copy(name, edits):
    root = os.path.join(common.SCRATCH, "c20-mut", name)
    shutil.rmtree(root, ignore_errors=True)
    os.makedirs(os.path.join(root, "impl"))
    shutil.copy(os.path.join(common.REPO, "Cargo.toml"), os.path.join(root, "Cargo.toml"))
    shutil.copy(os.path.join(common.REPO, "impl", "Cargo.toml"), os.path.join(root, "impl", "Cargo.toml"))
    shutil.copytree(os.path.join(common.REPO, "impl", "src"), os.path.join(root, "impl", "src"))
    shutil.copytree(os.path.join(common.REPO, "src"), os.path.join(root, "src"))
    for rel, old, new in edits:
        p = os.path.join(root, rel)
        s = open(p).read()
        if old not in s:
            return None
        open(p, "w").write(s.replace(old, new, 1))
    return root


CONTROLS = [
    ("impl: `try_from` dropped from the cfg list of utils::Spanning", "exception",
     [("impl/src/utils.rs", '    feature = "into",\n    feature = "try_from",\n))]\npub(crate) use self::spanning::Spanning;',
       '    feature = "into",\n))]\npub(crate) use self::spanning::Spanning;')]),
    ("facade: `mod try_unwrap` gated by the wrong feature", "exception",
     [("src/lib.rs", '#[cfg(feature = "try_unwrap")]\nmod try_unwrap;', '#[cfg(feature = "unwrap")]\nmod try_unwrap;')]),
    ("facade: trait re-export of mul_assign gated by display", "exception",
     [("src/lib.rs", '        #[cfg(feature = "mul_assign")]\n        re_export_traits!(',
       '        #[cfg(feature = "display")]\n        re_export_traits!(')]),
    ("facade: derive Unwrap exported under try_unwrap", "exception",
     [("src/lib.rs", '        #[cfg(feature = "unwrap")]\n        pub use derive_more_impl::Unwrap;',
       '        #[cfg(feature = "try_unwrap")]\n        pub use derive_more_impl::Unwrap;')]),
    ("impl: convert_case no longer enabled by is_variant", "exception",
     [("impl/Cargo.toml", 'is_variant = ["dep:convert_case"]', 'is_variant = []')]),
    ("facade: verif_hooks slipped into full", "feature-map",
     [("impl/Cargo.toml", 'full = [\n    "add",', 'full = [\n    "verif_hooks",\n    "add",')]),
    ("facade: unknown cfg syntax", "error",
     [("src/lib.rs", '#[cfg(feature = "from_str")]\nmod r#str;', '#[cfg(target_os = "linux")]\nmod r#str;')]),
    ("facade: both Error re-export alternatives compiled at once", "alternatives",
     [("src/lib.rs", '        #[cfg(not(feature = "std"))]\n        re_export_traits!("error", error_traits, core::error, Error);',
       '        re_export_traits!("error", error_traits, core::error, Error);')]),
    ("facade: std::error::Error impl of UnitError without the std gate", "exception",
     [("src/ops.rs", '#[cfg(feature = "std")]\nimpl std::error::Error for UnitError {}', 'impl std::error::Error for UnitError {}')]),
    ("identity (control of the control)", "none", []),
]


def run_controls(chk):
    res = []
    fm_exprs, fm_pre, fm_names = [], [], []
    for idx, (name, expect, edits) in enumerate(CONTROLS):
        root = mutated_copy("m%d" % idx, edits)
        if root is None:
            chk.notes.append("sensitivity control %r not applicable (anchor text gone)" % name)
            continue
        try:
            x = c20_cfg.extract(root)
        except c20_cfg.TranslatorError as e:
            res.append((name, expect, "error", str(e)[:160]))
            continue
        except Exception as e:
            res.append((name, expect, "error", "%s: %s" % (type(e).__name__, str(e)[:160])))
            continue
        got = "none"
        detail = ""
        if x["exceptions"]:
            # the two exceptions of the unmodified tree do not count
            base = set((c20_cfg.f_text(u["use"]), c20_cfg.f_text(u["def"])) for u in BASE_EXC)
            new = [u for u in x["exceptions"] if (c20_cfg.f_text(u["use"]), c20_cfg.f_text(u["def"])) not in base]
            if new:
                got = "exception"
                detail = "%s used under %s, defined under %s" % (new[0]["sites"][0]["what"], c20_cfg.f_text(new[0]["use"]),
                                                                 c20_cfg.f_text(new[0]["def"]))
        if got == "none":
            bad = [e for e in x["exports"] if c20_cfg.f_counterexample(e["guard"], c20_cfg.var(e["feature"])) is not None
                   or c20_cfg.f_counterexample(c20_cfg.var(e["feature"]), e["guard"]) is not None]
            if bad:
                got = "export"
                detail = "%s::%s exported under %s" % (bad[0]["place"], bad[0]["derive"], c20_cfg.f_text(bad[0]["guard"]))
        if got == "none":
            for al in x["alternatives"]:
                gl = al["guards"]
                if any(c20_cfg.f_counterexample(c20_cfg.f_all([gl[i], gl[j]]), c20_cfg.FALSE) is not None
                       for i in range(len(gl)) for j in range(i + 1, len(gl))):
                    got = "alternatives"
                    detail = "%s::%s defined twice under overlapping guards" % (al["module"], al["name"])
        if got == "none":
            for g_ in x["std_uses"]:
                if c20_cfg.f_counterexample(g_, c20_cfg.var("std")) is not None:
                    got = "std-use"
                    detail = "std:: named under %s" % c20_cfg.f_text(g_)
        if got == "none" and expect in ("feature-map", "none"):
            # feature tables are judged by the Coq definition
            txt = c20_cfg.render(x)
            a = txt.index("Definition facade_features")
            body = txt[a:].replace("facade_features", "ff%d" % idx).replace("impl_features", "if%d" % idx) \
                          .replace("derive_feature_names", "dn%d" % idx)
            fm_pre.append(body)
            fm_exprs.append("feature_map_ok ff%d if%d dn%d" % (idx, idx, idx))
            fm_names.append((name, expect))
            continue
        res.append((name, expect, got, detail))
    if fm_exprs:
        vals = common.coq_eval(["Verif.C20.Model"], fm_exprs, preamble="Open Scope string_scope.\n" + "\n".join(fm_pre),
                               tag="c20mut")
        for (name, expect), v in zip(fm_names, vals):
            res.append((name, expect, "none" if v == "true" else "feature-map", "feature_map_ok = %s" % v))
    shutil.rmtree(os.path.join(common.SCRATCH, "c20-mut"), ignore_errors=True)
    return res


BASE_EXC = []

# (name, derive features, std, main.rs / lib.rs, is_bin): built by the real rustc against the real macro with ONLY these features
REGRESSION_CRATES = [
    # 733f9d7 made `#[mul(forward)]` legal on enums; the add_like templates then name BinaryError / WrongVariantError /
    # UnitError, which 262fbfc exports under `mul` too
    ("mul_forward_enum", ["mul"], True, """use derive_more::{Mul, Div};
#[derive(Mul, Div, Debug, PartialEq)]
#[mul(forward)]
#[div(forward)]
enum E { A(i32), B(i32, i32), C { x: i32 }, U }
#[derive(Mul)]
#[mul(forward)]
struct S(i32);
#[derive(Mul)]
struct T { a: i32, b: i32 }
fn main() {
    assert_eq!((E::A(2) * E::A(3)).unwrap(), E::A(6));
    assert!((E::A(2) * E::U).is_err());
    assert!((E::U * E::U).is_err());
    let r: Result<E, derive_more::BinaryError> = E::C { x: 6 } / E::C { x: 3 };
    assert_eq!(r.unwrap(), E::C { x: 2 });
    let _ = S(1) * S(2);
    let _ = T { a: 1, b: 2 } * 3;
}
""", True),
    ("mul_forward_enum_nostd", ["mul"], False, """#![no_std]
#![allow(dead_code)]
use derive_more::Mul;
#[derive(Mul)]
#[mul(forward)]
pub enum E { A(i32), U }
pub fn f(a: E, b: E) -> Result<E, derive_more::BinaryError> { a * b }
""", False),
]


# ------------------------------------------------------------------ the check

def run(tier, seed, replay):
    global BASE_EXC
    chk = common.Check("C20", tier, seed)
    rng = chk.rng
    os.makedirs(TARGET, exist_ok=True)
    git_before = common.sh(["git", "-C", common.REPO, "status", "--short"])[1]

    # ---- T-gen + proofs
    x = None
    st = None
    try:
        x = c20_cfg.generate()
    except Exception as e:
        chk.proof_broken = True
        chk.proof_failure = {"failed": "tools/lib/c20_cfg.py", "output": "%s: %s" % (type(e).__name__, e)}
    if x is not None:
        st = common.check_proofs(chk, "C20")
        chk.log("facts: %s" % {k: v for k, v in x["stats"].items() if not isinstance(v, dict)})
        BASE_EXC = x["exceptions"]
        for u in x["ok_pairs"]:
            for s in u["sites"]:
                chk.bump("pair:" + s["ctx"])
        feats = x["derive_features"]
    else:
        feats = [f for f in c20_cfg.parse_manifest(os.path.join(common.REPO, "Cargo.toml")).get("features", {})
                 if f not in c20_cfg.DERIVE_FEATURE_EXCLUDE]
    feats = sorted(feats)

    # ---- refuted pairs (they break C20_defined_where_used): search for an input that reaches the use
    refuted = []
    if x is not None and x["exceptions"] and not replay:
        inproc = common.build_inproc()
        attrs = derive_attrs()
        for u in x["exceptions"]:
            wit = [w for w in u["witness"] if w in feats]
            ds = [d for (d, f, _) in x["derives"] if f in wit]
            reqs = reach_corpus(ds, attrs)
            resps = common.run_jsonl(inproc, reqs)
            whats = sorted(set(s["what"] for s in u["sites"]))
            hit = None
            n_ok = 0
            for rq, rs in zip(reqs, resps):
                if "ok" in rs:
                    n_ok += 1
                    flat = rs["ok"].replace(" ", "")
                    for w in whats:
                        if w.replace(" ", "") in flat:
                            hit = (rq, w)
                            break
                if hit:
                    break
            chk.count(("refuted-pair", tuple(whats)), True)
            desc = {"used_under": c20_cfg.f_text(u["use"]), "defined_under": c20_cfg.f_text(u["def"]),
                    "witness_features": wit, "names": whats,
                    "sites": ["%s:%d" % (s["file"], s["line"]) for s in u["sites"]][:8],
                    "expansions_searched": len(reqs), "expansions_ok": n_ok}
            refuted.append(desc)
            if hit:
                rq, w = hit
                chk.violation("used-not-defined:" + w,
                              dict(desc, derive=rq["derive"], item=rq["item"], features=wit,
                                   replay_hint="a crate with derive_more = { default-features = false, features = %s } "
                                               "deriving %s on this item does not compile" % (wit, rq["derive"])),
                              "with only %s enabled, derive(%s) on `%s` emits `%s`, which is defined only under %s"
                              % (wit, rq["derive"], rq["item"], w, desc["defined_under"]))
            else:
                chk.notes.append("refuted pair not reached by any of %d expansions of the derives of %s: %s at %s compiled in "
                                 "under %s, defined only under %s" % (len(reqs), wit, whats, desc["sites"][:3],
                                                                      desc["used_under"], desc["defined_under"]))

    # ---- translator sensitivity controls
    controls = []
    if x is not None and not replay:
        try:
            controls = run_controls(chk)
            for name, expect, got, detail in controls:
                chk.count(("control", name), True)
                if expect != got:
                    chk.violation("translator-insensitive", {"mutation": name, "expected": expect, "got": got, "detail": detail},
                                  "sensitivity control %r: expected %s, got %s (%s)" % (name, expect, got, detail), no_input=True)
        except common.BuildError as e:
            chk.violation("translator-control-failed", {"error": str(e)[-1500:]},
                          "the mutated-source controls could not be evaluated", no_input=True)

    # ---- the real-build stage, in phases: the tier's matrix first; if a proof obligation is broken and that phase found no
    #      failing input, the thorough matrix is run as well (the widened search)
    phases = [tier == "thorough"]
    done_cmds = set()
    tot = {"results": [], "n_fail": 0, "n_api": 0, "warning_only": [], "reg": []}
    api_base = {}
    api_meta = {}
    baseline = set()
    for thorough_phase in phases:
        # ---- the build matrix
        tests_of = {}
        manifest_tests = x["facade_tests"] if x is not None else []
        for (name, path, req) in manifest_tests:
            if len(req) == 1 and req[0] in feats:
                tests_of.setdefault(req[0], []).append(name)
        jobs = []

        def add(kind, fs, std, test=None, why=""):
            jobs.append({"kind": kind, "features": list(fs), "std": std, "test": test, "why": why,
                         "cmd": cargo_cmd(kind, fs, std, test)})

        if replay:
            r = json.load(open(replay))["replay"]
            if "cmd" in r:
                jobs.append({"kind": r.get("kind", "check"), "features": r.get("features", []), "std": r.get("std", True),
                             "test": r.get("test"), "why": "replay", "cmd": r["cmd"]})
        else:
            for f in feats:
                add("check-impl", [f], True, why="single")
                add("check", [f], True, why="single")
            # feature sets (<= 2 derive features) that switch a crate-level lint gate (`#![cfg_attr(P, allow(..))]`)
            for gate in lint_gates():
                add("check-impl", gate, True, why="lint-gate")
            if not thorough_phase:
                for f in rng.sample(feats, 8):
                    add("check", [f], False, why="single-nostd-sample")
                tf = [f for f in feats if f in tests_of]
                # "behaves as under full": the repository's own test file(s) of every single feature are RUN
                for f in tf:
                    for t_ in tests_of[f]:
                        add("test", [f], True, t_, why="test-single")
                for f in rng.sample(tf, min(2, len(tf))):
                    add("test", [f], False, tests_of[f][0], why="test-nostd-sample")
                for pr in rng.sample(list(itertools.combinations(feats, 2)), 8):
                    add("check", list(pr), rng.random() < 0.5, why="pair-sample")
            else:
                for f in feats:
                    add("check", [f], False, why="single-nostd")
                    for t in tests_of.get(f, []):
                        add("test", [f], True, t, why="test")
                        add("test", [f], False, t, why="test-nostd")
                for pr in itertools.combinations(feats, 2):
                    add("check", list(pr), True, why="pair")
                    add("check", list(pr), False, why="pair-nostd")
        # ---- API-surface probes: one generated consumer crate per configuration (see lib/c20_api.py)
        if x is not None and not replay:
            t_api = time.time()

            def api_job(fs, std, baseline, why, tag):
                src, probes = c20_api.build_source(x, fs, std, baseline=baseline)
                name = "c20_api_%s_%s%s" % ("_".join(fs) if len(fs) <= 3 else "full", "std" if std else "nostd", tag)
                d = common.make_crate(name, src, features=tuple(fs) + (("std",) if std else ()), default_features=False)
                api_meta[name] = {"probes": probes, "src": src, "dir": d}
                return {"kind": "api", "features": list(fs), "std": std, "test": None, "why": why, "name": name,
                        "cmd": ["cargo", "check", "--manifest-path", os.path.join(d, "Cargo.toml"), "--offline",
                                "--message-format=json"]}

            def neg_job(fs, std, why):
                src, probes = c20_api.build_negative_source(x, fs, std)
                if not probes:
                    return None
                name = "c20_neg_%s_%s" % ("_".join(fs) if len(fs) <= 3 else "many", "std" if std else "nostd")
                d = common.make_crate(name, src, features=tuple(fs) + (("std",) if std else ()), default_features=False)
                api_meta[name] = {"probes": probes, "src": src, "dir": d}
                return {"kind": "api-neg", "features": list(fs), "std": std, "test": None, "why": why, "name": name,
                        "cmd": ["cargo", "check", "--manifest-path", os.path.join(d, "Cargo.toml"), "--offline",
                                "--message-format=json"]}

            def api_errors(r):
                return c20_api.attribute(api_meta[r["name"]]["probes"],
                                         [m for m in r["messages"] if m["file"] and m["file"].endswith("main.rs")])
            # what holds under `full` (measured, with and without std); second round: the rest must be error-free
            from concurrent.futures import ThreadPoolExecutor as _TP
            with _TP(max_workers=2) as ex:
                r1 = list(ex.map(lambda a: run_job(api_job(feats, a[0], None, "api-baseline", "_m"), a[1]), [(True, 0), (False, 1)]))
            for r in r1:
                api_base[r["std"]] = set(k for k in api_errors(r) if k is not None)
                bad = [k for k in api_base[r["std"]] if not k.startswith("impl:")]
                if bad or (r["rc"] != 0 and not api_base[r["std"]]):
                    chk.violation("api:full", {"failing": bad, "std": r["std"], "stderr": r["stderr_tail"],
                                               "main_rs": api_meta[r["name"]]["src"]},
                                  "the API probe crate does not build under `full`%s: %s" % ("" if r["std"] else " without std", bad[:4]))
            with _TP(max_workers=2) as ex:
                r2 = list(ex.map(lambda a: run_job(api_job(feats, a[0], api_base[a[0]], "api-baseline", "_v"), a[1]), [(True, 0), (False, 1)]))
            for r in r2:
                if r["rc"] != 0:
                    errs = api_errors(r)
                    chk.violation("api:full", {"failing": sorted(str(k) for k in errs), "std": r["std"], "detail": list(errs.values())[:5],
                                               "stderr": r["stderr_tail"][-600:]},
                                  "the API probe crate (only probes that hold under `full`) does not build under `full`%s: %s"
                                  % ("" if r["std"] else " without std", list(errs.items())[:3]))
            chk.log("api baseline: %d / %d probes do not hold under full (std / no std), %.1fs" %
                    (len(api_base.get(True, ())), len(api_base.get(False, ())), time.time() - t_api))
            # configurations: those of the matrix's facade checks (singles, sampled no-std singles, sampled pairs) ...
            seen_cfg = set()
            for j in list(jobs):
                if j["kind"] == "check":
                    key = (tuple(j["features"]), j["std"])
                    if key in seen_cfg or (thorough_phase and len(j["features"]) > 1 and len(seen_cfg) > 170):
                        continue
                    seen_cfg.add(key)
                    jobs.append(api_job(j["features"], j["std"], api_base[j["std"]], "api-" + j["why"], ""))
                    # absent-names probe: singles in the quick tier (what a pair over-exposes, one of its singles does too)
                    nj = neg_job(j["features"], j["std"], "apineg-" + j["why"]) \
                        if (thorough_phase or len(j["features"]) == 1) else None
                    if nj is not None:
                        jobs.append(nj)
            # ... and the witness feature sets of refuted impl / trait-export pairs
            for u in (x["exceptions"] if x is not None else []):
                wit = sorted(w for w in u["witness"] if w in feats)
                std = "std" in u["witness"]
                if wit and (tuple(wit), std) not in seen_cfg and len(wit) <= 3:
                    seen_cfg.add((tuple(wit), std))
                    jobs.append(api_job(wit, std, api_base[std], "api-witness", ""))
        jobs = [j for j in jobs if tuple(j["cmd"]) not in done_cmds]
        done_cmds.update(tuple(j["cmd"]) for j in jobs)
        chk.log("%d builds (%s)" % (len(jobs), "thorough" if thorough_phase else "quick"))

        # baseline: warnings of the `full` build (toolchain drift is not a property of a feature subset)
        base_jobs = [run_job({"kind": "check-impl", "features": ["full"], "std": True, "cmd": cargo_cmd("check-impl", ["full"], True)}, 0),
                     run_job({"kind": "check", "features": ["full"], "std": True, "cmd": cargo_cmd("check", ["full"], True)}, 0)]
        baseline = set()
        for b in base_jobs:
            if b["rc"] != 0:
                chk.violation("build:full", {"cmd": " ".join(b["cmd"]), "stderr": b["stderr_tail"], "messages": b["messages"][:5]},
                              "the `full` configuration itself does not build")
            for m in b["messages"]:
                baseline.add(msg_key(m))
        chk.log("baseline: %d warnings under `full`" % len(baseline))

        # regression crates: the real macro under ONE feature, on inputs that reach templates naming facade items
        reg_results = []
        if not replay:
            for (name, rfeats, rstd, src, is_bin) in REGRESSION_CRATES:
                t0 = time.time()
                d = common.make_crate("c20_reg_" + name, src, features=tuple(rfeats) + (("std",) if rstd else ()),
                                      default_features=False, bin=is_bin)
                rc, out = common.cargo(d, ["check", "--quiet"], target_dir=os.path.join(TARGET, "reg"))
                common.cleanup_scratch("c20_reg_" + name)
                chk.count(("regression", name), True)
                chk.bump("regression-crate")
                reg_results.append({"name": name, "features": rfeats, "std": rstd, "rc": rc, "wall_s": round(time.time() - t0, 1)})
                if rc != 0:
                    chk.violation("error:regression:" + name,
                                  {"features": rfeats, "std": rstd, "main_rs": src, "output": out[-2500:],
                                   "cmd": "cargo check in a crate with derive_more = { path = \"/repo\", default-features = false, "
                                          "features = %s }" % (list(rfeats) + (["std"] if rstd else []))},
                                  "a crate using only feature(s) %s does not build: %s" % (rfeats, out[-300:]))

        # workers with private target dirs (cargo locks a target dir for the whole invocation)
        from concurrent.futures import ThreadPoolExecutor
        import queue
        q = queue.Queue()
        # tests last on few workers (they need the dev-dependencies built)
        for j in sorted(jobs, key=lambda j: (j["kind"] == "test", j["features"])):
            q.put(j)
        results = []

        def worker(w):
            out = []
            while True:
                try:
                    j = q.get_nowait()
                except queue.Empty:
                    return out
                out.append(run_job(j, w))

        with ThreadPoolExecutor(max_workers=WORKERS) as ex:
            for r in ex.map(worker, range(WORKERS)):
                results.extend(r)

        n_fail = 0
        n_api_probes = 0
        warning_only = []
        for r in results:
            fs = "+".join(r["features"])
            key = (r["kind"], fs, r["std"], r["test"])
            chk.count(key, True)
            chk.bump("%s:%s" % (r["kind"], r["why"]))
            new = [m for m in r["messages"] if msg_key(m) not in baseline]
            errs = [m for m in new if m["level"] == "error"]
            warns = [m for m in new if m["level"] == "warning"]
            cmdline = " ".join(r["cmd"])
            rep = {"cmd": r["cmd"], "cmdline": "CARGO_TARGET_DIR=%s %s" % (os.path.join(TARGET, "w0"), cmdline),
                   "kind": r["kind"], "features": r["features"], "std": r["std"], "test": r["test"], "rc": r["rc"]}
            if r["kind"] == "api-neg":
                probes_ = api_meta[r["name"]]["probes"]
                msgs_ = [m for m in r["messages"] if m["file"] and m["file"].endswith("main.rs")]
                n_api_probes += len(probes_)
                resolved, stray = c20_api.unexpected_names(probes_, msgs_)
                built_dep = any("unresolved import" in (m["text"] or "") or m.get("code") in ("E0432", "E0433") for m in msgs_)
                if r["rc"] != 0 and not msgs_:
                    chk.violation("api:unattributed:" + fs, {"features": r["features"], "std": r["std"], "stderr": r["stderr_tail"]},
                                  "the absent-names probe crate for %s did not get as far as name resolution: %s" % (fs, r["stderr_tail"][-200:]))
                    n_fail += 1
                    continue
                if resolved or stray:
                    n_fail += 1
                cfg_txt = "%s%s" % (fs, "+std" if r["std"] else " (no std)")
                for p_ in resolved:
                    chk.violation("api:" + p_["key"],
                                  {"features": r["features"], "std": r["std"], "name": p_["subject"],
                                   "main_rs": api_meta[r["name"]]["src"], "line": p_["lo"],
                                   "expected": "does not resolve: the facade's feature table switches its feature on only with "
                                               "another feature",
                                   "cmd": "cargo check in a crate with derive_more = { path = \"/repo\", default-features = false, "
                                          "features = %s } and this src/main.rs: line %d must be an error" %
                                          (r["features"] + (["std"] if r["std"] else []), p_["lo"])},
                                  "with exactly the features %s the name `%s` resolves although no enabled feature exports it"
                                  % (cfg_txt, p_["subject"]))
                for m_ in stray[:3]:
                    chk.violation("api:unattributed:" + fs, {"features": r["features"], "std": r["std"], "error": m_},
                                  "unexpected error in the absent-names probe crate for %s: %s" % (cfg_txt, m_["text"][:200]))
                continue
            if r["kind"] == "api":
                errs_by = c20_api.attribute(api_meta[r["name"]]["probes"],
                                            [m for m in r["messages"] if m["file"] and m["file"].endswith("main.rs")])
                n_api_probes += len(api_meta[r["name"]]["probes"])
                if r["rc"] != 0:
                    n_fail += 1
                    if not errs_by:
                        errs_by = {None: (r["stderr_tail"] or "")[-300:]}
                    for key_, text in errs_by.items():
                        cfg_txt = "%s%s" % (fs, "+std" if r["std"] else " (no std)")
                        chk.violation("api:%s" % (key_ if key_ is not None else "unattributed:" + fs),
                                      {"features": r["features"], "std": r["std"], "probe": key_, "error": text,
                                       "main_rs": api_meta[r["name"]]["src"],
                                       "cmd": "cargo check in a crate with derive_more = { path = \"/repo\", default-features = false, "
                                              "features = %s } and this src/main.rs" % (r["features"] + (["std"] if r["std"] else []))},
                                      "with exactly the features %s a consumer crate fails on probe `%s` (it holds under `full`): %s"
                                      % (cfg_txt, key_, text[:200]))
                continue
            if r["rc"] != 0:
                n_fail += 1
                what = "test" if r["kind"] == "test" and not errs else "error"
                pk = (errs[0]["package"] if errs else "derive_more")
                chk.violation("%s:%s:%s%s%s" % (what, pk, fs, "" if r["std"] else ":nostd", (":" + r["test"]) if r["test"] else ""),
                              dict(rep, messages=errs[:6], stderr=r["stderr_tail"], stdout=r["stdout_tail"]),
                              "`%s` fails (rc=%d): %s" % (cmdline, r["rc"], (errs[0]["text"] if errs else r["stdout_tail"][-200:] or r["stderr_tail"][-200:])))
            elif warns:
                # warnings are not build errors: an observation, not a violation of the property text
                warning_only.append({"cmd": cmdline, "features": r["features"], "std": r["std"], "n_warnings": len(warns),
                                     "packages": sorted(set(m["package"] for m in warns)),
                                     "lints": sorted(set(str(m["code"]) for m in warns)),
                                     "first": "%s at %s:%s" % (warns[0]["text"], warns[0]["file"], warns[0]["line"])})
                chk.bump("warning-only:" + fs)
            if len(chk.cov["samples"]) < 10:
                chk.sample({"cmd": cmdline, "rc": r["rc"], "new_warnings": len(warns), "wall_s": r["wall"]})
        chk.cov["traces_validated_against_impl"] = len(results)

        tot["results"] += results; tot["n_fail"] += n_fail; tot["n_api"] += n_api_probes
        tot["warning_only"] += warning_only; tot["reg"] += reg_results
        if (not thorough_phase and not replay and getattr(chk, "proof_broken", False)
                and not [v for v in chk.violations if not v[3]]):
            chk.log("proof obligation broken and no failing input in the %s matrix: widening to the thorough matrix" % tier)
            phases.append(True)
    results, n_fail, n_api_probes = tot["results"], tot["n_fail"], tot["n_api"]
    warning_only, reg_results = tot["warning_only"], tot["reg"]
    for nm in api_meta:
        common.cleanup_scratch(nm)
    git_after = common.sh(["git", "-C", common.REPO, "status", "--short"])[1]
    if git_after != git_before:
        chk.violation("repo-modified", {"before": git_before, "after": git_after},
                      "the build matrix changed files inside /repo", no_input=True)

    if getattr(chk, "proof_broken", False) and not chk.violations:
        chk.violation("proof-broken", chk.proof_failure,
                      "a C20 obligation no longer checks (%s) and the (widened) build matrix of %d builds found no failing "
                      "configuration" % (chk.proof_failure["failed"], len(results)), no_input=True)
    elif getattr(chk, "proof_broken", False):
        chk.notes.append("proof obligation broken at %s; failing configurations found by the build matrix" % chk.proof_failure["failed"])

    extra = {"partial": "cargo/rustc do the building; the theorems cover the cfg skeleton only",
             "baseline_full_warnings": [list(k) for k in sorted(baseline, key=str)][:20],
             "builds": len(results), "builds_failing": n_fail,
             "warning_only_configs": warning_only,
             "warning_only_note": "observations, not violations: warnings that the `full` build does not have; they would be "
                                  "fatal only under an extra RUSTFLAGS=-D warnings (upstream CI's setting)",
             "regression_crates": reg_results,
             "api_probes_checked": n_api_probes,
             "api_probes_not_holding_under_full": {"std": sorted(api_base.get(True, ())), "no_std": sorted(api_base.get(False, ()))},
             "build_wall_total_s": round(sum(r["wall"] for r in results), 1),
             "refuted_pairs": refuted,
             "translator_controls": [{"mutation": n, "expected": e, "got": g, "detail": d} for n, e, g, d in controls]}
    if x is not None:
        extra["facts"] = {"stats": x["stats"], "variables": x["variables"], "optional_dependencies": x["dep_table"],
                          "derives": len(x["derives"]), "trait_reexports": len(x["trait_exports"]),
                          "helper_items": [h["item"] for h in x["helpers"]],
                          "interpolated_template_paths": len(x["notes"]),
                          "exceptions": [{"use": c20_cfg.f_text(u["use"]), "def": c20_cfg.f_text(u["def"]),
                                          "witness": u["witness"], "what": sorted(set(s["what"] for s in u["sites"]))}
                                         for u in x["exceptions"]]}
    # the build matrix leaves GBs of output behind (every feature set is a separate artefact): drop it when it grows
    import shutil
    rc_du, out_du = common.sh(["du", "-sm", TARGET])
    try:
        size_mb = int(out_du.split()[0])
    except Exception:
        size_mb = 0
    if tier == "thorough" or size_mb > 6000:
        shutil.rmtree(TARGET, ignore_errors=True)
    return chk.finish(
        proof=st,
        rule="T-gen pairs: every use site (use declarations, crate paths, bare guarded names, template paths into the facade, "
             "std in the no_std facade, optional dependencies, trait re-exports) x its definition(s); matrix: quick = the 24 "
             "single features x {cargo check -p derive_more-impl, cargo check -p derive_more +std}, the feature sets that "
             "switch a crate-level lint gate, and seeded samples of 8 singles without std, 4+2 test runs (std / no std), 8 "
             "pairs; thorough = all singles x {std, no std} incl. every single-feature test file, all 276 pairs x {std, no "
             "std}; a build counts as failing on rc != 0 or on a warning absent from the `full` build; non-trivial = every "
             "build and every refuted pair; distinct by (kind, features, std, test)",
        trusted=TRUSTED, extra=extra)


def lint_gates():
    """feature sets with at most two derive features that make a crate-level `#![cfg_attr(P, allow(..))]` of
    impl/src/utils.rs / lib.rs switch off (the allow disappears), read from the source"""
    import re
    out = []
    for rel in ("impl/src/utils.rs", "impl/src/lib.rs"):
        src = open(os.path.join(common.REPO, rel)).read()
        for m in re.finditer(r"#!\[cfg_attr\(\s*not\(all\(([^)]*)\)\),\s*allow\(", src):
            fs = re.findall(r'feature\s*=\s*"([^"]+)"', m.group(1))
            if 1 <= len(fs) <= 3:
                out.append(sorted(fs))
    return out


META = {
    "level": "proof",
    "technique": "Coq proof of a sound decision procedure for cfg-formula implication + source-fact translator (T-gen) "
                 "over both crates + real cargo build matrix (oracle, partial by nature)",
    "text": "cfg guards are propositional formulas over ~25 feature variables. implies_dec (complete case split on the "
            "occurring variables) is proved sound; over the facts regenerated from Cargo.toml, impl/Cargo.toml, impl/src/** "
            "and src/** on every run it is proved that for ALL assignments every compiled-in use site has its definition "
            "compiled in (C20_defined_where_used), every derive macro is exported exactly when its feature is on "
            "(C20_exports_exact), helper items are compiled in only where used, the feature map facade->impl is the identity, "
            "full = the derive features and the hook feature is in no default/full list. Pairs that are refuted are proved "
            "refuted (C20_exceptions_refuted) and searched for a reaching input. The builds themselves are cargo's: the "
            "matrix (singles, pairs in thorough, with/without std, the derives' own test files) is the oracle.",
    "note": "Partial by nature. Trusted: Coq kernel/vm_compute; the translator (lists definitions/uses/guards; counts "
            "cross-checked; sensitivity controls each run); approximated name resolution; template reachability and "
            "trait-level needs (syn extra-traits) not modelled - matrix only; cargo/rustc 1.95.",
    "design_ref": "DESIGN.md section 2 / C20",
}
