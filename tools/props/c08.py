"""C08 - From, Into and Constructor preserve field order and invert each other.

proofs : coq/theories/C08 (positions, one From::from per field, impl sets, arity validation, round trips,
         for every number of fields)
tie 1  : Coq model of from.rs / into.rs / constructor.rs / validate_type  vs  the real expanders (in-process):
         outcome (tokens / diagnostic / panic), every impl header (generics, trait, self type, where clause) and
         every method body, token for token
tie 2  : the model's prediction of what each impl computes (from_sem / into_sem / traces, evaluated in Coq)
         vs  the real proc-macro compiled by rustc and run on distinguishable values
oracle : an independent Python evaluator of the documented rules (impl/doc/{from,into,constructor}.md + the
         property text) vs the same run: field positions, addresses of referenced fields, logs of the
         instrumented user From impls, trait-resolution probes for the impl set, round trips
"""
import json
import random
import re

from lib import common

TRUSTED = [
    "Coq 8.16.1 kernel + vm_compute (coqc full .vo build); no axioms (Print Assumptions: closed)",
    "hand-written Gallina model coq/theories/C08/Model.v, tied to the code on every run: whole expansions "
    "(headers and bodies) against the in-process harness, computed values against the real macro under rustc",
    "value semantics of the emitted bodies (struct/tuple construction, field projection, `&value.i` is the address "
    "of field i, evaluation order of struct-expression fields, core's `impl<T> From<T> for T` is the identity): "
    "modelled, exercised against rustc at run time",
    "tools/props/c08.py (generators, renderers, canonicalisers, the Python oracle of the documented rules); "
    "the inherent-const-over-trait-const trick used to observe trait resolution as a bool",
    "user From impls are uninterpreted (Section variable conv); type identity is syntactic (no aliases generated)",
]

NF = 8
FROM_PATH = "derive_more::core::convert::From"
LF = "'__derive_more_into"

# ------------------------------------------------------------------ types
# a type is: str (an atom, any non-tuple Rust type), tuple (a tuple type), int (the macro's __FromT<k>)

ATOM = {"skip": 0, "ignore": 1, "forward": 2, "types": 3}      # `types`: the word of the legacy `#[from(types(..))]`
for _i in range(NF):
    for _b, _n in (("F", 10), ("Pa", 20), ("Pb", 30), ("Qa", 40), ("Qb", 50), ("Ra", 60), ("Rb", 70)):
        ATOM["%s%d" % (_b, _i)] = _n + _i
for _k, _t in enumerate(["T", "U", "i32", "u8", "String", "Vec<T>", "&'static str", "Option<U>", "[u8; 4]", "X"]):
    ATOM[_t] = 80 + _k
ATOM["Tag<T>"] = 95      # a field type that REQUIRES the item's bound on its parameter (`struct Tag<X: Label>`)
ATOM["Tag<U>"] = 96
# the same universe types reached through a path: the first segment collides with attribute words / legacy names
PATH_PREFIXES = ["types", "self", "crate", "crate::m", "m::types", "forward", "skip", "ignore", "r#ref", "owned", "ref_mut"]
INTO_SAFE_PREFIXES = PATH_PREFIXES           # `owned::X` / `ref_mut::X` are types since ce243e7 (keyword only if no `::` follows)
_n = 1000
for _p in PATH_PREFIXES:
    for _b in ("F", "Pa", "Pb", "Qa", "Qb", "Ra", "Rb"):
        for _i in range(NF):
            ATOM["%s::%s%d" % (_p, _b, _i)] = _n
            _n += 1
ATOM["::std::string::String"] = 900
ATOM_REV = {v: k for k, v in ATOM.items()}


def norm_ty(t):
    """the type a (possibly path-spelled) type denotes in the run-time universe"""
    if isinstance(t, tuple):
        return tuple(norm_ty(x) for x in t)
    if isinstance(t, str) and "::" in t:
        return t.rsplit("::", 1)[1]
    return t


def norm_deep(x):
    """norm_ty over every type inside a case / a model answer (types are the str leaves that name atoms)"""
    if isinstance(x, dict):
        return {k: (v if k in ("derive", "kind", "style", "spell", "raw", "rt", "gen") else norm_deep(v)) for k, v in x.items()}
    if isinstance(x, tuple):
        return tuple(norm_deep(v) for v in x)
    if isinstance(x, list):
        return [norm_deep(v) for v in x]
    if isinstance(x, str) and "::" in x and x in ATOM:
        return norm_ty(x)
    return x


def is_f(t):
    return isinstance(t, str) and t[:1] == "F" and t[1:].isdigit()


def has_path_listed(case):
    return "::" in json.dumps([case.get("attrs"), case.get("sattrs"), case.get("variants"),
                               [f[1] for f in case["fields"]] if case["derive"] == "Into" else None])


def coq_ty(t):
    if isinstance(t, str):
        return "(TAtom %d)" % ATOM[t]
    if isinstance(t, int):
        return "(TGen %d)" % t
    return "(TTuple [%s])" % "; ".join(coq_ty(x) for x in t)


def py_ty(t):
    """parsed Coq term -> python type"""
    if t[0] == "TAtom":
        return ATOM_REV[t[1]]
    if t[0] == "TGen":
        return t[1]
    return tuple(py_ty(x) for x in t[1])


class Speller:
    """How tuple types are *written* in the rendered item (the type is the same): plain `(A, B)`, with a trailing
    comma `(A, B,)`, over several lines, without spaces.  `mode` 0/None = always plain; an int seeds a private PRNG
    (so a case renders the same way every time); "trail" / "ml" force one spelling."""

    def __init__(self, mode):
        self.mode = mode
        self.r = random.Random(mode) if isinstance(mode, int) and mode else None

    def tuple(self, parts):
        if len(parts) == 0:
            return "( )" if self.r is not None and self.r.random() < 0.3 else "()"
        st = "plain"
        if self.mode == "trail":
            st = "trail"
        elif self.mode == "ml":
            st = "ml-trail"
        elif self.r is not None:
            st = self.r.choice(["plain", "trail", "trail", "ml", "ml-trail", "tight", "tight-trail"])
        if len(parts) == 1:
            return {"ml": "(\n    %s,\n)", "ml-trail": "(\n    %s,\n)", "tight": "(%s,)", "tight-trail": "(%s,)"}.get(st, "(%s,)") % parts[0]
        if st == "plain":
            return "(%s)" % ", ".join(parts)
        if st == "trail":
            return "(%s,)" % ", ".join(parts)
        if st == "ml":
            return "(\n    %s\n)" % ",\n    ".join(parts)
        if st == "ml-trail":
            return "(\n    %s,\n)" % ",\n    ".join(parts)
        if st == "tight":
            return "(%s)" % ",".join(parts)
        return "(%s,)" % ",".join(parts)


    def noise(self):
        """an unrelated attribute in between (the derives must look at their own attributes only)"""
        if self.r is None or self.r.random() < 0.8:
            return ""
        return self.r.choice(['#[doc = "n"]', "#[allow(dead_code)]", "/// d\n", '#[cfg_attr(any(), deprecated)]'])

    def comma(self):
        """an optional trailing comma at the end of an attribute argument list"""
        return "," if self.r is not None and self.r.random() < 0.3 else ""


PLAIN = Speller(0)


def rust_ty(t, sp=PLAIN):
    if isinstance(t, str):
        return t
    if isinstance(t, int):
        return "__FromT%d" % t
    return sp.tuple([rust_ty(x, sp) for x in t])


def paren_list(l):
    """`( #(x),* )`: one element is that element in parentheses (the same type), otherwise a tuple"""
    return l[0] if len(l) == 1 else tuple(l)


def ws(s):
    return re.sub(r"\s+", "", s)


def canon_commas(s):
    """whitespace-free token string with the optional trailing comma of every parenthesised group of two or more
    elements removed (`(A,B,)` -> `(A,B)`; the comma of a one-element tuple `(A,)` is significant and kept)"""
    stack = []          # (bracket, number of top-level commas, index of last top-level comma in out)
    out = []
    for i, c in enumerate(s):
        if c in "([{<":
            stack.append([c, 0, -1])
            out.append(c)
            continue
        if c == ">" and (i > 0 and s[i - 1] in "-="):
            out.append(c)
            continue
        if c in ")]}>":
            want = {")": "(", "]": "[", "}": "{", ">": "<"}[c]
            if stack and stack[-1][0] == want:
                _, n, last = stack.pop()
                if c == ")" and n >= 2 and out and out[-1] == "," and last == len(out) - 1:
                    out.pop()
            out.append(c)
            continue
        if c == "," and stack:
            stack[-1][1] += 1
            stack[-1][2] = len(out)
        out.append(c)
    return "".join(out)


def canon_paren(s):
    """whitespace-free type string with redundant outer parentheses `(T)` removed (`(T,)` is kept)"""
    while len(s) >= 2 and s[0] == "(" and s[-1] == ")":
        depth = 0
        top_comma = False
        closes_early = False
        for i, c in enumerate(s):
            if c in "([<":
                depth += 1
            elif c in ")]>":
                if c == ">" and i > 0 and s[i - 1] == "-":
                    continue
                depth -= 1
                if depth == 0 and i != len(s) - 1:
                    closes_early = True
                    break
            elif c == "," and depth == 1:
                top_comma = True
        if closes_early or top_comma or len(s) == 2:
            break
        s = s[1:-1]
    return s


# ------------------------------------------------------------------ item language
# From case  : {"derive":"From","kind":"struct","style","gen","attrs":[A..],"fields":[ty..]}
#              {"derive":"From","kind":"enum","gen","variants":[{"style","attrs":[A..],"fields":[ty..]}]}
#              A = None (`#[from]`) | [ty, ...] (`#[from(a, b)]`)
# Into case  : {"derive":"Into","style","gen","sattrs":[I..],"fields":[[ty,[I..]],..]}
#              I = None (`#[into]`) | [item..];  item = ["t", ty] | ["k", kind, None | [ty..]]
# Ctor case  : {"derive":"Constructor","style","gen","fields":[ty..]}

GENERICS = [("", "", [], []),
            ("<T>", "<T>", ["T"], []),
            ("<T: Clone, U>", "<T, U>", ["T:Clone", "U"], []),
            ("<T, U>", "<T, U>", ["T", "U"], ["U:Default"]),
            # run-time capable: the bound is needed by a field of type Tag<..>; inline, in a where clause, or both
            ("<T: Label>", "<T>", ["T:Label"], []),
            ("<T>", "<T>", ["T"], ["T:Label"]),
            ("<T, U: Label>", "<T, U>", ["T", "U:Label"], ["T:Label"])]
GEN_TAGS = {4: ["Tag<T>"], 5: ["Tag<T>"], 6: ["Tag<T>", "Tag<U>"]}


def choose_gen(rng, rt):
    if rng.random() < 0.1:
        return rng.choice([4, 5, 5, 6])
    return 0 if rt or rng.random() < 0.6 else rng.randrange(1, 4)


def with_tags(rng, gen, ftys):
    """every type parameter of a run-time capable generic item is used by a field of type Tag<param>"""
    tags = GEN_TAGS.get(gen, [])
    ftys = list(ftys)
    while len(ftys) < len(tags):
        ftys.append("F%d" % rng.randrange(NF))
    for t, pos in zip(tags, rng.sample(range(len(ftys)), len(tags))):
        ftys[pos] = t
    return ftys
KINDS = ["owned", "ref", "ref_mut"]
KIND_COQ = {"owned": "KOwned", "ref": "KRef", "ref_mut": "KRefMut"}
KIND_PY = {v: k for k, v in KIND_COQ.items()}


def fname(raw, i):
    """name of the i-th field of a braced struct/variant; `raw` cases spell it as a raw identifier"""
    return ("r#f%d" if raw else "f%d") % i


def fields_src(style, fields, attrs=None, sp=PLAIN, raw=False):
    def one(i, t):
        own = list(attrs[i] if attrs else [])
        own.insert(sp.r.randrange(len(own) + 1) if sp.r is not None else 0, sp.noise())
        a = "".join(x + " " for x in own if x)
        return a + ("%s: %s" % (fname(raw, i), rust_ty(t, sp)) if style == "named" else rust_ty(t, sp))
    if style == "unit":
        return ""
    body = ", ".join(one(i, t) for i, t in enumerate(fields))
    return "{ %s }" % body if style == "named" else "(%s)" % body


def from_attr_src(a, sp=PLAIN):
    if a is None:
        return "#[from]"
    # `skip,` / `forward,` are not the words any more (the word parsers want the whole argument list): no comma there
    tc = sp.comma() if a and a not in (["skip"], ["ignore"], ["forward"]) else ""
    return "#[from(%s%s)]" % (", ".join(rust_ty(t, sp) for t in a), tc)


def into_attr_src(a, sp=PLAIN):
    if a is None:
        return "#[into]"
    parts = []
    for it in a:
        if it[0] == "t":
            parts.append(rust_ty(it[1], sp))
        elif it[2] is None:
            parts.append(it[1])
        else:
            parts.append("%s(%s%s)" % (it[1], ", ".join(rust_ty(t, sp) for t in it[2]), sp.comma() if it[2] else ""))
    single_word = len(a) == 1 and a[0][0] == "t" and a[0][1] in ("skip", "ignore")
    return "#[into(%s%s)]" % (", ".join(parts), sp.comma() if a and not single_word else "")


def struct_src(attrs, gen, style, fsrc, name="S"):
    g = GENERICS[gen]
    wh = (" where " + ", ".join(g[3])) if g[3] else ""
    wh = wh.replace(":", ": ")
    if style == "named":
        return "%s struct %s%s%s %s" % (" ".join(a for a in attrs if a), name, g[0], wh, fsrc)
    return "%s struct %s%s%s%s;" % (" ".join(a for a in attrs if a), name, g[0], fsrc, wh)


def item_src(case, name=None):
    d = case["derive"]
    sp = Speller(case.get("spell", 0))
    raw = bool(case.get("raw"))
    if d == "From" and case["kind"] == "enum":
        g = GENERICS[case["gen"]]
        wh = (" where " + ", ".join(g[3]).replace(":", ": ")) if g[3] else ""
        vs = []
        for k, v in enumerate(case["variants"]):
            vs.append("%s %s V%d%s" % (sp.noise(), " ".join(from_attr_src(a, sp) for a in v["attrs"]), k,
                                       fields_src(v["style"], v["fields"], None, sp, raw)))
        return "%s enum %s%s%s { %s }" % (sp.noise(), name or "E", g[0], wh, ", ".join(vs))
    if d == "From":
        return struct_src([sp.noise()] + [from_attr_src(a, sp) for a in case["attrs"]], case["gen"], case["style"],
                          fields_src(case["style"], case["fields"], None, sp, raw), name or "S")
    if d == "Into":
        sa = [into_attr_src(a, sp) for a in case["sattrs"]] + [sp.noise()]
        fa = [[into_attr_src(a, sp) for a in f[1]] for f in case["fields"]]
        return struct_src(sa, case["gen"], case["style"],
                          fields_src(case["style"], [f[0] for f in case["fields"]], fa, sp, raw), name or "S")
    return struct_src([sp.noise()], case["gen"], case["style"], fields_src(case["style"], case["fields"], None, sp, raw),
                      name or "S")


def coq_list(xs):
    return "[%s]" % "; ".join(xs)


def coq_from_attr(a):
    return "APath" if a is None else "(AArgs %s)" % coq_list(coq_ty(t) for t in a)


HEAD_COQ = {"owned": "HOwned", "ref": "HRef", "ref_mut": "HRefMut"}


def coq_into_attr(a):
    """token-level view of one `#[into..]` attribute: per argument the leading identifier, whether `::` follows it,
    the parenthesised group, and the type the tokens spell; the model's classify_arg (into.rs:383-391) decides which
    arguments are wrappers"""
    if a is None:
        return "TPath"
    its = []
    for it in a:
        if it[0] == "t":
            t = it[1]
            first = t.split("::", 1)[0] if isinstance(t, str) else ""
            head = HEAD_COQ.get(first, "HOther")
            sep = "true" if isinstance(t, str) and "::" in t and not t.startswith("::") and "<" not in first else "false"
            its.append("{| ra_head := %s; ra_pathsep := %s; ra_group := None; ra_ty := %s |}" % (head, sep, coq_ty(t)))
        else:
            grp = "None" if it[2] is None else "(Some %s)" % coq_list(coq_ty(t) for t in it[2])
            its.append("{| ra_head := %s; ra_pathsep := false; ra_group := %s; ra_ty := (TAtom 3) |}" % (HEAD_COQ[it[1]], grp))
    return "(TArgs %s)" % coq_list(its)


def coq_expr(case):
    d = case["derive"]
    if d == "From" and case["kind"] == "enum":
        vs = ["{| v_attrs := %s; v_fields := %s |}" % (coq_list(coq_from_attr(a) for a in v["attrs"]),
                                                      coq_list(coq_ty(t) for t in v["fields"]))
              for v in case["variants"]]
        return "from_report_diag (IEnum %s)" % coq_list(vs)
    if d == "From":
        return "from_report_diag (IStruct %s %s)" % (coq_list(coq_from_attr(a) for a in case["attrs"]),
                                                coq_list(coq_ty(t) for t in case["fields"]))
    if d == "Into":
        fs = ["(%s, %s)" % (coq_ty(f[0]), coq_list(coq_into_attr(a) for a in f[1])) for f in case["fields"]]
        return "into_report_tok %s %s" % (coq_list(coq_into_attr(a) for a in case["sattrs"]), coq_list(fs))
    return "ctor_report %s" % coq_list(coq_ty(t) for t in case["fields"])


# ------------------------------------------------------------------ reading the model's answer

def opt(t):
    if t == "None":
        return None
    assert t[0] == "Some", t
    return t[1]


def py_value(t):
    if t[0] == "VLeaf":
        return ("leaf", t[1])
    if t[0] == "VTuple":
        return ("tuple", [py_value(x) for x in t[1]])
    if t[0] == "VAddr":
        return ("addr", t[1] == "true", t[2])
    if t[0] == "VFrom":
        return ("from", KIND_PY[t[1]], py_ty(t[2]), py_ty(t[3]), py_value(t[4]))
    raise ValueError(t)


def model_from(t):
    """Coq from_report -> 'err' | 'panic' | [impl]"""
    if t == "RErr":
        return "err"
    if t == "RPanic":
        return "panic"
    out = []
    for (d, sem, trace) in t[1]:
        inits = []
        for fi in d["fd_inits"]:
            c = fi["fi_conv"]
            inits.append((opt(fi["fi_proj"]), None if c == "Direct" else py_ty(c[1])))
        s = opt(sem)
        out.append({"variant": opt(d["fd_variant"]), "src": py_ty(d["fd_src"]), "ngen": d["fd_ngen"], "inits": inits,
                    "sem": None if s is None else [py_value(x) for x in s],
                    "trace": [(py_ty(a), py_ty(b)) for (a, b) in trace]})
    return out


def model_into(t):
    t = opt(t)
    if t is None:
        return "err"
    out = []
    for (d, sem) in t:
        s = opt(sem)
        out.append({"kind": KIND_PY[d["id_kind"]], "tys": [py_ty(x) for x in d["id_tys"]],
                    "inits": [(e[0], py_ty(e[1]), py_ty(e[2])) for e in d["id_inits"]],
                    "sem": None if s is None else py_value(s)})
    return out


def model_diag(t):
    """Coq `option vdiag` -> None | the beginning (and end) of the message validate_type gives"""
    t = opt(t)
    if t is None:
        return None
    if t == "DUnitForOne":
        return ("wrong tuple length: expected 1, found 0. Consider adding 1 more type: `(_)`", "")
    if t[0] == "DAddMore":
        e, f = t[1], t[2]
        return ("wrong tuple length: expected %d, found %d. Consider adding %d more type%s: `(" % (e, f, e - f, "s" if e - f > 1 else ""),
                ", ".join(["_"] * (e - f)) + ")`")
    if t[0] == "DRemoveLast":
        e, f = t[1], t[2]
        return ("wrong tuple length: expected %d, found %d. Consider removing last %d type%s: `(" % (e, f, f - e, "s" if f - e > 1 else ""), ")`")
    return ("expected tuple: `(", ", " + ", ".join(["_"] * (t[1] - 1)) + ")`")


def model_ctor(t):
    d, sem = t
    return {"params": [(p[0], py_ty(p[1])) for p in d["ct_params"]], "inits": list(d["ct_inits"]),
            "sem": [py_value(x) for x in opt(sem)]}


# ------------------------------------------------------------------ expected expansions (from the model's descriptors)

def sty(t):
    return ws(rust_ty(t))


def field_ident(style, i, raw=False):
    return fname(raw, i) if style == "named" else str(i)


def expected_from_impls(case, impls):
    g = GENERICS[case["gen"]]
    name = "E" if case["kind"] == "enum" else "S"
    out = []
    for d in impls:
        if d["variant"] is None:
            style, ftys, path = case["style"], case["fields"], name
        else:
            v = case["variants"][d["variant"]]
            style, ftys, path = v["style"], v["fields"], "%s::V%d" % (name, d["variant"])
        params = list(g[2]) + ["__FromT%d" % i for i in range(d["ngen"])]
        where = list(g[3]) + ["%s:%s<__FromT%d>" % (sty(ftys[i]), FROM_PATH, i) for i in range(d["ngen"])]
        src = canon_paren(sty(d["src"]))
        inits = []
        for i, (proj, conv) in enumerate(d["inits"]):
            val = "value" if proj is None else "value.%d" % proj
            if conv is not None:
                fty = sty(ftys[i]) if i < len(ftys) else "?"
                val = "<%sas%s<%s>>::from(%s)" % (fty, FROM_PATH, sty(conv), val)
            inits.append(val)
        if style == "unit":
            body = "{%s}" % path
        elif style == "named":
            body = "{%s{%s}}" % (path, "".join("%s:%s," % (fname(case.get("raw"), i), x) for i, x in enumerate(inits)))
        else:
            body = "{%s(%s)}" % (path, "".join(x + "," for x in inits))
        out.append({"params": params, "trait": "%s<%s>" % (FROM_PATH, src), "self_ty": ws(name + g[1]),
                    "where": where, "sig_ty": src, "sig": "fnfrom(value:%s)->Self", "body": body})
    return out


def expected_into_impls(case, impls):
    g = GENERICS[case["gen"]]
    style = case["style"]
    out = []
    for d in impls:
        r = "&" if d["kind"] != "owned" else ""
        lf = LF if r else ""
        m = "mut" if d["kind"] == "ref_mut" else ""
        me = ws(r + lf + m + "S" + g[1])
        params = ([LF] if r else []) + list(g[2])
        target = canon_paren("(%s)" % ",".join(r + lf + m + sty(t) for t in d["tys"]))
        elems = ["<%s%s%sas%s<_>>::from(%s%svalue.%s)" % (r, m, sty(ty), FROM_PATH, r, m, field_ident(style, idx, case.get("raw")))
                 for (idx, _fty, ty) in d["inits"]]
        out.append({"params": params, "trait": "%s<%s>" % (FROM_PATH, me), "self_ty": target, "where": list(g[3]),
                    "sig_ty": me, "sig": "fnfrom(value:%s)->Self", "body": "{(%s)}" % ",".join(elems)})
    return out


def expected_ctor_impl(case, m):
    g = GENERICS[case["gen"]]
    style = case["style"]
    var = (lambda i: fname(case.get("raw"), i)) if style == "named" else (lambda i: "__%d" % i)
    params = ",".join("%s:%s" % (var(i), sty(t)) for (i, t) in m["params"])
    me = ws("S" + g[1])
    if style == "tuple":
        body = "{S(%s)}" % ",".join(var(v) for v in m["inits"])
    else:
        body = "{S{%s}}" % ",".join("%s:%s" % (fname(case.get("raw"), k), var(v)) for k, v in enumerate(m["inits"]))
    return [{"params": list(g[2]), "trait": None, "self_ty": me, "where": list(g[3]),
             "sig_ty": None, "sig": "constfnnew(%s)->%s" % (params, me), "body": body}]


def real_impls(resp):
    """canonical view of the `items` summary of a real expansion"""
    out = []
    for it in resp.get("items", []):
        if it.get("kind") != "impl":
            out.append({"other": it})
            continue
        fns = [m for m in it["members"] if m["kind"] == "fn"]
        tr = it["trait"]
        if tr is not None:
            tr = canon_commas(ws(tr))
            mm = re.match(r"^(.*?)<(.*)>$", tr)
            tr = "%s<%s>" % (mm.group(1), canon_paren(mm.group(2))) if mm else tr
        sig = canon_commas(ws(fns[0]["sig"])) if fns else None
        if sig and sig.startswith("fnfrom(value:") and sig.endswith(")->Self"):
            sig = "fnfrom(value:%s)->Self" % canon_paren(sig[len("fnfrom(value:"):-len(")->Self")])
        out.append({"params": [ws(p) for p in it["params"]], "trait": tr, "self_ty": canon_paren(canon_commas(ws(it["self_ty"]))),
                    "where": [canon_commas(ws(w)) for w in it["where"]], "sig": sig,
                    "body": canon_commas(ws(fns[0]["body"])) if fns else None, "n_members": len(it["members"])})
    return out


def finish_expected(exp):
    out = []
    for e in exp:
        sig = e["sig"] % e["sig_ty"] if e["sig_ty"] is not None else e["sig"]
        out.append({"params": e["params"], "trait": None if e["trait"] is None else canon_commas(e["trait"]),
                    "self_ty": canon_commas(e["self_ty"]), "where": [canon_commas(w) for w in e["where"]],
                    "sig": canon_commas(sig), "body": canon_commas(e["body"]), "n_members": 1})
    return out


# ------------------------------------------------------------------ the documented rules (oracle), written from
# impl/doc/from.md, impl/doc/into.md, impl/doc/constructor.md and the property text; does not use the model.

def own_tuple(tys):
    """`.into()` on "a tuple containing the desired content for each field"; the content itself for one field"""
    tys = list(tys)
    return tys[0] if len(tys) == 1 else tuple(tys)


def components(t, n):
    """the per-field component types of a listed type for n fields"""
    if n == 1:
        return [t]
    return list(t) if isinstance(t, tuple) else None


def oracle_from(case):
    """-> list of (variant index | None, source type, per-field argument types or None (=the field itself),
    forward?)"""
    def classify(attrs):
        if not attrs:
            return ("none",)
        kinds = []
        for a in attrs:
            if a is None:
                kinds.append(("plain",))
            elif a in (["skip"], ["ignore"]):
                kinds.append(("skip",))
            elif a == ["forward"]:
                kinds.append(("forward",))
            else:
                kinds.append(("types", list(a)))
        if all(k[0] == "types" for k in kinds):
            return ("types", [t for k in kinds for t in k[1]])
        return kinds[0] if len(kinds) == 1 else ("invalid",)

    def one(variant, attr, ftys, explicit):
        n = len(ftys)
        if attr[0] == "skip":
            return []
        if attr[0] == "types":
            return [(variant, t, components(t, n), False) for t in attr[1]]
        if attr[0] == "forward":
            return [(variant, own_tuple(range(n)), list(range(n)), True)]
        if attr[0] == "plain":
            return [(variant, own_tuple(ftys), None, False)]
        # no attribute
        if variant is not None and (explicit or n == 0):
            return []
        return [(variant, own_tuple(ftys), None, False)]

    if case["kind"] == "struct":
        return one(None, classify(case["attrs"]), case["fields"], False)
    attrs = [classify(v["attrs"]) for v in case["variants"]]
    explicit = any(a[0] in ("plain", "types", "forward") for a in attrs)
    out = []
    for k, (v, a) in enumerate(zip(case["variants"], attrs)):
        out += one(k, a, v["fields"], explicit)
    return out


def conv_attr(attrs):
    """merge of the `owned/ref/ref_mut/types` attributes: kind -> (own types?, [listed types])"""
    res = {k: [False, []] for k in KINDS}
    for a in attrs:
        if a is None:
            res["owned"][0] = True
            continue
        for it in a:
            if it[0] == "t":
                res["owned"][1].append(it[1])
            elif it[2] is None:
                res[it[1]][0] = True
            else:
                res[it[1]][1] += it[2]
    return res


def oracle_into(case):
    """-> list of (kind, target type, [(field index, field type, component type)])"""
    fields = case["fields"]
    out = []

    def emit(src, convs):
        own = own_tuple(t for (_, t) in src)
        for k in KINDS:
            tys = ([own] if convs[k][0] else []) + convs[k][1]
            for t in tys:
                comps = [t] if len(src) == 1 else (list(t) if isinstance(t, tuple) else None)
                out.append((k, t, None if comps is None else [(i, ft, c) for ((i, ft), c) in zip(src, comps)]))

    any_field_conv = False
    skipped = set()
    for i, (t, attrs) in enumerate(fields):
        conv_attrs = []
        for a in attrs:
            if a is not None and len(a) == 1 and a[0][0] == "t" and a[0][1] in ("skip", "ignore"):
                skipped.add(i)
            else:
                conv_attrs.append(a)
        if conv_attrs:
            any_field_conv = True
            emit([(i, t)], conv_attr(conv_attrs))
    src = [(i, t) for i, (t, _) in enumerate(fields) if i not in skipped]
    if case["sattrs"]:
        emit(src, conv_attr(case["sattrs"]))
    elif not any_field_conv:
        emit(src, conv_attr([None]))
    return out


def listed_arity(case):
    """documented acceptance of the listed types: -> (n fields, listed type, verdict) for every listed type;
    verdict 'ok' | 'wrong-arity' (2+ fields want a tuple of exactly that many elements; one field does not want `()`)"""
    out = []

    def judge(n, t):
        if n >= 2:
            return "ok" if isinstance(t, tuple) and len(t) == n else "wrong-arity"
        if n == 1 and t == ():
            return "wrong-arity"
        return "ok"
    if case["derive"] == "From":
        shapes = [(case["attrs"], case["fields"])] if case["kind"] == "struct" else \
            [(v["attrs"], v["fields"]) for v in case["variants"]]
        for attrs, ftys in shapes:
            for a in attrs:
                if a is None or a in (["skip"], ["ignore"], ["forward"]):
                    continue
                for t in a:
                    out.append((len(ftys), t, judge(len(ftys), t)))
    elif case["derive"] == "Into":
        def walk(attrs, n):
            for a in attrs:
                for it in (a or []):
                    for t in ([it[1]] if it[0] == "t" else (it[2] or [])):
                        out.append((n, t, judge(n, t)))
        skipped = 0
        for (t, attrs) in case["fields"]:
            conv = []
            for a in attrs:
                if a is not None and len(a) == 1 and a[0][0] == "t" and a[0][1] in ("skip", "ignore"):
                    skipped += 1
                else:
                    conv.append(a)
            walk(conv, 1)
        walk(case["sattrs"], len(case["fields"]) - skipped)
    return out


SPLIT_KEY = "listed-tuple-for-single-field-split"


def split_scope(case):
    """a tuple type listed for exactly ONE participating field (From: struct/variant with one field; Into: a field-level
    list, or a struct-level list with one non-skipped field).  validate_type splits such a type into its elements (known
    finding SPLIT_KEY).  The one-element tuple listed for Into keeps its own key (into-listed-one-tuple-flattened)."""
    if case["derive"] not in ("From", "Into"):
        return False
    return any(n == 1 and isinstance(t, tuple) and (case["derive"] == "From" or len(t) != 1)
               for (n, t, _v) in listed_arity(case))


def has_listed_tuple(case):
    return any(isinstance(t, tuple) and len(t) >= 2 for (_n, t, _v) in listed_arity(case))


# ------------------------------------------------------------------ the instrumented universe of the run-time crate

MARK = {}      # (kind, from, to) -> offset / sub-field


def _init_marks():
    for i in range(NF):
        f = "F%d" % i
        MARK[("owned", "Pa%d" % i, f)] = 1000
        MARK[("owned", "Pb%d" % i, f)] = 2000
        MARK[("owned", f, "Qa%d" % i)] = 3000
        MARK[("owned", f, "Qb%d" % i)] = 4000
        for k in ("ref", "ref_mut"):
            MARK[(k, f, "Ra%d" % i)] = "ra"
            MARK[(k, f, "Rb%d" % i)] = "rb"


_init_marks()

PRELUDE = r"""#![allow(dead_code, unused_variables, unused_mut, unused_imports, non_snake_case, non_camel_case_types, clippy::all)]
use std::cell::RefCell;
use std::marker::PhantomData;
thread_local! { static LOG: RefCell<Vec<&'static str>> = RefCell::new(Vec::new()); }
pub fn log(s: &'static str) { LOG.with(|l| l.borrow_mut().push(s)); }
pub fn take_log() -> String { LOG.with(|l| l.borrow_mut().drain(..).collect::<Vec<_>>().join(",")) }
pub fn ad<T>(p: &T) -> usize { p as *const T as usize }
pub fn hit(p: usize, cands: &[usize]) -> String {
    let v: Vec<String> = cands.iter().enumerate().filter(|(_, c)| **c == p).map(|(i, _)| i.to_string()).collect();
    if v.len() == 1 { v[0].clone() } else { format!("?{}", v.join("/")) }
}
pub trait NoImpl { const B: bool = false; }
impl<T: ?Sized> NoImpl for T {}
pub struct Wrap<T, U>(PhantomData<(T, U)>);
impl<T: From<U>, U> Wrap<T, U> { pub const B: bool = true; }
macro_rules! impls_from { ($t:ty, $u:ty) => { <Wrap<$t, $u>>::B } }
pub mod types { pub use super::*; }
pub mod forward { pub use super::*; }
pub mod skip { pub use super::*; }
pub mod ignore { pub use super::*; }
pub mod owned { pub use super::*; }
pub mod ref_mut { pub use super::*; }
pub mod r#ref { pub use super::*; }
pub mod m { pub use super::*; }
pub trait Label {}
#[derive(Debug, PartialEq, Clone)] pub struct L0;
#[derive(Debug, PartialEq, Clone)] pub struct L1;
impl Label for L0 {}
impl Label for L1 {}
#[derive(Debug, PartialEq, Clone)] pub struct Tag<X: Label> { pub v: u32, pub m: PhantomData<X> }
impl<X: Label> Tag<X> { pub fn mk(v: u32) -> Self { Tag { v, m: PhantomData } } }
macro_rules! fam { ($F:ident $Pa:ident $Pb:ident $Qa:ident $Qb:ident $Ra:ident $Rb:ident) => {
    #[derive(Debug, PartialEq, Clone)] pub struct $Ra(pub u32);
    #[derive(Debug, PartialEq, Clone)] pub struct $Rb(pub u32);
    #[derive(Debug, PartialEq, Clone)] pub struct $F { pub v: u32, pub ra: $Ra, pub rb: $Rb }
    impl $F { pub fn mk(v: u32) -> Self { $F { v, ra: $Ra(v + 5000), rb: $Rb(v + 6000) } } }
    #[derive(Debug, PartialEq, Clone)] pub struct $Pa(pub u32);
    #[derive(Debug, PartialEq, Clone)] pub struct $Pb(pub u32);
    #[derive(Debug, PartialEq, Clone)] pub struct $Qa(pub u32);
    #[derive(Debug, PartialEq, Clone)] pub struct $Qb(pub u32);
    impl From<$Pa> for $F { fn from(p: $Pa) -> Self { log(concat!(stringify!($Pa), ">", stringify!($F))); $F::mk(p.0 + 1000) } }
    impl From<$Pb> for $F { fn from(p: $Pb) -> Self { log(concat!(stringify!($Pb), ">", stringify!($F))); $F::mk(p.0 + 2000) } }
    impl From<$F> for $Qa { fn from(f: $F) -> Self { log(concat!(stringify!($F), ">", stringify!($Qa))); $Qa(f.v + 3000) } }
    impl From<$F> for $Qb { fn from(f: $F) -> Self { log(concat!(stringify!($F), ">", stringify!($Qb))); $Qb(f.v + 4000) } }
    impl<'a> From<&'a $F> for &'a $Ra { fn from(f: &'a $F) -> Self { log(concat!("&", stringify!($F), ">&", stringify!($Ra))); &f.ra } }
    impl<'a> From<&'a $F> for &'a $Rb { fn from(f: &'a $F) -> Self { log(concat!("&", stringify!($F), ">&", stringify!($Rb))); &f.rb } }
    impl<'a> From<&'a mut $F> for &'a mut $Ra { fn from(f: &'a mut $F) -> Self { log(concat!("&", stringify!($F), ">&", stringify!($Ra))); &mut f.ra } }
    impl<'a> From<&'a mut $F> for &'a mut $Rb { fn from(f: &'a mut $F) -> Self { log(concat!("&", stringify!($F), ">&", stringify!($Rb))); &mut f.rb } }
} }
"""
for _i in range(NF):
    PRELUDE += "fam!(F%d Pa%d Pb%d Qa%d Qb%d Ra%d Rb%d);\n" % ((_i,) * 7)


def mk_val(t, base):
    """Rust expression of type t carrying the value base (+position for tuples)"""
    if isinstance(t, tuple):
        if len(t) == 1:
            return "(%s,)" % mk_val(t[0], base)
        return "(%s)" % ", ".join(mk_val(x, base + j) for j, x in enumerate(t))
    if t.startswith("F"):
        return "%s::mk(%d)" % (t, base)
    if t.startswith("Tag<"):
        return "<%s>::mk(%d)" % (t, base)
    return "%s(%d)" % (t, base)


def getter(t):
    return ".v" if t.startswith("F") or t.startswith("Tag<") else ".0"


def show_expr(expr, t):
    """Rust expression (a String) showing the value `expr` of type t: leaves joined by `+`, `unit` for `()`"""
    if isinstance(t, tuple):
        if not t:
            return '"unit".to_string()'
        return "[%s].join(\"+\")" % ", ".join(show_expr("%s.%d" % (expr, i), x) for i, x in enumerate(t))
    return "%s%s.to_string()" % (expr, getter(t))


def show_val(t, v):
    """what show_expr prints for the value mk_val(t, v) (v already includes conversion offsets for atoms)"""
    if not isinstance(v, int):
        return str(v)
    if isinstance(t, tuple):
        return "+".join(show_val(x, v + j) for j, x in enumerate(t)) if t else "unit"
    return str(v)


def is_zst(t):
    """a zero-sized component (`()`, tuples of such): it has no address of its own - two of them, or one and its
    neighbour, may share one - so a reference to it cannot be located by address; only its type is checked"""
    return isinstance(t, tuple) and all(is_zst(x) for x in t)


def wild_zst(kind, tys, vals):
    """for reference kinds, the position of a zero-sized component is a wildcard"""
    if kind == "owned" or vals is None:
        return vals
    return ["zst" if is_zst(t) else v for t, v in zip(tys, vals)]


def show_vals(tys, vals):
    return ",".join(show_val(t, v) for t, v in zip(tys, vals))


def into_target_src(kind, comps, static=True):
    """Rust source of the target of an Into impl: one component per converted field, each behind the reference kind"""
    pre = "" if kind == "owned" else "&%s%s" % ("'static " if static else "", "mut " if kind == "ref_mut" else "")
    parts = [pre + rust_ty(c) for c in comps]
    return parts[0] if len(parts) == 1 else "(%s)" % ", ".join(parts)


def from_convertible(x, f):
    """is `f: From<x>` implemented in the universe (for a field type f)"""
    return x == f or ("owned", x, f) in MARK


def unify_src(pattern, x, ftys):
    """does the impl whose source type is `pattern` (ints = the forward parameter of that field) apply to X"""
    if isinstance(pattern, int):
        return from_convertible(x, ftys[pattern])
    if isinstance(pattern, str):
        return pattern == x
    return isinstance(x, tuple) and len(x) == len(pattern) and all(unify_src(p, y, ftys) for p, y in zip(pattern, x))


def may_overlap(p, fp, q, fq):
    """conservative coherence test between two impl source patterns"""
    if isinstance(p, int) and isinstance(q, int):
        return True
    if isinstance(p, int):
        # `Tuple: From<T>` can never be ruled out by rustc's coherence check (foreign trait, foreign type)
        return isinstance(fp[p], tuple) or from_convertible(q, fp[p])
    if isinstance(q, int):
        return may_overlap(q, fq, p, fp)
    if isinstance(p, str) or isinstance(q, str):
        return p == q
    return len(p) == len(q) and all(may_overlap(a, fp, b, fq) for a, b in zip(p, q))


def eval_value(v, ginst, log):
    """value term of the model (free From calls) -> what the run-time crate prints for it"""
    if v[0] == "leaf":
        return v[1]
    if v[0] == "addr":
        return str(v[2])
    if v[0] == "tuple":
        return [eval_value(x, ginst, log) for x in v[1]]
    _, kind, a, b, inner = v
    a = ginst.get(a, a) if isinstance(a, int) else a
    x = eval_value(inner, ginst, log)
    if a == b:
        return x
    mk = MARK.get((kind, a, b))
    if mk is None:
        return "noconv(%s>%s)" % (a, b)
    if kind == "owned":
        log.append("%s>%s" % (a, b))
        return x + mk
    log.append("&%s>&%s" % (a, b))
    return "%s.%s" % (x, mk)


# ------------------------------------------------------------------ generators

def pick_fields(rng, n, rt):
    if rng.random() < 0.12 and n > 0:
        f = "F%d" % rng.randrange(NF)
        return [f] * n            # same type everywhere: a permutation is then visible only in the values
    pool = ["F%d" % i for i in range(NF)]
    if rng.random() < 0.2:
        # fields whose type is itself a tuple: `()`, a 1-tuple, pairs, nested
        a, b, c = rng.sample(pool, 3)
        pool += rng.sample([(), (a,), (a, b), (b, a, c), ((a, b), c), (a, (c,)), ((),), (b, ())], rng.choice([1, 2, 3]))
    if not rt and rng.random() < 0.35:
        pool += ["T", "U", "i32", "u8", "String", "Vec<T>", "&'static str", "Option<U>", "[u8; 4]", ("i32", "u8")]
    rng.shuffle(pool)
    while len(pool) < n:
        pool.append(rng.choice(pool))          # more fields than types: some repeat
    return pool[:n]


N_WEIGHTS = [0, 1, 1, 1, 2, 2, 2, 2, 3, 3, 3, 4, 4, 5, 6, 2, 3, 9, 12]     # 12: `value.10`, `value.11`


def sole_tuple_field(rng):
    """the type of a field that is the only one taking part in a conversion and is itself a tuple"""
    a, b, c = rng.sample(["F%d" % i for i in range(NF)], 3)
    return rng.choice([(), (a,), (a, b), (a, b), (a, b, c), ((a, b), c), ((a,),), (a, ())])


def spell_path(rng, t, into):
    """sometimes reach a universe type through a module path whose first segment is an attribute word"""
    if isinstance(t, str) and t[:1] in "FPQR" and "::" not in t and rng.random() < 0.28:
        return "%s::%s" % (rng.choice(INTO_SAFE_PREFIXES if into else PATH_PREFIXES), t)
    return t


def style_for(rng, n):
    if n == 0:
        return rng.choice(["unit", "tuple", "named"])
    return rng.choice(["tuple", "named"])


def listed_from(rng, ftys, rt):
    """a type for `#[from(..)]` matching the fields"""
    def comp(f):
        if isinstance(f, str) and f.startswith("F") and f[1:].isdigit():
            return rng.choice(["Pa" + f[1:], "Pb" + f[1:], f])
        return f if rt or rng.random() < 0.7 else rng.choice(["i32", "String", "X"])
    cs = [spell_path(rng, comp(f), False) for f in ftys]
    if len(cs) == 1:
        if rng.random() < 0.04 and not isinstance(cs[0], tuple):
            return (cs[0],)            # a one-element tuple type listed for a single field
        return cs[0]
    return tuple(cs)


def bad_listed(rng, ftys):
    """types the arity validation has to deal with (in-process stream only)"""
    n = len(ftys)
    r = rng.random()
    if r < 0.25:
        return tuple(["X"] * rng.choice([0, 1, max(0, n - 1), n + 1, n + 1, n + 2]))
    if r < 0.33 and n >= 1:
        good = listed_from(rng, ftys, False)
        good = good if isinstance(good, tuple) and n != 1 else (good,)
        return good + (rng.choice(["X", good[-1]]),)          # a well-formed listed type with one component too many
    if r < 0.45:
        return "X"
    if r < 0.6:
        return ()
    if r < 0.75:
        return ("X",)
    return tuple(listed_from(rng, ftys, False) if n != 1 else ["X", "i32"])


def gen_from_attrs(rng, ftys, rt, variant):
    """attribute list for a struct (variant=False) or an enum variant"""
    r = rng.random()
    if not rt and rng.random() < 0.12:
        # malformed / merging / arity streams
        pool = [None, ["skip"], ["ignore"], ["forward"], [listed_from(rng, ftys, False)], [bad_listed(rng, ftys)],
                [listed_from(rng, ftys, False), bad_listed(rng, ftys)], [], ["skip", "X"], ["forward", "X"],
                ["types"], ["types", "X"], ["X", "types"], [listed_from(rng, ftys, False), "types"]]
        return [rng.choice(pool) for _ in range(rng.choice([1, 1, 2, 2, 3]))]
    if rt and len(ftys) == 1 and isinstance(ftys[0], tuple) and rng.random() < 0.5:
        return rng.choice([[], [], [["forward"]]] + ([[None], [["skip"]]] if variant else []))
    if variant:
        if r < 0.38:
            return []
        if r < 0.52:
            return [None]
        if r < 0.66:
            return [[rng.choice(["skip", "ignore"])]]
        if r < 0.76:
            return [["forward"]]
    else:
        if r < 0.35:
            return []
        if r < 0.5:
            return [["forward"]]
    tys = []
    for _ in range(rng.choice([1, 1, 2, 3])):
        t = listed_from(rng, ftys, rt)
        if t not in tys:
            tys.append(t)
    if len(tys) > 1 and rng.random() < 0.4:
        return [tys[:1], tys[1:]]          # repeated attributes are merged
    return [tys]


def gen_raw(rng):
    """braced structs/variants whose field names are raw identifiers (`r#f0`)"""
    return rng.random() < 0.12


def gen_spell(rng):
    """half of the cases write their tuple types plainly, the others with trailing commas / line breaks"""
    return 0 if rng.random() < 0.45 else rng.randrange(1, 1 << 30)


def gen_from(rng, rt):
    gen = choose_gen(rng, rt)
    if rng.random() < 0.45:
        n = rng.choice(N_WEIGHTS)
        ftys = pick_fields(rng, n, rt)
        if rng.random() < 0.1:
            n, ftys = 1, [sole_tuple_field(rng)]
        ftys = with_tags(rng, gen, ftys)
        n = len(ftys)
        return {"derive": "From", "kind": "struct", "gen": gen, "style": style_for(rng, n),
                "attrs": gen_from_attrs(rng, ftys, rt, False), "fields": ftys, "rt": rt, "spell": gen_spell(rng),
                "raw": gen_raw(rng)}
    vs = []
    nv = rng.choice([1, 2, 2, 3, 3, 4, 5])
    tagged = rng.randrange(nv)
    for vi in range(nv):
        n = rng.choice([0, 0, 1, 1, 1, 2, 2, 3, 4])
        ftys = pick_fields(rng, n, rt)
        if rng.random() < 0.06:
            n, ftys = 1, [sole_tuple_field(rng)]
        if vi == tagged:
            ftys = with_tags(rng, gen, ftys)
            n = len(ftys)
        vs.append({"style": style_for(rng, n), "attrs": gen_from_attrs(rng, ftys, rt, True), "fields": ftys})
    return {"derive": "From", "kind": "enum", "gen": gen, "variants": vs, "rt": rt, "spell": gen_spell(rng),
            "raw": gen_raw(rng)}


def listed_into(rng, src, kind, rt):
    def comp(f):
        if isinstance(f, str) and f.startswith("F") and f[1:].isdigit():
            alts = ["Qa", "Qb"] if kind == "owned" else ["Ra", "Rb"]
            return rng.choice([alts[0] + f[1:], alts[1] + f[1:], f])
        return f
    cs = [spell_path(rng, comp(f), True) for f in src]
    if len(cs) == 1:
        if rng.random() < (0.06 if rt else 0.1) and not isinstance(cs[0], tuple):
            return (cs[0],)            # a one-element tuple type `(T,)` listed for a single field
        return cs[0]
    return tuple(cs)


def gen_conv_attrs(rng, src, rt, allow_empty_list):
    """attributes describing conversions of the fields `src` (types)"""
    n_attr = rng.choice([1, 1, 1, 2])
    attrs = []
    # run-time stream: no listed type when nothing is converted
    no_listed = rt and len(src) == 0
    for _ in range(n_attr):
        r = rng.random()
        if r < 0.2:
            attrs.append(None)
            continue
        if r < 0.4 and not no_listed:
            attrs.append([["t", listed_into(rng, src, "owned", rt)] for _ in range(rng.choice([1, 1, 2]))])
            continue
        items = []
        for k in rng.sample(KINDS, rng.choice([1, 2, 2, 3])):
            if rng.random() < 0.55 or no_listed:
                items.append(["k", k, None])
            else:
                items.append(["k", k, [listed_into(rng, src, k, rt) for _ in range(rng.choice([1, 1, 2]))]])
            if rng.random() < 0.15:
                items.append(["k", k, None])
        if rng.random() < 0.35:
            # the same wrapper more than once in this one attribute (types accumulate, bare forms too), interleaved
            for _ in range(rng.choice([1, 1, 2])):
                k = rng.choice([it[1] for it in items])
                extra = ["k", k, None] if rng.random() < 0.25 or no_listed else \
                    ["k", k, [listed_into(rng, src, k, rt) for _ in range(rng.choice([1, 1, 2]))]]
                items.insert(rng.randrange(len(items) + 1), extra)
        if not rt and rng.random() < 0.1:
            items.insert(rng.randrange(len(items) + 1), ["t", "X"])        # mixing: rejected
        if not rt and allow_empty_list and rng.random() < 0.05:
            items = []
        attrs.append(items)
    if rt and allow_empty_list and None in attrs and len(attrs) > 1:
        # struct level: a bare `#[into]` cannot be combined with another `#[into..]` (refused, not a documented form)
        attrs = [a for a in attrs if a is not None] or [None]
    return attrs


def gen_into(rng, rt):
    gen = choose_gen(rng, rt)
    n = rng.choice(N_WEIGHTS)
    ftys = pick_fields(rng, n, rt)
    sole = None
    if rng.random() < 0.1 and gen not in GEN_TAGS:
        # exactly one field takes part and its type is a tuple; the others (if any) are skipped
        n = rng.choice([1, 1, 2, 3])
        sole = rng.randrange(n)
        ftys = pick_fields(rng, n, rt)
        ftys[sole] = sole_tuple_field(rng)
    ftys = with_tags(rng, gen, ftys)
    n = len(ftys)
    fields = []
    for idx, t in enumerate(ftys):
        attrs = []
        r = rng.random()
        if sole is not None:
            r = 1.0 if idx == sole else 0.0
        if r < 0.22:
            attrs.append([["t", rng.choice(["skip", "ignore"])]])
        if rng.random() < 0.14:
            attrs += gen_conv_attrs(rng, [t], rt, False)
            rng.shuffle(attrs)
        if not rt and rng.random() < 0.03:
            attrs.append([["t", "skip"]])
        fields.append([t, attrs])
    src = [f[0] for f in fields
           if not any(a is not None and len(a) == 1 and a[0][0] == "t" and a[0][1] in ("skip", "ignore") for a in f[1])]
    sattrs = [] if rng.random() < 0.3 else gen_conv_attrs(rng, src, rt, True)
    if not rt and rng.random() < 0.06:
        k = rng.choice(KINDS)
        bad = tuple(src) + (src[-1] if src else "X",) if rng.random() < 0.6 else tuple(src[:-1])
        sattrs.append([["k", k, [bad]]] if rng.random() < 0.7 else [["t", bad]])        # wrong arity
    if not rt and rng.random() < 0.03:
        sattrs.append([["t", ()]])        # `()`: fine for no field, a diagnostic for one (04051df), wrong arity otherwise
    return {"derive": "Into", "gen": gen, "style": style_for(rng, n), "sattrs": sattrs, "fields": fields, "rt": rt,
            "spell": gen_spell(rng), "raw": gen_raw(rng)}


def gen_ctor(rng, rt):
    gen = choose_gen(rng, rt)
    n = rng.choice(N_WEIGHTS)
    if gen in GEN_TAGS:
        ftys = with_tags(rng, gen, pick_fields(rng, n, rt))
        return {"derive": "Constructor", "gen": gen, "style": style_for(rng, len(ftys)), "fields": ftys, "rt": rt,
                "spell": gen_spell(rng), "raw": gen_raw(rng)}
    if rng.random() < 0.1:
        return {"derive": "Constructor", "gen": gen, "style": style_for(rng, 1), "fields": [sole_tuple_field(rng)], "rt": rt,
                "spell": gen_spell(rng), "raw": gen_raw(rng)}
    return {"derive": "Constructor", "gen": gen, "style": style_for(rng, n), "fields": pick_fields(rng, n, rt), "rt": rt,
            "spell": gen_spell(rng), "raw": gen_raw(rng)}


CORPUS = [
    {"derive": "From", "kind": "struct", "gen": 0, "style": "tuple", "attrs": [], "fields": ["F0", "F1"], "rt": True},
    {"derive": "From", "kind": "struct", "gen": 0, "style": "named", "attrs": [[("Pa2", "Pb3"), ("F2", "Pa3")]],
     "fields": ["F2", "F3"], "rt": True},
    {"derive": "From", "kind": "struct", "gen": 0, "style": "tuple", "attrs": [["forward"]],
     "fields": ["F4", "F5", "F6"], "rt": True},
    {"derive": "From", "kind": "struct", "gen": 0, "style": "unit", "attrs": [], "fields": [], "rt": True},
    {"derive": "From", "kind": "struct", "gen": 0, "style": "tuple", "attrs": [[("X",)]], "fields": ["F0", "F1"], "rt": False},
    {"derive": "From", "kind": "struct", "gen": 0, "style": "tuple", "attrs": [[("X",)]], "fields": ["F0"], "rt": False},
    {"derive": "From", "kind": "struct", "gen": 0, "style": "tuple", "attrs": [[()]], "fields": ["F0"], "rt": False},
    {"derive": "From", "kind": "struct", "gen": 0, "style": "tuple", "attrs": [None], "fields": ["F0"], "rt": False},
    {"derive": "From", "kind": "struct", "gen": 1, "style": "named", "attrs": [["forward"]], "fields": ["T", "F1"], "rt": False},
    {"derive": "From", "kind": "enum", "gen": 0, "rt": True, "variants": [
        {"style": "tuple", "attrs": [], "fields": ["F0", "F1"]},
        {"style": "tuple", "attrs": [[ "skip"]], "fields": ["F2"]},
        {"style": "unit", "attrs": [], "fields": []},
        {"style": "named", "attrs": [], "fields": ["F3"]}]},
    {"derive": "From", "kind": "enum", "gen": 0, "rt": True, "variants": [
        {"style": "tuple", "attrs": [None], "fields": ["F0", "F1"]},
        {"style": "tuple", "attrs": [], "fields": ["F2"]},
        {"style": "unit", "attrs": [None], "fields": []},
        {"style": "named", "attrs": [["forward"]], "fields": ["F3"]},
        {"style": "named", "attrs": [[("Pa4", "Pb5")], [("Pb4", "F5")]], "fields": ["F4", "F5"]}]},
    {"derive": "Into", "gen": 0, "style": "tuple", "sattrs": [], "fields": [["F0", []], ["F1", []]], "rt": True},
    {"derive": "Into", "gen": 0, "style": "named", "rt": True,
     "sattrs": [[["k", "owned", None], ["k", "ref", [("Ra0", "F1")]], ["k", "ref_mut", None]]],
     "fields": [["F0", [[["k", "owned", ["Qa0"]], ["k", "ref", None]]]], ["F1", []], ["F2", [[["t", "skip"]]]]]},
    {"derive": "Into", "gen": 0, "style": "tuple", "rt": True, "sattrs": [[["k", "ref", None], ["k", "ref_mut", None]]],
     "fields": [["F3", [[["t", "ignore"]]]], ["F1", []], ["F2", [[["t", "skip"]]]], ["F0", []]]},
    {"derive": "Into", "gen": 0, "style": "tuple", "rt": True, "sattrs": [[["t", ("Qa0",)]]], "fields": [["F0", []]]},
    {"derive": "Into", "gen": 0, "style": "tuple", "rt": False, "sattrs": [None, None], "fields": [["F0", []]]},
    {"derive": "Into", "gen": 0, "style": "tuple", "rt": False, "sattrs": [[]], "fields": [["F0", []]]},
    {"derive": "Into", "gen": 0, "style": "tuple", "rt": False, "sattrs": [[["t", ()]]], "fields": [["F0", []]]},
    {"derive": "Into", "gen": 0, "style": "unit", "rt": True, "sattrs": [[["t", ()]]], "fields": []},
    {"derive": "Into", "gen": 0, "style": "named", "rt": True, "sattrs": [],
     "fields": [["F0", []], ["F1", [None]]]},
    # tuple types written with a trailing comma / over several lines are the same types
    {"derive": "From", "kind": "struct", "gen": 0, "style": "tuple", "attrs": [[("Pa0", "Pb1")]], "fields": ["F0", "F1"],
     "rt": True, "spell": "trail"},
    {"derive": "From", "kind": "struct", "gen": 0, "style": "named", "attrs": [[("Pa0", "Pb1", "F2"), ("F0", "F1", "Pa2")]],
     "fields": ["F0", "F1", "F2"], "rt": True, "spell": "ml"},
    {"derive": "From", "kind": "enum", "gen": 0, "rt": True, "spell": "trail", "variants": [
        {"style": "tuple", "attrs": [[("Pa0", "Pa1"), ("Pb0", "F1")]], "fields": ["F0", "F1"]},
        {"style": "named", "attrs": [[("Pa2", "Pa3", "Pa4")]], "fields": ["F2", "F3", "F4"]},
        {"style": "tuple", "attrs": [], "fields": ["F5"]}]},
    {"derive": "From", "kind": "struct", "gen": 0, "style": "tuple", "attrs": [[("X", "X", "X")]], "fields": ["F0", "F1"],
     "rt": False, "spell": "trail"},
    {"derive": "From", "kind": "struct", "gen": 0, "style": "tuple", "attrs": [[(("i32", "u8"), "Pa1")]],
     "fields": [("i32", "u8"), "F1"], "rt": False, "spell": "trail"},
    {"derive": "Into", "gen": 0, "style": "tuple", "rt": True, "spell": "trail", "sattrs": [[["t", ("Qa0", "Qb1")]]],
     "fields": [["F0", []], ["F1", []]]},
    {"derive": "Into", "gen": 0, "style": "named", "rt": True, "spell": "ml", "sattrs": [[["t", ("Qa0", "F1")], ["t", ("Qb0", "Qb1")]]],
     "fields": [["F0", []], ["F1", []]]},
    {"derive": "Into", "gen": 0, "style": "named", "rt": True, "spell": "trail",
     "sattrs": [[["k", "ref", [("Ra0", "F1")]], ["k", "ref_mut", None], ["k", "owned", [("Qa0", "Qb1")]]]],
     "fields": [["F0", []], ["F1", []], ["F2", [[["t", "skip"]]]]]},
    {"derive": "Into", "gen": 0, "style": "tuple", "rt": True, "spell": "ml",
     "sattrs": [[["k", "ref_mut", [("Rb0", "Ra1", "F2")]]]], "fields": [["F0", []], ["F1", []], ["F2", []]]},
    {"derive": "Into", "gen": 0, "style": "tuple", "rt": False, "spell": "trail",
     "sattrs": [[["k", "owned", [("F0", "F1", "F1")]]]], "fields": [["F0", []], ["F1", []]]},
    # a tuple-typed field that is the only one taking part is ONE component (never split, never re-wrapped)
    {"derive": "Into", "gen": 0, "style": "tuple", "rt": True,
     "sattrs": [[["k", "owned", None], ["k", "ref", None], ["k", "ref_mut", None]]], "fields": [[("F0", "F1"), []]]},
    {"derive": "Into", "gen": 0, "style": "named", "rt": True, "sattrs": [],
     "fields": [["F2", [[["t", "skip"]]]], [("F0", "F1"), []]]},
    {"derive": "Into", "gen": 0, "style": "tuple", "rt": True, "sattrs": [[["k", "owned", None], ["k", "ref", None]]],
     "fields": [[(), []]]},
    {"derive": "Into", "gen": 0, "style": "tuple", "rt": True, "sattrs": [[["k", "ref_mut", None], ["k", "owned", None]]],
     "fields": [[("F0",), []], ["F1", [[["t", "ignore"]]]]]},
    {"derive": "Into", "gen": 0, "style": "tuple", "rt": True, "sattrs": [],
     "fields": [[(("F0", "F1"), "F2"), [[["k", "ref", None], ["k", "owned", None]]]], ["F3", []]]},
    {"derive": "From", "kind": "struct", "gen": 0, "style": "tuple", "attrs": [], "fields": [("F0", "F1")], "rt": True},
    {"derive": "From", "kind": "struct", "gen": 0, "style": "named", "attrs": [["forward"]], "fields": [("F0",)], "rt": True},
    {"derive": "From", "kind": "enum", "gen": 0, "rt": True, "variants": [
        {"style": "tuple", "attrs": [], "fields": [("F0", "F1", "F2")]},
        {"style": "tuple", "attrs": [], "fields": [()]},
        {"style": "named", "attrs": [], "fields": [(("F3",),)]},
        {"style": "tuple", "attrs": [], "fields": ["F4", ("F5", "F6")]}]},
    {"derive": "Constructor", "gen": 0, "style": "tuple", "fields": [("F0", "F1")], "rt": True},
    {"derive": "Constructor", "gen": 0, "style": "named", "fields": [()], "rt": True},
    {"derive": "Constructor", "gen": 0, "style": "tuple", "fields": [("F2",)], "rt": True},
    # listed types reached through a path whose first segment is an attribute word / the legacy `types`
    {"derive": "From", "kind": "struct", "gen": 0, "style": "tuple", "attrs": [["types::Pa0", "Pb0"]], "fields": ["F0"], "rt": True},
    {"derive": "From", "kind": "struct", "gen": 0, "style": "tuple", "attrs": [["Pb0", "types::Pa0"]], "fields": ["F0"], "rt": True},
    {"derive": "From", "kind": "struct", "gen": 0, "style": "named",
     "attrs": [[("types::Pa0", "forward::Pb1"), ("skip::Pb0", "m::types::Pa1")]], "fields": ["F0", "F1"], "rt": True},
    {"derive": "From", "kind": "enum", "gen": 0, "rt": True, "variants": [
        {"style": "tuple", "attrs": [["types::Pa1", "ignore::Pb1"]], "fields": ["F1"]},
        {"style": "tuple", "attrs": [["owned::Pa2"], ["r#ref::Pb2"]], "fields": ["F2"]},
        {"style": "named", "attrs": [[("self::Pa3", "crate::m::F4")]], "fields": ["F3", "F4"]}]},
    {"derive": "From", "kind": "struct", "gen": 0, "style": "tuple",
     "attrs": [["::std::string::String", "self::Pa0", "crate::m::Pb0"]], "fields": ["F0"], "rt": False},
    {"derive": "Into", "gen": 0, "style": "tuple", "rt": True, "sattrs": [[["t", "types::Qa0"], ["t", "skip::Qb0"]]],
     "fields": [["F0", []]]},
    {"derive": "Into", "gen": 0, "style": "named", "rt": True,
     "sattrs": [[["k", "ref", [("types::Ra0", "ignore::F1")]], ["k", "owned", [("forward::Qa0", "crate::Qb1")]]]],
     "fields": [["F0", [[["t", "ignore::Qa0"]]]], ["F1", [[["k", "ref_mut", ["r#ref::Rb1"]]]]]]},
    # generic items whose own bounds (inline / where clause) are needed by a field type: every impl must carry them
    {"derive": "From", "kind": "struct", "gen": 5, "style": "named", "attrs": [["forward"]],
     "fields": ["F0", "F1", "Tag<T>"], "rt": True},
    {"derive": "From", "kind": "struct", "gen": 5, "style": "tuple", "attrs": [], "fields": ["Tag<T>", "F1"], "rt": True},
    {"derive": "From", "kind": "struct", "gen": 6, "style": "tuple", "attrs": [[("Pa0", "Tag<T>", "Tag<U>")]],
     "fields": ["F0", "Tag<T>", "Tag<U>"], "rt": True},
    {"derive": "From", "kind": "enum", "gen": 5, "rt": True, "variants": [
        {"style": "tuple", "attrs": [["forward"]], "fields": ["F0", "Tag<T>"]},
        {"style": "named", "attrs": [None], "fields": ["F1"]},
        {"style": "tuple", "attrs": [[("Pa2", "Pb3", "F4")]], "fields": ["F2", "F3", "F4"]}]},
    {"derive": "From", "kind": "enum", "gen": 4, "rt": True, "variants": [
        {"style": "tuple", "attrs": [], "fields": ["Tag<T>"]}, {"style": "unit", "attrs": [], "fields": []}]},
    {"derive": "Into", "gen": 5, "style": "named", "rt": True,
     "sattrs": [[["k", "owned", None], ["k", "ref", None], ["k", "ref_mut", None]]],
     "fields": [["F0", []], ["Tag<T>", []], ["F2", [[["t", "skip"]]]]]},
    {"derive": "Into", "gen": 6, "style": "tuple", "rt": True, "sattrs": [[["k", "ref", [("Ra0", "Tag<T>", "Tag<U>")]]]],
     "fields": [["F0", [[["k", "owned", None]]]], ["Tag<T>", []], ["Tag<U>", []]]},
    {"derive": "Constructor", "gen": 5, "style": "named", "fields": ["F0", "Tag<T>"], "rt": True},
    {"derive": "Constructor", "gen": 6, "style": "tuple", "fields": ["Tag<U>", "F3", "Tag<T>"], "rt": True},
    # the same wrapper several times in ONE attribute: every occurrence counts
    {"derive": "Into", "gen": 0, "style": "tuple", "rt": True,
     "sattrs": [[["k", "owned", ["Qa0"]], ["k", "ref", ["F0"]], ["k", "ref_mut", ["F0"]], ["k", "owned", ["Qb0"]]]],
     "fields": [["F0", []]]},
    {"derive": "Into", "gen": 0, "style": "named", "rt": True,
     "sattrs": [[["k", "ref", [("Ra0", "F1")]], ["k", "owned", None], ["k", "ref", [("F0", "Rb1")]], ["k", "ref", None],
                 ["k", "ref_mut", [("Rb0", "Rb1")]], ["k", "ref_mut", [("F0", "Ra1"), ("Ra0", "Ra1")]]]],
     "fields": [["F0", []], ["F1", []]]},
    {"derive": "Into", "gen": 0, "style": "tuple", "rt": True, "sattrs": [],
     "fields": [["F0", [[["k", "ref", ["F0"]], ["k", "ref_mut", ["Ra0"]], ["k", "ref", ["Rb0"]], ["k", "owned", ["Qa0"]],
                         ["k", "owned", ["Qb0"]]]]], ["F1", []]]},
    {"derive": "Into", "gen": 0, "style": "tuple", "rt": True, "spell": "trail",
     "sattrs": [[["k", "owned", [("Qa0", "Qa1")]], ["k", "owned", [("Qb0", "Qb1"), ("F0", "Qa1")]]],
                [["k", "owned", [("Qa0", "F1")]]]],
     "fields": [["F0", []], ["F1", []]]},
    {"derive": "Constructor", "gen": 0, "style": "tuple", "fields": ["F0", "F1", "F2"], "rt": True},
    {"derive": "Constructor", "gen": 0, "style": "named", "fields": ["F3", "F1"], "rt": True},
    {"derive": "Constructor", "gen": 2, "style": "named", "fields": ["T", "U"], "rt": False},
]


# inputs outside the item language (token-level shapes), pinned by their outcome only
RAW_REGRESSIONS = [
    ("Into", "#[into(i32 i64)] struct S(i32);", "err", "into-missing-comma"),          # 04051df: was a panic
    ("From", "#[from(())] struct A(i32);", "err", "from-unit-tuple-single-field"),       # 04051df: was a panic
    ("Into", "#[into(())] struct A(i32);", "err", "into-unit-tuple-single-field"),
    ("Into", "#[into(())] struct A;", "ok", "into-unit-tuple-no-field"),
]


def nontrivial(case):
    d = case["derive"]
    if d == "From" and case["kind"] == "enum":
        return any(len(v["fields"]) >= 2 or v["attrs"] for v in case["variants"])
    if d == "From":
        return len(case["fields"]) >= 2 or bool(case["attrs"])
    if d == "Into":
        return len(case["fields"]) >= 2 or bool(case["sattrs"]) or any(f[1] for f in case["fields"])
    return len(case["fields"]) >= 2


def bucket(case):
    d = case["derive"]
    if d == "From":
        if case["kind"] == "enum":
            return "From/enum/%dv" % min(len(case["variants"]), 4)
        a = case["attrs"]
        k = "none" if not a else ("forward" if a == [["forward"]] else "types")
        return "From/struct/%s/%df" % (k, min(len(case["fields"]), 4))
    if d == "Into":
        return "Into/%s/%s/%df" % ("sattr" if case["sattrs"] else "default",
                                   "fattr" if any(f[1] for f in case["fields"]) else "plain",
                                   min(len(case["fields"]), 4))
    return "Constructor/%s/%df" % (case["style"], min(len(case["fields"]), 4))


# ------------------------------------------------------------------ run-time crate modules

def has_one_tuple(case):
    def walk(attrs):
        for a in attrs:
            for it in (a or []):
                tys = [it[1]] if it[0] == "t" else (it[2] or [])
                for t in tys:
                    if isinstance(t, tuple) and len(t) == 1:
                        return True
        return False
    return walk(case["sattrs"]) or any(walk(f[1]) for f in case["fields"])


def observe_fields_expr(style, ftys, var, raw=False):
    """Rust expression producing "v0,v1" from the fields of `var`"""
    if not ftys:
        return "String::new()"
    parts = [show_expr("%s.%s" % (var, field_ident(style, i, raw)), t) for i, t in enumerate(ftys)]
    return "[%s].join(\",\")" % ", ".join(parts)


def fmt_vals(vals):
    return ",".join(str(v) for v in vals)


def rt_from(case, cid, impls, rng, mode=None, orig=None):
    """module source + expected observations for one From case (`case`/`impls` with normalised types, `orig` as written)"""
    is_enum = case["kind"] == "enum"
    name = "E" if is_enum else "S"
    lines = ["#[derive(derive_more::From)] " + item_src(orig or case, name)]
    body = []
    obs = []
    oracle = oracle_from(case)

    def shape(variant):
        if variant is None:
            return case["style"], case["fields"]
        v = case["variants"][variant]
        return v["style"], v["fields"]

    def observe(expr_var):
        if not is_enum:
            return 'format!("S:{}", %s)' % observe_fields_expr(case["style"], case["fields"], expr_var, case.get("raw"))
        arms = []
        for k, v in enumerate(case["variants"]):
            n = len(v["fields"])
            if v["style"] == "unit":
                pat, vals = "E::V%d" % k, "String::new()"
            else:
                binds = ["x%d" % i for i in range(n)]
                if v["style"] == "named":
                    pat = "E::V%d { %s }" % (k, ", ".join("%s: x%d" % (fname(case.get("raw"), i), i) for i in range(n)))
                else:
                    pat = "E::V%d(%s)" % (k, ", ".join(binds))
                vals = "[%s].join(\",\")" % ", ".join(show_expr("x%d" % i, t) for i, t in enumerate(v["fields"])) \
                    if n else "String::new()"
            arms.append('%s => format!("V%d:{}", %s)' % (pat, k, vals))
        return "match %s { %s }" % (expr_var, ", ".join(arms))

    srcs_concrete = []
    for j, d in enumerate(impls):
        style, ftys = shape(d["variant"])
        ginst = {}
        for g in range(d["ngen"]):
            f = ftys[g]
            ginst[g] = rng.choice(["Pa" + f[1:], "Pb" + f[1:], f] if is_f(f) else [f])

        def inst(t):
            if isinstance(t, int):
                return ginst[t]
            if isinstance(t, tuple):
                return tuple(inst(x) for x in t)
            return t
        x = inst(d["src"])
        srcs_concrete.append(x)
        oid = "%s.v%d" % (cid, j)
        tname = name + GENERICS[case["gen"]][1]
        body.append("{ take_log(); let s: %s = <%s as From<%s>>::from(%s); let o = %s; println!(\"%s\\t{}|{}\", o, take_log()); }"
                    % (tname, tname, rust_ty(x), mk_val(x, 10), observe("s"), oid))
        # model's prediction
        mlog = []
        mvals = [eval_value(v, ginst, mlog) for v in d["sem"]] if d["sem"] is not None else None
        tag = "S" if d["variant"] is None else "V%d" % d["variant"]
        m_exp = None if mvals is None else "%s:%s|%s" % (tag, show_vals(ftys, mvals), ",".join(mlog))
        tlog = ["%s>%s" % (ginst.get(a, a) if isinstance(a, int) else a, b) for (a, b) in d["trace"]
                if (ginst.get(a, a) if isinstance(a, int) else a) != b]
        if mvals is not None and tlog != mlog:
            m_exp += " [from_trace of the model says %s]" % ",".join(tlog)
        # the documented rules
        o_exp = "no documented impl From<%s>" % rust_ty(x)
        for (ov, osrc, ocomps, ofwd) in oracle:
            ostyle, oftys = shape(ov)
            if not unify_src(osrc, x, oftys):
                continue
            n = len(oftys)
            xs = [x] if n == 1 else (list(x) if isinstance(x, tuple) else [])
            vals, olog = [], []
            for i, f in enumerate(oftys):
                a = xs[i] if i < len(xs) else None
                v = 10 + i
                if a != f:
                    mk = MARK.get(("owned", a, f))
                    if mk is None:
                        vals.append("noconv")
                        continue
                    v += mk
                    olog.append("%s>%s" % (a, f))
                vals.append(v)
            o_exp = "%s:%s|%s" % ("S" if ov is None else "V%d" % ov, show_vals(oftys, vals), ",".join(olog))
            break
        obs.append({"id": oid, "what": "value", "model": m_exp, "oracle": o_exp,
                    "desc": "%s::from(%s)" % (name, mk_val(x, 10))})
    # trait-resolution probes
    cands = list(srcs_concrete)
    shapes = [(None, case["fields"])] if not is_enum else [(k, v["fields"]) for k, v in enumerate(case["variants"])]
    for (_, ftys) in shapes:
        cands.append(own_tuple(ftys))
        if len(ftys) >= 2:
            cands.append(tuple(reversed(ftys)))
            cands.append(tuple("Pa" + f[1:] if is_f(f) else f for f in ftys))
        if len(ftys) == 1 and is_f(ftys[0]):
            cands.append("Pb" + ftys[0][1:])
        if len(ftys) == 1 and isinstance(ftys[0], tuple):
            cands += list(ftys[0][:2]) + [(ftys[0],)]          # a component of the field's tuple / a 1-tuple around it
    cands.append(())
    for (ov, osrc, _, _) in oracle:
        if not any(isinstance(z, int) for z in (osrc if isinstance(osrc, tuple) else (osrc,))):
            cands.append(osrc)
    seen = []
    for x in cands:
        if x not in seen:
            seen.append(x)
    for j, x in enumerate(seen[:14]):
        oid = "%s.p%d" % (cid, j)
        body.append('println!("%s\\t{}", impls_from!(%s, %s));' % (oid, name + GENERICS[case["gen"]][1], rust_ty(x)))
        o_exp = any(unify_src(osrc, x, shape(ov)[1]) for (ov, osrc, _, _) in oracle)
        m_exp = any(unify_src(d["src"], x, shape(d["variant"])[1]) for d in impls)
        obs.append({"id": oid, "what": "probe", "model": str(m_exp).lower(), "oracle": str(o_exp).lower(),
                    "desc": "%s: From<%s>" % (name, rust_ty(x))})
    if mode is not None:
        # "probes": only the trait-resolution probes (always compile); "values": only the calls
        keep = [i for i, o in enumerate(obs) if (o["what"] == "probe") == (mode == "probes")]
        body, obs = [body[i] for i in keep], [obs[i] for i in keep]
    lines.append("pub fn run() { %s }" % "\n".join(body))
    return "\n".join(lines), obs


def ref_ty(kind, t):
    """the Rust type of one target component under a reference kind (lifetime 'static for probes)"""
    if kind == "owned":
        return rust_ty(t)
    return "&'static %s%s" % ("mut " if kind == "ref_mut" else "", rust_ty(t))


def rt_into(case, cid, impls, rng, mode=None, orig=None):
    style = case["style"]
    ftys = [f[0] for f in case["fields"]]
    n = len(ftys)
    lines = ["#[derive(derive_more::Into)] " + item_src(orig or case, "S")]
    if style == "unit":
        mk = "S"
    elif style == "named":
        mk = "S { %s }" % ", ".join("%s: %s" % (fname(case.get("raw"), i), mk_val(t, 10 + i)) for i, t in enumerate(ftys))
    else:
        mk = "S(%s)" % ", ".join(mk_val(t, 10 + i) for i, t in enumerate(ftys))
    body, obs = [], []
    oracle = oracle_into(case)

    def key(kind, tys):
        return (kind, paren_list(list(tys)))

    for j, d in enumerate(impls):
        kind = d["kind"]
        tys = d["tys"]
        oid = "%s.v%d" % (cid, j)
        tgt = paren_list(list(tys))
        m = len(tys)
        mlog = []
        mv = eval_value(d["sem"], {}, mlog) if d["sem"] is not None else None
        if mv is not None and not isinstance(mv, list):
            mv = [mv]
        mv = wild_zst(kind, tys, mv)
        m_exp = None if mv is None else "%s|%s" % (show_vals(tys, mv), ",".join(mlog))
        if kind == "owned":
            tsrc = into_target_src(kind, tys)
            if m == 1:
                vals = show_expr("t", tys[0])
            elif m == 0:
                vals = "String::new()"
            else:
                vals = "[%s].join(\",\")" % ", ".join(show_expr("t.%d" % i, t) for i, t in enumerate(tys))
            body.append("{ take_log(); let s = %s; let t: %s = From::from(s); let o = %s; println!(\"%s\\t{}|{}\", o, take_log()); }"
                        % (mk, tsrc, vals, oid))
        else:
            mut = "mut " if kind == "ref_mut" else ""
            tsrc = into_target_src(kind, tys, static=False)

            def cands(t):
                sub = ".ra" if isinstance(t, str) and t.startswith("Ra") else \
                    (".rb" if isinstance(t, str) and t.startswith("Rb") else "")
                cs = []
                for i, f in enumerate(ftys):
                    ok = (f == t) if sub == "" else (is_f(f) and f[1:] == t[2:])
                    cs.append("ad(&s.%s%s)" % (field_ident(style, i, case.get("raw")), sub) if ok else "0usize")
                return "[%s]" % ", ".join(cs), sub
            pre, post = [], []
            for i, t in enumerate(tys):
                c, sub = cands(t)
                pre.append("let c%d = %s;" % (i, c))
                acc = "t" if m == 1 else "t.%d" % i
                if is_zst(t):
                    # the type annotation of `t` already checks that this component is a reference to that type
                    post.append("{ let _ = &*%s; \"zst\".to_string() }" % acc)
                else:
                    post.append("format!(\"{}%s\", hit(ad(&*%s), &c%d))" % (sub, acc, i))
            vals = "[%s].join(\",\")" % ", ".join(post) if m else "String::new()"
            body.append("{ take_log(); let %ss = %s; %s let t: %s = From::from(&%ss); let o: String = %s; println!(\"%s\\t{}|{}\", o, take_log()); }"
                        % (mut, mk, " ".join(pre), tsrc, mut, vals, oid))
        # documented rules
        o_exp = "no documented impl From<%sS> for %s" % ({"owned": "", "ref": "&", "ref_mut": "&mut "}[kind],
                                                          into_target_src(kind, tys, static=False))
        for (ok, ot, ocomps) in oracle:
            if ok != kind or ocomps is None or \
                    into_target_src(ok, [c for (_i, _f, c) in ocomps]) != into_target_src(kind, tys):
                continue
            vals, olog = [], []
            for (i, f, c) in ocomps:
                if kind == "owned":
                    v = 10 + i
                    if c != f:
                        mkk = MARK.get(("owned", f, c))
                        if mkk is None:
                            vals.append("noconv")
                            continue
                        v += mkk
                        olog.append("%s>%s" % (f, c))
                    vals.append(v)
                else:
                    if c != f:
                        mkk = MARK.get((kind, f, c))
                        if mkk is None:
                            vals.append("noconv")
                            continue
                        olog.append("&%s>&%s" % (f, c))
                        vals.append("%d.%s" % (i, mkk))
                    else:
                        vals.append(str(i))
            vals = wild_zst(kind, [c for (_i, _f, c) in ocomps], vals)
            o_exp = "%s|%s" % (show_vals([c for (_i, _f, c) in ocomps], vals), ",".join(olog))
            break
        obs.append({"id": oid, "what": "value", "model": m_exp, "oracle": o_exp,
                    "desc": "<%s as From<%sS>>::from" % (tsrc, {"owned": "", "ref": "&", "ref_mut": "&mut "}[kind])})
    # probes
    src = [t for t, a in case["fields"]
           if not any(x is not None and len(x) == 1 and x[0][0] == "t" and x[0][1] in ("skip", "ignore") for x in a)]
    # candidates: (kind, components of the target), identified by the rendered target type
    cands = [(d["kind"], list(d["tys"])) for d in impls]
    cands += [(k, [c for (_i, _f, c) in comps]) for (k, _t, comps) in oracle if comps is not None]
    for k in KINDS:
        cands.append((k, list(src)))
        cands.append((k, list(ftys)))
        if len(src) >= 2:
            cands.append((k, list(reversed(src))))
        for t in ftys[:2]:
            cands.append((k, [t]))
        if len(src) == 1 and isinstance(src[0], tuple):
            cands.append((k, list(src[0])))                 # the sole field's tuple split into its components
            cands.append((k, [(src[0],)]))                  # ... or wrapped once more
            cands += [(k, [x]) for x in src[0][:1]]
    seen, seen_src = [], []
    for (k, comps) in cands:
        r = (k, into_target_src(k, comps))
        if r not in seen_src:
            seen_src.append(r)
            seen.append((k, comps))
    o_set = set((ok, into_target_src(ok, [c for (_i, _f, c) in oc])) for (ok, _t, oc) in oracle if oc is not None)
    m_set = set((d["kind"], into_target_src(d["kind"], d["tys"])) for d in impls)
    for j, (k, comps) in enumerate(seen[:18]):
        oid = "%s.p%d" % (cid, j)
        tsrc = into_target_src(k, comps)
        me = {"owned": "S", "ref": "&'static S", "ref_mut": "&'static mut S"}[k] + GENERICS[case["gen"]][1]
        body.append('println!("%s\\t{}", impls_from!(%s, %s));' % (oid, tsrc, me))
        o_exp = (k, tsrc) in o_set
        m_exp = (k, tsrc) in m_set
        obs.append({"id": oid, "what": "probe", "model": str(m_exp).lower(), "oracle": str(o_exp).lower(),
                    "desc": "%s: From<%s>" % (tsrc, me)})
    if mode is not None:
        # "probes": only the trait-resolution probes (always compile); "values": only the calls
        keep = [i for i, o in enumerate(obs) if (o["what"] == "probe") == (mode == "probes")]
        body, obs = [body[i] for i in keep], [obs[i] for i in keep]
    lines.append("pub fn run() { %s }" % "\n".join(body))
    return "\n".join(lines), obs


def rt_roundtrip(case, cid, m_ctor):
    """From + Into + Constructor on one struct (no attributes): both round trips and `new`"""
    style, ftys = case["style"], case["fields"]
    n = len(ftys)
    src = "#[derive(derive_more::From, derive_more::Into, derive_more::Constructor, Debug, PartialEq, Clone)] " + \
          struct_src([], case["gen"], style, fields_src(style, ftys, None, Speller(case.get("spell", 0)), case.get("raw")), "S")
    sty_ = "S" + GENERICS[case["gen"]][1]
    tup = own_tuple(ftys)
    tsrc = rust_ty(tup)
    args = ", ".join(mk_val(t, 10 + i) for i, t in enumerate(ftys))
    tval = mk_val(tup, 10) if n != 1 else mk_val(ftys[0], 10)
    obs_fields = observe_fields_expr(style, ftys, "s", case.get("raw"))
    body = [
        "let t: %s = %s;" % (tsrc, tval),
        "let s: %s = From::from(t.clone());" % sty_,
        'println!("%s.from\\t{}", %s);' % (cid, obs_fields),
        "let t2: %s = From::from(s.clone());" % tsrc,
        'println!("%s.rt1\\t{}", t2 == t);' % cid,
        "let s2: %s = From::from(t2);" % sty_,
        'println!("%s.rt2\\t{}", s2 == s);' % cid,
        "let s = <%s>::new(%s);" % (sty_, args),
        'println!("%s.new\\t{}", %s);' % (cid, obs_fields),
        "let t3: %s = From::from(s);" % tsrc,
        'println!("%s.rt3\\t{}", t3 == t);' % cid,
    ]
    vals = show_vals(ftys, [10 + i for i in range(n)])
    mvals = show_vals(ftys, [eval_value(v, {}, []) for v in m_ctor["sem"]])
    obs = [{"id": cid + ".from", "what": "value", "model": vals, "oracle": vals, "desc": "S::from(tuple): field i = component i"},
           {"id": cid + ".rt1", "what": "roundtrip", "model": "true", "oracle": "true", "desc": "into(from(t)) == t"},
           {"id": cid + ".rt2", "what": "roundtrip", "model": "true", "oracle": "true", "desc": "from(into(s)) == s"},
           {"id": cid + ".new", "what": "value", "model": mvals, "oracle": vals, "desc": "S::new(a, b, ..): field i = argument i"},
           {"id": cid + ".rt3", "what": "roundtrip", "model": "true", "oracle": "true", "desc": "into(new(args)) == args"}]
    return src + "\npub fn run() { %s }" % "\n".join(body), obs


def features(case, model):
    """which mechanisms of the property a run-time case exercises (histogram in evidence)"""
    d = case["derive"]
    out = []
    if d == "From":
        shapes = [(case.get("attrs"), case.get("fields"))] if case["kind"] == "struct" else \
            [(v["attrs"], v["fields"]) for v in case["variants"]]
        if case["kind"] == "enum":
            if any(a and a[0] not in (["skip"], ["ignore"]) for a, _ in shapes):
                out.append("enum-explicit-from")
                if any(not a and f for a, f in shapes):
                    out.append("enum-unannotated-variant-suppressed")
            if any(a and a[0] in (["skip"], ["ignore"]) for a, _ in shapes):
                out.append("enum-skip")
            if any(not f and not a for a, f in shapes):
                out.append("enum-unit-variant")
            if any(not f and a == [None] for a, f in shapes):
                out.append("enum-unit-variant-annotated")
        for m in model:
            n = len(m["inits"])
            k = "forward" if m["ngen"] else ("typed" if m["trace"] else "direct")
            out.append("%s-%s" % (k, "multi" if n >= 2 else ("single" if n == 1 else "nofield")))
        if any(len(a) > 1 for a, _ in shapes if a):
            out.append("repeated-attribute")
    elif d == "Into":
        skipped = sum(1 for f in case["fields"] for a in f[1]
                      if a is not None and len(a) == 1 and a[0][0] == "t" and a[0][1] in ("skip", "ignore"))
        for m in model:
            own = all(f == t for (_i, f, t) in m["inits"])
            out.append("%s-%s-%s%s" % (m["kind"], "own" if own else "listed",
                                       "multi" if len(m["inits"]) >= 2 else ("single" if m["inits"] else "nofield"),
                                       "-skip" if skipped and len(m["inits"]) + skipped >= len(case["fields"]) and len(m["inits"]) != 1 else ""))
        if any(a for f in case["fields"] for a in f[1] if not (a is not None and len(a) == 1 and a[0][0] == "t")):
            out.append("field-level-attribute")
        if len(case["sattrs"]) > 1 or any(len(f[1]) > 1 for f in case["fields"]):
            out.append("repeated-attribute")
    else:
        out.append("constructor-%s" % case["style"])
    return sorted(set(out))


def impls_from_oracle(case):
    """pseudo-descriptors of the *documented* impls (used to observe a case whose real expansion no longer
    matches the model: the observation code then relies on nothing but the documented rules)"""
    d = case["derive"]
    if d == "From":
        out = []
        for (ov, osrc, ocomps, ofwd) in oracle_from(case):
            if ocomps is None and False:
                return None
            n = len(case["fields"] if ov is None else case["variants"][ov]["fields"])
            out.append({"variant": ov, "src": osrc, "ngen": n if ofwd else 0, "inits": [], "sem": None, "trace": []})
        return out
    if d == "Into":
        out = []
        for (k, t, comps) in oracle_into(case):
            if comps is None:
                return None
            out.append({"kind": k, "tys": [c for (_i, _f, c) in comps], "inits": [], "sem": None})
        return out
    return {"params": [], "inits": [], "sem": [("leaf", 10 + i) for i in range(len(case["fields"]))]}


def oracle_eligible(case):
    """documented impls are coherent and use only conversions of the universe"""
    d = case["derive"]
    if not case.get("rt"):
        return False
    if d == "From":
        o = oracle_from(case)
        shape = (lambda v: case["fields"] if v is None else case["variants"][v]["fields"])
        for a in range(len(o)):
            n = len(shape(o[a][0]))
            if o[a][2] is not None and len(o[a][2]) != n:
                return False
            for b in range(a):
                if may_overlap(o[a][1], shape(o[a][0]), o[b][1], shape(o[b][0])):
                    return False
        return True
    if d == "Into":
        o = oracle_into(case)
        if has_one_tuple(case) or any(c is None for (_k, _t, c) in o):
            return False
        return len(set((k, into_target_src(k, [x for (_i, _f, x) in c])) for (k, _t, c) in o)) == len(o)
    return True


def rt_eligible(case, model):
    """can this (expanding, tied) case go into the run-time crate: every conversion exists in the universe and
    the impls are coherent"""
    if not case.get("rt") or model in ("err", "panic"):
        return False
    d = case["derive"]
    if d == "From":
        shapes = {None: case.get("fields")}
        if case["kind"] == "enum":
            shapes = {k: v["fields"] for k, v in enumerate(case["variants"])}
        split = split_scope(case)
        for a in range(len(model)):
            fa = shapes[model[a]["variant"]]
            if model[a]["sem"] is None or len(model[a]["inits"]) != len(fa):
                return False
            for (f, t) in model[a]["trace"]:
                if not split and not isinstance(f, int) and f != t and ("owned", f, t) not in MARK:
                    return False
            for b in range(a):
                if may_overlap(model[a]["src"], fa, model[b]["src"], shapes[model[b]["variant"]]):
                    return False
        return True
    if d == "Into":
        seen = set()
        split = split_scope(case)
        for m in model:
            k = (m["kind"], into_target_src(m["kind"], m["tys"]))
            if k in seen or m["sem"] is None or (len(m["inits"]) != len(m["tys"]) and not split):
                return False
            seen.add(k)
            for (_i, f, t) in m["inits"]:
                if f != t and (m["kind"], f, t) not in MARK and not split:
                    return False
        return True
    return True


# ------------------------------------------------------------------ the check

def run(tier, seed, replay):
    chk = common.Check("C08", tier, seed)
    rng = chk.rng
    inproc = common.build_inproc()
    st = common.check_proofs(chk, "C08")

    # ---- cases
    if replay:
        cases = [json.load(open(replay))["replay"]["case"]]
        cases = [fix_case(c) for c in cases]
    else:
        n_ip = 1800 if tier == "quick" else 16000
        n_rt = 400 if tier == "quick" else 2500
        cases = [fix_case(json.loads(json.dumps(c))) for c in CORPUS]
        for _ in range(n_ip):
            cases.append(gen_from(rng, False))
            cases.append(gen_into(rng, False))
        for _ in range(n_ip // 6):
            cases.append(gen_ctor(rng, False))
        for _ in range(n_rt):
            cases.append(gen_from(rng, True))
            cases.append(gen_into(rng, True))
        for _ in range(n_rt // 5):
            cases.append(gen_ctor(rng, True))
    chk.log("%d cases" % len(cases))

    # ---- tie 1: real expanders (in-process) vs the model (Coq), whole expansions
    reqs = [{"cmd": "expand", "derive": c["derive"], "item": item_src(c)} for c in cases]
    real = common.run_jsonl(inproc, reqs)
    terms = common.coq_eval(["Verif.C08.Model"], [coq_expr(c) for c in cases], batch=300, tag="c08")
    models = []
    tied = []
    n_tie = 0
    outcomes = {}
    for c, r, t in zip(cases, real, terms):
        d = c["derive"]
        diag = None
        if d != "Constructor":
            t, dg = t
            diag = model_diag(dg)
        m = model_from(t) if d == "From" else (model_into(t) if d == "Into" else model_ctor(t))
        models.append(m)
        chk.count(("ip", item_src(c), d), nontrivial(c))
        chk.bump(bucket(c))
        n_tie += 1
        if "item_unparsable" in r or "bad_request" in r or "crash" in r:
            chk.violation("harness-item-unparsable", {"case": c, "item": item_src(c), "resp": r},
                          "the renderer produced an item the harness cannot parse: %s" % item_src(c))
            tied.append(False)
            continue
        r_out = "panic" if "panic" in r else ("err" if "err" in r else "ok")
        m_out = m if m in ("err", "panic") else "ok"
        outcomes[(d, r_out)] = outcomes.get((d, r_out), 0) + 1
        # acceptance, judged by the documented rules alone (no model): every run-time-stream case is a documented,
        # well-formed input; a listed type of the wrong arity has to be refused
        arity = listed_arity(c) if d != "Constructor" else []
        if r_out != "ok" and c.get("rt"):
            cls = "listed-path-type-rejected" if has_path_listed(c) else \
                ("listed-tuple-rejected" if has_listed_tuple(c) else "documented-input-rejected")
            if split_scope(c) and "wrong tuple length: expected 1, found 0" in str(r.get("err")):
                cls = SPLIT_KEY            # `()` listed for the one field of type `()`
            chk.violation(cls, {"case": c, "item": item_src(c), "code": r},
                          "the documented, well-formed `%s` is not accepted by derive(%s): %s" %
                          (item_src(c), d, r.get("err") or r.get("panic")))
        if r_out == "ok" and any(v == "wrong-arity" for (_n, _t, v) in arity):
            n, t, _ = next(x for x in arity if x[2] == "wrong-arity")
            chk.violation("listed-tuple-wrong-arity-accepted", {"case": c, "item": item_src(c), "listed": rust_ty(t), "fields": n},
                          "`%s`: the listed type %s does not have one component per field (%d) but derive(%s) accepts it" %
                          (item_src(c), rust_ty(t), n, d))
        if r_out != m_out:
            cls = "tie-inproc-outcome"
            if r_out == "panic" or m_out == "panic":
                cls = "tie-inproc-outcome-panic"
            chk.violation(cls, {"case": c, "item": item_src(c), "model": m_out, "code": r},
                          "model predicts %s, the real %s expander gives %s on `%s`" % (m_out, d, r_out, item_src(c)))
            tied.append(False)
            continue
        if r_out != "ok":
            # the diagnostic: when the model says the first failure is a refusal by validate_type, the real message
            # must be that one, with the model's numbers
            if r_out == "err" and diag is not None:
                msg = str(r.get("err"))
                if not (msg.startswith(diag[0]) and msg.endswith(diag[1])):
                    chk.violation("tie-inproc-diagnostic", {"case": c, "item": item_src(c), "model": diag, "code": msg},
                                  "`%s`: the model expects the diagnostic `%s...%s`, the code says `%s`" %
                                  (item_src(c), diag[0], diag[1], msg))
                    tied.append(False)
                    continue
                chk.bump("diagnostic/" + diag[0].split(".")[0].split(":")[0] + ("/" + diag[0].split("Consider ")[1].split(" ")[0] if "Consider" in diag[0] else ""))
            tied.append(True)
            continue
        exp = finish_expected(expected_from_impls(c, m) if d == "From" else
                              (expected_into_impls(c, m) if d == "Into" else expected_ctor_impl(c, m)))
        got = real_impls(r)
        if exp != got:
            k = next((i for i in range(min(len(exp), len(got))) if exp[i] != got[i]), min(len(exp), len(got)))
            chk.violation("tie-inproc-%s" % d.lower(),
                          {"case": c, "item": item_src(c), "first_difference": k,
                           "model": exp[k] if k < len(exp) else None, "code": got[k] if k < len(got) else None,
                           "n_model": len(exp), "n_code": len(got)},
                          "expansion of `%s` differs from the model at impl %d: model %s / code %s" %
                          (item_src(c), k, exp[k] if k < len(exp) else None, got[k] if k < len(got) else None))
            tied.append(False)
            continue
        tied.append(True)
        chk.sample({"item": item_src(c), "impls": [(e["trait"], e["self_ty"]) for e in exp][:4]}, limit=8)
    if not replay:
        rr = common.run_jsonl(inproc, [{"cmd": "expand", "derive": d, "item": it} for (d, it, _, _) in RAW_REGRESSIONS])
        for (d, it, want, key), r in zip(RAW_REGRESSIONS, rr):
            got = "panic" if "panic" in r else ("err" if "err" in r else ("ok" if "ok" in r else "?"))
            chk.count(("raw", it), True)
            if got != want:
                chk.violation("regression-" + key, {"item": it, "derive": d, "resp": r, "expected": want},
                              "`%s` (%s) gives %s, expected %s" % (it, d, got, want))
    chk.cov["traces_validated_against_impl"] = n_tie
    chk.cov["inproc_outcomes"] = {"%s/%s" % k: v for k, v in sorted(outcomes.items())}
    chk.log("in-process tie done: %s" % chk.cov["inproc_outcomes"])

    # ---- tie 2 + oracle: the real macro under rustc, run
    mods, specs, owner = [], {}, {}
    mods2, mods3 = [], []
    n_mod = 0
    for idx, (c0, m0, ok) in enumerate(zip(cases, models, tied)):
        cid = "c%d" % idx
        # the run-time universe knows every type by its plain name; the item is rendered as written (orig=c0)
        c, m = norm_deep(c0), norm_deep(m0)
        if not ok and "ok" in real[idx] and oracle_eligible(c):
            # the expansion is not what the model says: observe it through the documented rules alone
            m2 = impls_from_oracle(c)
            if m2 is not None:
                # two modules: the probes (compile whatever the impl set is) and the documented calls (a missing or
                # ill-typed impl is then a compile error of that module only)
                if c["derive"] == "Constructor":
                    parts = [(cid, rt_roundtrip(c, cid, m2))]
                else:
                    f = rt_from if c["derive"] == "From" else rt_into
                    parts = [(cid + "p", f(c, cid + "p", m2, rng, "probes", c0)),
                             (cid + "v", f(c, cid + "v", m2, rng, "values", c0))]
                for (mid, (src, obs)) in parts:
                    mods2.append((mid, src))
                    for o in obs:
                        o["model"] = None
                        specs[o["id"]] = o
                        owner[o["id"]] = idx
            continue
        if not ok or not rt_eligible(c, m):
            continue
        if c["derive"] == "From":
            src, obs = rt_from(c, cid, m, rng, None, c0)
        elif c["derive"] == "Into":
            src, obs = rt_into(c, cid, m, rng, None, c0)
        else:
            src, obs = rt_roundtrip(c, cid, m)
        # inputs of the known finding SPLIT_KEY get a crate of their own (their expansion is expected not to type-check)
        (mods3 if split_scope(c) else mods).append((cid, src))
        for ft in features(c, m):
            chk.bump("rt-feature/" + ft)
        for o in obs:
            specs[o["id"]] = o
            owner[o["id"]] = idx
        n_mod += 1
    chk.log("%d modules, %d observations for the run-time crate" % (n_mod, len(specs)))
    observed = run_rt_crate(chk, mods, cases, "c08rt")
    if mods3:
        chk.log("%d cases list a tuple type for a single field (separate crate)" % len(mods3))
        observed.update(run_rt_crate(chk, mods3, cases, "c08rt3"))
        common.cleanup_scratch("c08rt3")
    if mods2:
        chk.log("%d untied cases observed through the documented rules alone" % len(mods2))
        observed.update(run_rt_crate(chk, mods2, cases, "c08rt2"))
        common.cleanup_scratch("c08rt2")
    n_obs = 0
    for oid, o in specs.items():
        c = cases[owner[oid]]
        got = observed.get(oid)
        if got is None:
            continue
        n_obs += 1
        chk.count(("rt", oid, item_src(c), o["desc"]), nontrivial(c))
        chk.bump("rt/" + c["derive"] + "/" + o["what"])
        rep = {"case": c, "item": item_src(c), "observation": o["desc"], "observed": got,
               "documented": o["oracle"], "model": o["model"]}
        if got != o["oracle"]:
            cls = classify_rt(c, o, got)
            chk.violation(cls, rep, "`%s`: %s gives %s, the documented behaviour is %s" %
                          (item_src(c), o["desc"], got, o["oracle"]))
        if o["model"] is not None and got != o["model"]:
            chk.violation("tie-rt-model-" + c["derive"].lower(), rep,
                          "`%s`: %s gives %s, the Coq model predicts %s" % (item_src(c), o["desc"], got, o["model"]))
    chk.cov["runtime_observations"] = n_obs
    chk.cov["runtime_modules"] = n_mod
    common.cleanup_scratch("c08rt")

    if getattr(chk, "proof_broken", False) and not chk.violations:
        chk.violation("proof-broken", chk.proof_failure, "a C08 proof obligation no longer checks: %s" %
                      chk.proof_failure["failed"], no_input=True)
    elif getattr(chk, "proof_broken", False):
        chk.notes.append("proof obligation broken at %s; failing inputs found by the differential run" %
                         chk.proof_failure["failed"])
    return chk.finish(
        proof=st,
        rule="items: hand corpus + grammar-random structs (unit/tuple/braced, 0..6 fields of pairwise distinct newtypes, or one "
             "repeated type) and enums (1..5 variants) with every attribute placement (#[from], skip/ignore, forward, listed "
             "types incl. repeated attributes; #[into] with owned/ref/ref_mut, listed types, skip, field-level and struct-level, "
             "repeated attributes) + a malformed stream (arity mismatches, one-element and empty tuples, mixed/duplicate "
             "attributes) for the in-process tie; generics only in-process. Run time: every tied, coherent case whose "
             "conversions exist in the instrumented universe; field i carries value 10+i; user From impls add a "
             "type-specific offset and log the call; references are located by address; impl sets by trait-resolution "
             "probes. non-trivial = >=2 fields or an attribute; distinct by rendered item (+observation)",
        trusted=TRUSTED)


def fix_case(c):
    """JSON round trip turns tuples into lists: restore tuple types"""
    def ty(t):
        return tuple(ty(x) for x in t) if isinstance(t, (list, tuple)) else t

    def fattr(a):
        return None if a is None else [ty(t) for t in a]

    def iattr(a):
        if a is None:
            return None
        out = []
        for it in a:
            if it[0] == "t":
                out.append(["t", ty(it[1])])
            else:
                out.append(["k", it[1], None if it[2] is None else [ty(t) for t in it[2]]])
        return out
    d = c["derive"]
    if d == "From" and c["kind"] == "enum":
        for v in c["variants"]:
            v["attrs"] = [fattr(a) for a in v["attrs"]]
            v["fields"] = [ty(t) for t in v["fields"]]
    elif d == "From":
        c["attrs"] = [fattr(a) for a in c["attrs"]]
        c["fields"] = [ty(t) for t in c["fields"]]
    elif d == "Into":
        c["sattrs"] = [iattr(a) for a in c["sattrs"]]
        c["fields"] = [[ty(f[0]), [iattr(a) for a in f[1]]] for f in c["fields"]]
    else:
        c["fields"] = [ty(t) for t in c["fields"]]
    return c


def classify_rt(case, o, got):
    d = case["derive"]
    if d == "Into" and has_one_tuple(case):
        return "into-listed-one-tuple-flattened"
    if o["what"] == "probe":
        return "%s-impl-set-%s" % (d.lower(), "extra" if got == "true" else "missing")
    if o["what"] == "roundtrip":
        return "roundtrip"
    if "|" in got and "|" in o["oracle"] and got.split("|")[0] == o["oracle"].split("|")[0]:
        return "%s-conversion-count" % d.lower()
    return "%s-field-position" % d.lower()


def run_rt_crate(chk, mods, cases, name):
    """build + run one crate with a module per case; on a compile error report the modules at fault and retry
    without them"""
    observed = {}
    mods = list(mods)
    for attempt in range(4):
        if not mods:
            return observed
        parts = [PRELUDE]
        spans = []
        line = PRELUDE.count("\n") + 1
        for cid, src in mods:
            # `T` / `U` outside the item are the concrete instances of its type parameters
            text = "mod %s {\nuse super::*;\npub type T = L0; pub type U = L1;\n%s\n}\n" % (cid, src)
            run_line = line + 3 + src[:src.rindex("pub fn run()")].count("\n")
            spans.append((line, line + text.count("\n") - 1, cid, run_line))
            parts.append(text)
            line += text.count("\n")
        parts.append("fn main() {\n%s\n}\n" % "\n".join("%s::run();" % cid for cid, _ in mods))
        d = common.make_crate(name, "".join(parts))
        rc, err, out = common.run_crate(d, name)
        if out is not None:
            if rc != 0:
                chk.violation("rt-crate-crashed", {"rc": rc, "stderr": (err or "")[-2000:]},
                              "the generated crate aborted at run time: %s" % (err or "")[-300:], no_input=True)
            for l in out.splitlines():
                if "\t" in l:
                    k, v = l.split("\t", 1)
                    observed[k] = v
            return observed
        rc2, js = common.cargo(d, ["check", "--message-format=json", "--quiet"])
        bad = {}
        for l in js.splitlines():
            if not l.startswith("{"):
                continue
            try:
                j = json.loads(l)
            except Exception:
                continue
            msg = j.get("message") or {}
            if j.get("reason") != "compiler-message" or msg.get("level") != "error":
                continue
            for sp in msg.get("spans", []):
                if not sp.get("file_name", "").endswith("main.rs"):
                    continue
                for (a, b, cid, run_line) in spans:
                    if a <= sp["line_start"] <= b:
                        # an error located in the item itself comes from the derive's expansion, one located in
                        # `run()` from the documented way of using the impls
                        where = "expansion" if sp["line_start"] < run_line else "use"
                        bad.setdefault(cid, (where, (msg.get("rendered") or msg.get("message") or "")[:1500],
                                             msg.get("message") or ""))
        if not bad:
            chk.violation("rt-crate-does-not-build", {"output": (err or "")[-3000:]},
                          "the generated crate does not build and the error is in no case module", no_input=True)
            return observed
        for cid, (where, text, headline) in bad.items():
            c = cases[int(re.match(r"c(\d+)", cid).group(1))]
            cls = ("expansion-ill-typed-" if where == "expansion" else "rt-compile-error-") + c["derive"].lower()
            if where == "expansion" and c.get("gen") in GEN_TAGS and "Label" in headline:
                cls = "user-where-clause-lost"          # the derived impl does not carry the item's own bounds
            elif where == "expansion" and split_scope(c):
                cls = SPLIT_KEY
            if c["derive"] == "Into" and has_one_tuple(c):
                cls = "into-listed-one-tuple-flattened"
            chk.violation(cls, {"case": c, "item": item_src(c), "rustc": text},
                          "`%s` expands, but the expansion or the documented way of using it does not compile: %s" %
                          (item_src(c), text[:300]))
        mods = [(cid, s) for (cid, s) in mods if cid not in bad]
    return observed


META = {
    "level": "proof",
    "technique": "Coq proof over an executable model of from.rs/into.rs/constructor.rs/validate_type (all arities, induction over "
                 "field lists) + token-level correspondence of whole expansions in-process + run-time differential against the "
                 "real proc-macro under rustc with an independent oracle of the documented rules",
    "text": "Theorems (Coq, closed): From puts component i into field i through the conversion its attribute selects, with exactly "
            "one From::from per field for listed-type and forward forms and none for the direct form; Into reads the non-skipped "
            "fields in declaration order and, for the fields' own types, returns those fields (owned) or their addresses (ref, "
            "ref_mut); From/Into and Constructor/Into round trips; the emitted impl set equals the documented set variant by "
            "variant (none for skip, field-less or un-annotated-under-explicit variants; one per listed type; one per requested "
            "kind and type for Into); validate_type accepts iff a tuple of matching arity, or <=1 field and not `()` for one field; the "
            "expansion never reaches the unreachable!() of from.rs:166, `()` listed for a single field is a diagnostic. The model is re-tied on every run: every impl header and method body of thousands of "
            "real in-process expansions must equal the model's rendering token for token, and the values/addresses/logged From "
            "calls/trait-resolution probes observed on the real macro compiled by rustc must equal both the model's prediction "
            "and an independent evaluator of the documented rules.",
    "note": "Trusted: Coq kernel/vm_compute; the value semantics given to emitted bodies (tuple projection, struct construction, "
            "`&value.i` is field i's address, From<T> for T is the identity) - exercised at run time; user From impls "
            "uninterpreted; Python renderers/oracle. Generics are tied in-process only (orphan rules forbid generic Into at run "
            "time). Not covered: diagnostics text, legacy `types(..)` syntax (C18), unions/enums for Into/Constructor.",
    "design_ref": "DESIGN.md section 2 / C08",
}
