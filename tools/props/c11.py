"""C11 - variant accessors agree with the value's variant and never lose data
(IsVariant, Unwrap, TryUnwrap, TryInto).

proofs : coq/theories/C11 (model of utils.rs State / is_variant.rs / unwrap.rs / try_unwrap.rs / try_into.rs +
         a small semantics of the emitted `match`; theorems for all enums, all values)
tie 1  : accessor set (names, self kind, TryFrom keys) of the Coq model vs the real expansion (in-process harness)
tie 2  : the full values x accessors table of the Coq model vs the real proc-macro compiled by rustc and executed
oracle : the table computed from the declaration by an independent evaluator of the property text (this file),
         names from an independent snake_case; panics caught, addresses compared, error inputs compared
"""
import json
import os
import re
import subprocess

from lib import common
from lib.common import coq_str, py_str

TRUSTED = [
    "Coq 8.16.1 kernel + vm_compute (coqc full .vo build); no axioms (Print Assumptions: closed)",
    "hand-written Gallina model coq/theories/C11/Model.v (State/new_impl, enabled variants, is_variant/unwrap/try_unwrap/"
    "try_into expanders) and its Layer-2 semantics of the emitted match (first-arm, default binding modes, variants "
    "resolved by name); tied to the code by the accessor-set and run-time-table differentials of this check",
    "convert_case::Case::Snake is a Section variable of the model; names are checked at run "
    "time against an independent snake_case in this file",
    "tools/props/c11.py (generators, renderers, canonicalisers, the Python evaluator of the property text)",
    "rustc/cargo 1.95 for the generated crate; std::panic::catch_unwind, std::ptr address comparison, std derives "
    "of Clone/PartialEq/Debug used to compare payloads and error inputs",
]

DERIVES = ["IsVariant", "Unwrap", "TryUnwrap", "TryInto"]
ATTR = {"IsVariant": "is_variant", "Unwrap": "unwrap", "TryUnwrap": "try_unwrap", "TryInto": "try_into"}
PREFIX = {"IsVariant": "is_", "Unwrap": "unwrap_", "TryUnwrap": "try_unwrap_"}
MODES = ["owned", "ref", "mut"]
SUFFIX = {"owned": "", "ref": "_ref", "mut": "_mut"}
COQ_PARAM = {"ignore": "PIgnore", "owned": "POwned", "ref": "PRef", "ref_mut": "PRefMut"}
COQ_MODE = {"MMove": "owned", "MRef": "ref", "MRefMut": "mut"}

# ------------------------------------------------------------------ field types

# pool entry -> (concrete type, token spelling as printed by proc_macro2, value maker, Debug rendering)
def _s(c):
    return 'String::from("s%d")' % c


TYPES = {
    "i32": ("i32", "i32", lambda c: "%di32" % c, lambda c: "%d" % c),
    "u8": ("u8", "u8", lambda c: "%du8" % c, lambda c: "%d" % c),
    "u64": ("u64", "u64", lambda c: "%du64" % c, lambda c: "%d" % c),
    "String": ("String", "String", _s, lambda c: '"s%d"' % c),
    "char": ("char", "char", lambda c: "char::from_u32(%d).unwrap()" % (0x4e00 + c), lambda c: "'%s'" % chr(0x4e00 + c)),
    "(i32, u8)": ("(i32, u8)", "(i32 , u8)", lambda c: "(%di32, %du8)" % (c, c), lambda c: "(%d, %d)" % (c, c)),
    "Vec<u8>": ("Vec<u8>", "Vec < u8 >", lambda c: "vec![%du8]" % c, lambda c: "[%d]" % c),
    "T": ("i16", "T", lambda c: "%di16" % c, lambda c: "%d" % c),
    "U": ("String", "U", _s, lambda c: '"s%d"' % c),
    "Vec<T>": ("Vec<i16>", "Vec < T >", lambda c: "vec![%di16]" % c, lambda c: "[%d]" % c),
    "Option<U>": ("Option<String>", "Option < U >", lambda c: "Some(%s)" % _s(c), lambda c: 'Some("s%d")' % c),
    "Tagged<T>": ("Tagged<i16>", "Tagged < T >", lambda c: "Tagged(%di16)" % c, lambda c: "Tagged(%d)" % c),
    "Vec<U>": ("Vec<String>", "Vec < U >", lambda c: "vec![%s]" % _s(c), lambda c: '["s%d"]' % c),
    "Cl<U>": ("Cl<String>", "Cl < U >", lambda c: "Cl(%s)" % _s(c), lambda c: 'Cl("s%d")' % c),
    "&'a str": ("&'static str", "& 'a str", lambda c: '"s%d"' % c, lambda c: '"s%d"' % c),
    "[u8; N]": ("[u8; 2]", "[u8 ; N]", lambda c: "[%du8, 0u8]" % c, lambda c: "[%d, 0]" % c),
}
GENERICS = {
    "none": ("", "", []),
    "T": ("<T>", "<i16>", ["T", "Vec<T>"]),
    "TU": ("<T, U>", "<i16, String>", ["T", "U", "Vec<T>", "Option<U>"]),
    "lt": ("<'a, T>", "<'static, i16>", ["&'a str", "T", "Vec<T>"]),
    "const": ("<const N: usize>", "<2>", ["[u8; N]"]),
    # bounds that live ONLY in the where clause and that the field types need (struct Tagged<T: Copy>, Cl<U: Clone>)
    "where": ("<T, U>", "<i16, String>", ["Tagged<T>", "Cl<U>", "Vec<U>"]),
}
WHERE = {"where": " where T: Copy, U: Clone"}
WHERE_PREDS = {"where": ["T:Copy", "U:Clone"]}
GEN_PARAMS = {"none": [], "T": ["T"], "TU": ["T", "U"], "lt": ["'a", "T"], "const": ["constN:usize"], "where": ["T", "U"]}
PLAIN_TYPES = ["i32", "u8", "u64", "String", "char", "(i32, u8)", "Vec<u8>"]
# a bare type parameter cannot be the Self type of a foreign trait impl (orphan rule), and `Vec<T>` next to
# `Vec<u8>` gives overlapping impls: TryInto enums avoid both (compile-ability is C01's subject)
TRYINTO_GENERIC_OK = {"Vec<T>", "Option<U>", "&'a str", "[u8; N]", "Tagged<T>", "Cl<U>", "Vec<U>"}

NAMES = ["A", "B", "C", "Foo", "FooBar", "HTTPServer", "IOError", "Xml2Json", "V2", "Ab_Cd", "snake_case", "lower",
         "UPPER", "MixedUP", "X1y2", "TwoWords", "ABc", "Http2", "R2D2", "Unit", "Just", "Nothing", "BigInt",
         "NamedSmallInts", "Z9", "Éclair"]
RAW_NAMES = ["fn", "Type", "match", "Struct", "type", "loop"]


def snake(name):
    """independent snake_case: words split at `_`, lower->Upper, letter<->digit and at the last capital of a
    run of capitals that is followed by a lower-case letter; joined by `_`, lower-cased"""
    words, cur = [], ""
    cs = list(name)
    for i, c in enumerate(cs):
        if c == "_":
            if cur:
                words.append(cur)
            cur = ""
            continue
        if cur:
            p = cur[-1]
            if (p.islower() and c.isupper()) or (p.isalpha() and c.isdigit()) or (p.isdigit() and c.isalpha()) \
                    or (p.isupper() and c.isupper() and i + 1 < len(cs) and cs[i + 1].islower()):
                words.append(cur)
                cur = ""
        cur += c
    if cur:
        words.append(cur)
    return "_".join(w.lower() for w in words)


# ------------------------------------------------------------------ declarations

def gen_decl(rng, derive, style, k):
    """style: plain (only documented `ignore`), vref (documented variant-level ref/ref_mut, Unwrap/TryUnwrap),
    whitelist (`#[try_into]` on the chosen variants), wild (any parameter anywhere, also undocumented ones)"""
    gk = rng.choice(["none", "none", "none", "T", "TU", "lt", "const", "where"])
    pool = PLAIN_TYPES + GENERICS[gk][2]
    if derive == "TryInto":
        pool = [t for t in pool if t in PLAIN_TYPES or t in TRYINTO_GENERIC_OK]
        if gk != "none":
            pool = [t for t in pool if t not in ("Vec<u8>",)]
        if len(pool) > 4:
            pool = rng.sample(pool, rng.choice([2, 3, 4]))      # few types => several variants share a tuple
    nv = rng.choice([1, 2, 2, 3, 3, 4, 4, 5, 6])
    names = rng.sample(NAMES, nv)
    # distinct snake names (two methods of one name would not compile)
    seen, vnames = set(), []
    for n in names:
        if snake(n) in seen:
            continue
        seen.add(snake(n))
        vnames.append(n)
    variants = []
    for n in vnames:
        raw = False
        if rng.random() < 0.08:
            cand = [r for r in RAW_NAMES if snake(r) not in seen]
            if cand:
                n = rng.choice(cand)
                seen.add(snake(n))
                raw = True
        kinds = ["unit", "tuple", "tuple", "tuple"] + (["named", "named"] if derive in ("IsVariant", "TryInto") else [])
        if style == "wild" and derive in ("Unwrap", "TryUnwrap") and rng.random() < 0.1:
            kinds = ["named"]
        kind = rng.choice(kinds)
        nf = 0 if kind == "unit" else rng.choice([0, 1, 1, 2, 2, 3] if kind == "tuple" else [1, 2, 3])
        fields = []
        for _ in range(nf):
            fa = None
            if derive == "TryInto" and rng.random() < 0.25:
                fa = ["ignore"]
            elif style == "wild" and rng.random() < 0.1:
                fa = rng.choice([["ignore"], [], ["ref"]])
            fields.append({"ty": rng.choice(pool), "attr": fa})
        variants.append({"name": n, "raw": raw, "kind": kind, "fields": fields, "attr": None})
    # generic parameters must be used
    used = set(f["ty"] for v in variants for f in v["fields"])
    need = {"T": ["T", "Vec<T>"], "U": ["U", "Option<U>"], "'a": ["&'a str"], "N": ["[u8; N]"]}
    if gk == "where":
        need = {"T": ["Tagged<T>"], "U": ["Cl<U>"]}        # the field types must need the where clause
    params = {"none": [], "T": ["T"], "TU": ["T", "U"], "lt": ["'a", "T"], "const": ["N"], "where": ["T", "U"]}[gk]
    for p in params:
        opts = [t for t in need[p] if t in pool or derive != "TryInto" or gk == "where"]
        opts = [t for t in opts if derive != "TryInto" or t in TRYINTO_GENERIC_OK]
        if not any(t in used for t in need[p]):
            if not opts:
                return gen_decl(rng, derive, style, k)
            kind = "tuple"
            nm = "G" + p.strip("'").upper() + "x"
            variants.append({"name": nm, "raw": False, "kind": kind, "fields": [{"ty": opts[0], "attr": None}], "attr": None})
    # attributes
    eattr = None
    if derive == "IsVariant":
        if style == "wild" and rng.random() < 0.3:
            eattr = rng.choice([[], ["ignore"], ["ref"]])
    else:
        r = rng.random()
        if style == "vsel":
            eattr = rng.sample(["owned", "ref", "ref_mut"], rng.choice([1, 1, 2, 2, 3])) if rng.random() < 0.7 else None
        elif style in ("plain", "vref", "whitelist"):
            if derive == "TryInto":
                eattr = rng.choice([None, ["owned"], ["ref"], ["owned", "ref"], ["owned", "ref", "ref_mut"], ["ref_mut"],
                                    ["ref", "ref_mut"], ["owned", "ref_mut"]])
            else:
                eattr = rng.choice([None, None, ["ref"], ["ref_mut"], ["ref", "ref_mut"]])
        else:
            eattr = rng.choice([None, [], ["owned"], ["ref"], ["ref_mut", "owned"], ["ignore"], ["ref", "ignore"],
                                ["owned", "ref", "ref_mut"], ["ref", "ref"]])
    for v in variants:
        r = rng.random()
        if style == "plain":
            if r < 0.25:
                v["attr"] = ["ignore"]
        elif style == "vref":
            if r < 0.2:
                v["attr"] = ["ignore"]
            elif r < 0.55:
                v["attr"] = rng.choice([["ref"], ["ref_mut"], ["ref", "ref_mut"]])
        elif style == "whitelist":
            if r < 0.5:
                v["attr"] = []
        elif style == "vsel":
            if r < 0.2:
                v["attr"] = ["ignore"]
            elif r < 0.65:
                v["attr"] = rng.sample(["owned", "ref", "ref_mut"], rng.choice([1, 1, 2, 3]))
        else:
            if r < 0.6:
                allowed = ["ignore", "owned", "ref", "ref_mut"]
                v["attr"] = rng.choice([[], ["ignore"], ["owned"], ["ref"], ["ref_mut"], ["ref", "ref_mut"],
                                        ["owned", "ref"], ["ref", "ignore"], ["ignore", "owned"],
                                        rng.sample(allowed, rng.randrange(0, 4))])
    if style == "vsel" and not any(is_selection(v["attr"]) for v in variants):
        variants[-1]["attr"] = [rng.choice([m for m in ["owned", "ref", "ref_mut"] if m not in (eattr or [])] or ["ref"])]
    if style == "vsel" and eattr is None:
        for v in variants:                  # nothing left to the first-match default
            if v["attr"] is None:
                v["attr"] = rng.choice([["owned"], ["ref"], ["ref_mut"], ["owned", "ref"], ["ignore"]])
        if all(v["attr"] == ["ignore"] for v in variants):
            variants[0]["attr"] = ["owned"]
    if style == "whitelist" and not any(v["attr"] == [] for v in variants):
        variants[0]["attr"] = []
    if style == "vref" and not any(v["attr"] and "ignore" not in v["attr"] for v in variants):
        variants[-1]["attr"] = ["ref"]
    # a named variant cannot be unwrapped: documented streams keep it ignored
    if derive in ("Unwrap", "TryUnwrap") and style != "wild":
        for v in variants:
            if v["kind"] == "named":
                v["attr"] = ["ignore"]
    return {"id": k, "name": "E%d" % k, "derive": derive, "style": style, "generics": gk, "attr": eattr, "variants": variants}


def attr_src(derive, a):
    if a is None:
        return ""
    if a == []:
        return "#[%s] " % ATTR[derive]
    return "#[%s(%s)] " % (ATTR[derive], ", ".join(a))


# ---- the full attribute syntax (nested lists, `not(..)`, several attributes, name-value): expansion-level tie
# attribute := "path" | "nv" | ["list", [item...]] ; item := name | [name, [item...]]

COQ_NAME = {"ignore": "NIgnore", "owned": "NOwned", "ref": "NRef", "ref_mut": "NRefMut", "not": "NNot"}


def ritem_src(it):
    if isinstance(it, str):
        return it
    return "%s(%s)" % (it[0], ", ".join(ritem_src(x) for x in it[1]))


def rattrs_src(derive, attrs):
    out = []
    for a in attrs:
        if a == "path":
            out.append("#[%s]" % ATTR[derive])
        elif a == "nv":
            out.append('#[%s = "x"]' % ATTR[derive])
        else:
            out.append("#[%s(%s)]" % (ATTR[derive], ", ".join(ritem_src(x) for x in a[1])))
    return "".join(x + " " for x in out)


def ritem_coq(it):
    if isinstance(it, str):
        return "MPath %s" % COQ_NAME.get(it, "NOther")
    return "MList %s [%s]" % (COQ_NAME.get(it[0], "NOther"), "; ".join(ritem_coq(x) for x in it[1]))


def rattrs_coq(attrs):
    out = []
    for a in attrs:
        out.append("RPath" if a == "path" else "RNameValue" if a == "nv" else "RList [%s]" % "; ".join(ritem_coq(x) for x in a[1]))
    return "[" + "; ".join(out) + "]"


def enrich_attr(rng, a, level):
    """a flat attribute written in the full syntax, sometimes with a construct the macro must reject"""
    if a is None:
        attrs = []
    elif a == []:
        attrs = [rng.choice(["path", ["list", []], ["list", [["not", []]]]])]
    else:
        items = []
        for p in a:
            r = rng.random()
            if p != "ignore" and r < 0.35:
                items.append([p, []])                       # owned() == owned
            else:
                items.append(p)
            if rng.random() < 0.15:
                items.append(["not", []])                   # not() is a no-op
        attrs = [["list", items]]
    r = rng.random()
    if r < 0.04:
        attrs = attrs + [rng.choice(["path", ["list", ["ignore"]]])]          # a second attribute
    elif r < 0.07:
        attrs = ["nv"]
    elif r < 0.16 and attrs and attrs[0] not in ("path", "nv"):
        bad = rng.choice([["owned", ["ignore"]], ["ref", [["not", []]]], ["not", ["ignore"]], ["not", [["not", []]]],
                          ["ignore", []], "forward", ["types", ["i32"]], "not", ["ref_mut", ["owned"]], ["owned", [["ref", []]]]])
        items = list(attrs[0][1])
        items.insert(rng.randrange(len(items) + 1), bad)
        attrs = [["list", items]]
    return attrs


def enrich(rng, d):
    d = json.loads(json.dumps(d))
    d["style"] = "rich"
    d["rich"] = True
    d["rattrs"] = enrich_attr(rng, d["attr"], "enum")
    for v in d["variants"]:
        v["rattrs"] = enrich_attr(rng, v["attr"], "variant")
        for f in v["fields"]:
            f["rattrs"] = enrich_attr(rng, f["attr"], "field") if rng.random() < 0.5 else enrich_attr(rng, None, "field") if f["attr"] is None else enrich_attr(rng, f["attr"], "field")
    return d


def any_attr_src(d, x):
    if d.get("rich"):
        return rattrs_src(d["derive"], x["rattrs"])
    return attr_src(d["derive"], x["attr"])


def vident(v):
    return ("r#" if v["raw"] else "") + v["name"]


def fname(j):
    return "f%d" % j


def decl_src(d, for_crate=False):
    """Rust source of the enum"""
    gdecl = GENERICS[d["generics"]][0]
    vs = []
    for v in d["variants"]:
        a = any_attr_src(d, v)
        if v["kind"] == "unit":
            body = ""
        elif v["kind"] == "tuple":
            body = "(" + ", ".join(any_attr_src(d, f) + f["ty"] for f in v["fields"]) + ")"
        else:
            body = " { " + ", ".join(any_attr_src(d, f) + fname(j) + ": " + f["ty"]
                                     for j, f in enumerate(v["fields"])) + " }"
        vs.append("    %s%s%s," % (a, vident(v), body))
    head = ""
    if for_crate:
        head = "#[derive(Clone, PartialEq, Debug, derive_more::%s)]\n" % d["derive"]
    ea = rattrs_src(d["derive"], d["rattrs"]) if d.get("rich") else attr_src(d["derive"], d["attr"])
    return "%s%spub enum %s%s%s {\n%s\n}" % (head, ea.replace("] ", "]\n"), d["name"], gdecl, WHERE.get(d["generics"], ""),
                                            "\n".join(vs))


# ------------------------------------------------------------------ the documented semantics (oracle)

def documented(d):
    """is the declaration written with the documented attribute forms only (impl/doc/*.md)?"""
    if d.get("rich"):
        return False
    dv = d["derive"]
    va = [v["attr"] for v in d["variants"]]
    fa = [f["attr"] for v in d["variants"] for f in v["fields"]]
    if dv == "IsVariant":
        return d["attr"] is None and all(a in (None, ["ignore"]) for a in va) and all(a is None for a in fa)
    # a variant without any attribute next to attributed ones is subject to the first-match whitelisting rule; a
    # variant-level list is therefore read by the oracle only next to an enum-level selection, or when every variant
    # carries an attribute of its own (then nothing is left to a default)
    anchored = d["attr"] is not None or all(a is not None for a in va)
    if dv in ("Unwrap", "TryUnwrap"):
        # records cannot be unwrapped (the property ranges over unit and tuple variants): they must be ignored
        return (d["attr"] is None or is_selection(d["attr"])) and all(a is None for a in fa) and \
            all(a in (None, ["ignore"]) or (is_selection(a) and ("owned" not in a or anchored)) for a in va) and \
            all(v["attr"] == ["ignore"] for v in d["variants"] if v["kind"] == "named")
    ok_e = d["attr"] is None or is_selection(d["attr"])
    only_ign = all(a in (None, ["ignore"]) for a in va)
    # `#[try_into]` on the variants to derive for: documented only vaguely; taken as documented when it is the
    # only attribute in sight (with an enum-level attribute the code enables every variant again - see report)
    only_wl = all(a in (None, []) for a in va) and d["attr"] is None
    # owned/ref/ref_mut on a variant: try_into.md shows the selection on the enum only, but the attribute is accepted
    # on variants and the property ranges over per-variant selections. The oracle reads it as "the variant
    # additionally selects these kinds" (see `anchored` above).
    vsel = anchored and all(a in (None, ["ignore"]) or is_selection(a) for a in va)
    # the first-match defect has a TryInto face as well: when the first attributed variant names ref_mut together with
    # ref or owned, the by-value default is switched off for the others (utils.rs:448-450). Those declarations are
    # inside the oracle; their failures get the class `first-match-owned-default` (see owned_default_victim).
    return ok_e and (only_ign or only_wl or vsel) and all(a in (None, ["ignore"]) for a in fa)


def owned_default_quirk(d):
    first = next((v["attr"] for v in d["variants"] if v["attr"] is not None), None)
    return first is not None and "ref_mut" in first and ("ref" in first or "owned" in first) and "owned" not in (d["attr"] or [])


SEL = {"owned": "owned", "ref": "ref", "ref_mut": "mut"}


def owned_default_victim(d, v):
    """a non-ignored variant that loses its by-value form because State::new_impl computed the owned default as false
    from the first attribute-bearing variant: neither the enum nor the variant itself says `owned`"""
    return owned_default_quirk(d) and "owned" not in (v["attr"] or [])


def is_selection(a):
    """a non-empty, duplicate-free list of owned / ref / ref_mut"""
    return a is not None and len(a) > 0 and set(a) <= set(SEL) and len(set(a)) == len(a)


def doc_modes(d, v):
    """reference kinds the declaration selects for variant v: the enum-level list plus the variant's own; the by-value
    form is the default of all three derives and no attribute takes it away (unwrap.md / try_unwrap.md generate
    `unwrap_foo(self)` next to `_ref`; try_into.md: "the default is #[try_into(owned)]")"""
    modes = {"owned"}
    for a in (d["attr"] or []) + (v["attr"] or []):
        if a in SEL:
            modes.add(SEL[a])
    return modes


def doc_ignored(d, v):
    """documented meaning of `ignored variant`"""
    if d["derive"] == "TryInto" and any(x["attr"] == [] for x in d["variants"]):
        return v["attr"] != []            # `#[try_into]` marks the variants to derive for
    return v["attr"] == ["ignore"]


def doc_required(d):
    """accessors the documentation promises (a subset check: extras are tolerated, e.g. the by-value forms)"""
    dv = d["derive"]
    req = []
    for i, v in enumerate(d["variants"]):
        if doc_ignored(d, v):
            continue
        if dv == "IsVariant":
            req.append(("fn", i, "ref"))
        elif dv in ("Unwrap", "TryUnwrap"):
            for m in MODES:
                if m in doc_modes(d, v):
                    req.append(("fn", i, m))
        else:
            tys = tuple(f["ty"] for f in v["fields"] if f["attr"] != ["ignore"])
            for m in MODES:
                if m in doc_modes(d, v):
                    req.append(("impl", m, tys))
    return req


def expected_name(d, i, mode):
    return PREFIX[d["derive"]] + snake(d["variants"][i]["name"]) + (SUFFIX[mode] if d["derive"] != "IsVariant" else "")


def oracle_obs(d, acc, vi):
    """what the property text says accessor `acc` does on a value of variant `vi` (documented declarations):
    the list of acceptable observations (more than one only for the tolerated extra by-value conversion)"""
    dv = d["derive"]
    y = d["variants"][vi]
    if acc[0] == "fn":
        _, x, mode = acc
        if dv == "IsVariant":
            return [("B", x == vi)]
        if x == vi:
            return [("R" if mode == "owned" else "A", list(range(len(y["fields"]))))]
        return [("P",)] if dv == "Unwrap" else [("E", True)]
    _, mode, tys = acc
    ok = ("R" if mode == "owned" else "A", [j for j, f in enumerate(y["fields"]) if f["attr"] != ["ignore"]])
    if not doc_ignored(d, y) and tuple(f["ty"] for f in y["fields"] if f["attr"] != ["ignore"]) == tuple(tys):
        if mode in doc_modes(d, y):
            return [ok]
        return [("E", True)]              # this variant did not select the reference kind
    return [("E", True)]


def unselected(d, real):
    """accessors of a reference kind that no attribute selects / of variants the declaration ignores"""
    out = []
    if d["derive"] == "TryInto":
        anym = set()
        for v in d["variants"]:
            if not doc_ignored(d, v):
                anym |= doc_modes(d, v)
        for a in real:
            if a[1] != "owned" and a[1] not in anym:
                out.append(("unselected", a))
        return out
    byname = {}
    for i, v in enumerate(d["variants"]):
        for m in MODES:
            byname[(expected_name(d, i, m), m)] = i
    for a in real:
        i = byname.get((a[1], a[2]))
        if i is None:
            continue
        v = d["variants"][i]
        if doc_ignored(d, v):
            out.append(("ignored", a))
        elif d["derive"] != "IsVariant" and a[2] not in doc_modes(d, v):
            out.append(("unselected", a))
    return out


def known_variant_ref_shape(d, missing):
    """is every missing accessor explained by the recorded defect `variant-level-ref-attr` (a reference kind selected
    on the variant only; or an attribute-less variant of an enum without enum-level attribute next to a variant
    carrying a selection)?"""
    if d["derive"] not in ("Unwrap", "TryUnwrap"):
        return False
    byname = {}
    for i, v in enumerate(d["variants"]):
        for m in MODES:
            byname[(expected_name(d, i, m), m)] = i
    sel_somewhere = any(v["attr"] and "ignore" not in v["attr"] for v in d["variants"])
    for k in missing:
        i = byname.get((k[1], k[2]))
        if i is None:
            return False
        v = d["variants"][i]
        enum_modes = set(SEL[a] for a in (d["attr"] or []) if a in SEL)
        only_on_variant = k[2] != "owned" and k[2] not in enum_modes and SEL_INV[k[2]] in (v["attr"] or [])
        whitelisted_out = v["attr"] is None and d["attr"] is None and sel_somewhere
        # third symptom of the same first-match rule (utils.rs:448-450): the by-value default is switched off for the
        # whole enum when the first attributed variant names ref_mut together with ref or owned
        owned_default_off = k[2] == "owned" and owned_default_quirk(d)
        if not (only_on_variant or whitelisted_out or owned_default_off):
            return False
    return True


SEL_INV = {"owned": "owned", "ref": "ref", "mut": "ref_mut"}


# ------------------------------------------------------------------ the real expansion (in-process harness)

def split_top(s):
    parts, depth, cur = [], 0, ""
    for c in s:
        if c in "(<[":
            depth += 1
        elif c in ")>]":
            depth -= 1
        if c == "," and depth == 0:
            parts.append(cur)
            cur = ""
        else:
            cur += c
    if cur.strip():
        parts.append(cur)
    return [p.strip() for p in parts]


def nospace(s):
    return re.sub(r"\s+", "", s)


TOK2TY = {nospace(v[1]): k for k, v in TYPES.items()}


def real_accessors(d, resp):
    """-> ('ok', [accessor...], header problems) | ('err', msg) | ('panic', msg) | ('unparsable', msg) | ('unreadable', what);
    accessor = ('fn', name, mode) | ('impl', mode, tys). Never raises: whatever cannot be read is an outcome."""
    try:
        return _real_accessors(d, resp)
    except Exception as e:                                   # noqa: BLE001 - any surprise in the harness output
        return ("unreadable", "%s: %s; response %s" % (type(e).__name__, e, json.dumps(resp, default=str)[:1500]))


def _real_accessors(d, resp):
    if not isinstance(resp, dict):
        return ("unreadable", repr(resp)[:500])
    if "err" in resp:
        return ("err", resp["err"])
    if "panic" in resp or "crash" in resp:
        return ("panic", (resp.get("panic") or resp.get("crash")))
    if "ok" not in resp:
        return ("unreadable", json.dumps(resp, default=str)[:1500])
    items = resp.get("items")
    if isinstance(items, dict) and "unparsable" in items:
        return ("unparsable", "%s; tokens: %s" % (items["unparsable"], str(resp["ok"])[:1200]))
    if not isinstance(items, list):
        return ("unreadable", json.dumps(resp, default=str)[:1500])
    accs = []
    header = []
    want_params = [nospace(x) for x in GEN_PARAMS[d["generics"]]]
    want_preds = WHERE_PREDS.get(d["generics"], [])
    for it in items:
        if it.get("kind") != "impl":
            return ("unreadable", "unexpected item %r" % (it,))
        have_params = [nospace(x) for x in it.get("params", [])]
        have_preds = [nospace(x) for x in it.get("where", [])]
        for x in want_params:
            if x not in have_params:
                header.append(("impl-generics-lost", x, it.get("trait"), it.get("self_ty")))
        for x in want_preds:
            if x not in have_preds:
                header.append(("user-where-clause-lost", x, it.get("trait"), it.get("self_ty")))
        if d["derive"] != "TryInto":
            for m in it["members"]:
                mm = re.match(r"(?:const )?fn (\S+) \(([^)]*)\)", m["sig"])
                recv = nospace(mm.group(2))
                mode = {"self": "owned", "&self": "ref", "&mutself": "mut"}[recv]
                accs.append(("fn", mm.group(1), mode))
        else:
            tr = nospace(it["trait"])
            mode = "mut" if "<&'__deriveMoreLifetimemut" in tr else ("ref" if "<&'__deriveMoreLifetime" in tr else "owned")
            st = it["self_ty"].strip()
            if not (st.startswith("(") and st.endswith(")")):
                return ("unreadable", "Self type %r" % st)
            tys = []
            for p in split_top(st[1:-1]):
                p = nospace(p)
                p = re.sub(r"^&'__deriveMoreLifetime(mut)?", "", p)
                tys.append(TOK2TY.get(p, "?" + p))
            accs.append(("impl", mode, tuple(tys)))
    return ("ok", accs, header)


# ------------------------------------------------------------------ the model (Coq)

def coq_attr(a):
    if a is None:
        return "None"
    return "(Some [%s])" % "; ".join(COQ_PARAM[p] for p in a)


def type_ids(d):
    ids = {}
    for v in d["variants"]:
        for f in v["fields"]:
            ids.setdefault(f["ty"], len(ids))
    return ids


def coq_enum(d):
    ids = type_ids(d)
    vs = []
    for v in d["variants"]:
        fs = "; ".join("{| f_ty := %d; f_attr := %s |}" % (ids[f["ty"]], coq_attr(f["attr"])) for f in v["fields"])
        vs.append("{| v_ident := {| id_raw := %s; id_name := %s |}; v_kind := %s; v_fields := [%s]; v_attr := %s |}" % (
            "true" if v["raw"] else "false", coq_str(v["name"]),
            {"unit": "KUnit", "tuple": "KTuple", "named": "KNamed"}[v["kind"]], fs, coq_attr(v["attr"])))
    return "{| e_attr := %s; e_variants := [%s] |}" % (coq_attr(d["attr"]), "; ".join(vs))


def coq_renum(d):
    ids = type_ids(d)
    vs = []
    for v in d["variants"]:
        fs = "; ".join("{| rf_ty := %d; rf_attrs := %s |}" % (ids[f["ty"]], rattrs_coq(f["rattrs"])) for f in v["fields"])
        vs.append("{| rv_ident := {| id_raw := %s; id_name := %s |}; rv_kind := %s; rv_fields := [%s]; rv_attrs := %s |}" % (
            "true" if v["raw"] else "false", coq_str(v["name"]),
            {"unit": "KUnit", "tuple": "KTuple", "named": "KNamed"}[v["kind"]], fs, rattrs_coq(v["rattrs"])))
    return "{| re_attrs := %s; re_variants := [%s] |}" % (rattrs_coq(d["rattrs"]), "; ".join(vs))


def coq_expr(d):
    """the model's table; failure messages are rendered by the model (Model.panic_msg, try_unwrap_error_display,
    try_into_error_display)"""
    en = coq_str(d["name"])
    if d["derive"] == "TryInto":
        tt = "[" + "; ".join("(%d, %s)" % (i, coq_str(TYPES[t][1])) for t, i in type_ids(d).items()) + "]"
        fn = "table_try_into_m %s" % tt
    else:
        tab = "[" + "; ".join("(%s, %s)" % (coq_str(v["name"]), coq_str(snake(v["name"]))) for v in d["variants"]) + "]"
        fn = {"IsVariant": "table_is %s" % tab, "Unwrap": "table_unwrap_m %s %s" % (en, tab),
              "TryUnwrap": "table_try_unwrap_m %s %s" % (en, tab)}[d["derive"]]
    if d.get("rich"):
        return "rich _ (fun e => %s e) %s" % (fn, coq_renum(d))
    return "%s %s" % (fn, coq_enum(d))


def m_ident(t):
    return ("r#" if t["id_raw"] == "true" else "") + py_str(t["id_name"])


def m_objs(rs):
    """[Val 0; Val 1] -> ('R',[0,1]) ; [Ref ..] / [RefMut ..] -> ('A', [...])"""
    if not rs:
        return None, []
    kinds = set(r[0] for r in rs)
    assert len(kinds) == 1, rs
    return kinds.pop(), [r[1] for r in rs]


def model_table(d, term):
    """-> ('ok', [(accessor, [obs per value])]) | ('err',) | ('panic',)"""
    if term == "EErr":
        return ("err",)
    if term == "EPanic":
        return ("panic",)
    assert term[0] == "EOk", term
    en = d["name"]
    ids = type_ids(d)
    inv = {v: k for k, v in ids.items()}
    out = []
    for row in term[1]:
        if d["derive"] == "IsVariant":
            name, obs = row
            out.append((("fn", py_str(name), "ref"), [("B", o == "true") for o in obs]))
        elif d["derive"] in ("Unwrap", "TryUnwrap"):
            name, mode, template, obs = row
            name = py_str(name)
            template = py_str(template)          # Model.panic_msg / try_unwrap_error_display with a hole for the variant
            mode = COQ_MODE[mode]
            res = []
            for o in obs:
                if o in ("Stuck", "TStuck"):
                    res.append(("STUCK",))
                elif o[0] in ("Returns", "TOk"):
                    k, idx = m_objs(o[1])
                    res.append(("R" if mode == "owned" else "A", idx))
                    assert k in (None, {"owned": "Val", "ref": "Ref", "mut": "RefMut"}[mode]), (k, mode)
                elif o[0] == "Panics":
                    assert py_str(o[1]) == name
                    res.append(("P", template.replace("\0", m_ident(o[2]))))
                elif o[0] == "TErr":
                    assert o[1][0] == "Whole" and COQ_MODE[o[1][1]] == mode and py_str(o[2]) == name, o
                    res.append(("E", True, template.replace("\0", m_ident(o[3]))))
                else:
                    raise ValueError(o)
            out.append((("fn", name, mode), res))
        else:
            mode, tys, msg, obs = row
            mode = COQ_MODE[mode]
            tys = tuple(inv[t] for t in tys)
            msg = py_str(msg)                     # Model.try_into_error_display
            res = []
            for o in obs:
                if o == "IStuck":
                    res.append(("STUCK",))
                elif o[0] == "IOk":
                    k, idx = m_objs(o[1])
                    res.append(("R" if mode == "owned" else "A", idx))
                else:
                    assert o[0] == "IErr" and COQ_MODE[o[1][1]] == mode, o
                    res.append(("E", True, msg))
            out.append((("impl", mode, tys), res))
    return ("ok", out)


# ------------------------------------------------------------------ the generated crate (real macro, real rustc)

SHARED_RS = r'''
#![allow(warnings)]
use std::panic::{catch_unwind, AssertUnwindSafe};

pub fn pmsg(e: Box<dyn std::any::Any + Send>) -> String {
    if let Some(s) = e.downcast_ref::<&str>() { s.to_string() }
    else if let Some(s) = e.downcast_ref::<String>() { s.clone() }
    else { "<non-string panic payload>".to_string() }
}
pub fn addr<T>(r: &T) -> usize { r as *const T as *const u8 as usize }
pub fn idx(fa: &[usize], a: &[usize]) -> String {
    let v: Vec<String> = a.iter().map(|x| match fa.iter().position(|y| y == x) { Some(i) => i.to_string(), None => "-1".to_string() }).collect();
    v.join(",")
}
pub fn one(line: &str) { println!("{}", line.replace('\n', "\\n")); }
pub fn guard<F: FnOnce() -> String>(id: &str, f: F) {
    match catch_unwind(AssertUnwindSafe(f)) {
        Ok(s) => one(&format!("{}\t{}", id, s)),
        Err(e) => one(&format!("{}\tX:{}", id, pmsg(e))),
    }
}
pub fn quiet() { std::panic::set_hook(Box::new(|_| {})); }
#[derive(Clone, PartialEq, Debug)]
pub struct Tagged<T: Copy>(pub T);
#[derive(Clone, PartialEq, Debug)]
pub struct Cl<U: Clone>(pub U);
'''

SEP = "\x1f"


def concrete(ty):
    return TYPES[ty][0]


def tuple_ty(tys, ref):
    pre = {"owned": "", "ref": "&", "mut": "&mut "}[ref]
    ts = [pre + concrete(t) for t in tys]
    if len(ts) == 1:
        return ts[0]
    return "(" + ", ".join(ts) + ")"


def comps(n, var="t"):
    """expressions of the components of a returned tuple of arity n"""
    if n == 0:
        return []
    if n == 1:
        return [var]
    return ["%s.%d" % (var, j) for j in range(n)]


def fmt_owned(n):
    if n == 0:
        return 'String::from("R:")'
    return 'format!("R:%s", %s)' % (SEP.join(["{:?}"] * n), ", ".join(comps(n)))


def addrs(n, mode):
    cs = comps(n)
    if mode == "mut":
        cs = ["&*%s" % c for c in cs]
    return "vec![%s]" % ", ".join("addr(%s)" % c for c in cs) if cs else "Vec::<usize>::new()"


def module_src(d, accs):
    """Rust module exercising every accessor in `accs` on one value per variant.
    accs: ('fn', name, mode, nfields) | ('impl', mode, tys)"""
    en = d["name"]
    ec = en + GENERICS[d["generics"]][1]
    L = ["pub mod m%d {" % d["id"], "    use crate::shared::*;", "    use std::convert::TryFrom;",
         "    use std::panic::{catch_unwind, AssertUnwindSafe};"]
    L.append("    " + decl_src(d, for_crate=True).replace("\n", "\n    "))
    L.append("    type EC = %s;" % ec)
    # values: field object j of variant i carries the code c (unique in the enum)
    c = 0
    arms, farms = [], []
    for i, v in enumerate(d["variants"]):
        vals = []
        for j, f in enumerate(v["fields"]):
            c += 1
            vals.append(TYPES[f["ty"]][2](c))
        if v["kind"] == "unit":
            arms.append("            %d => %s::%s," % (i, en, vident(v)))
            farms.append("            %s::%s => vec![]," % (en, vident(v)))
        elif v["kind"] == "tuple":
            arms.append("            %d => %s::%s(%s)," % (i, en, vident(v), ", ".join(vals)))
            farms.append("            %s::%s(%s) => vec![%s]," % (en, vident(v), ", ".join("g%d" % j for j in range(len(vals))),
                                                                  ", ".join("addr(g%d)" % j for j in range(len(vals)))))
        else:
            arms.append("            %d => %s::%s { %s }," % (i, en, vident(v), ", ".join("%s: %s" % (fname(j), x) for j, x in enumerate(vals))))
            farms.append("            %s::%s { %s } => vec![%s]," % (en, vident(v), ", ".join("%s: g%d" % (fname(j), j) for j in range(len(vals))),
                                                                     ", ".join("addr(g%d)" % j for j in range(len(vals)))))
    L += ["    fn val(i: usize) -> EC {", "        match i {"] + arms + ["            _ => unreachable!(),", "        }", "    }"]
    L += ["    fn field_addrs(v: &EC) -> Vec<usize> {", "        match v {"] + farms + ["        }", "    }"]
    L.append("    pub fn run() {")
    nvals = len(d["variants"])
    for ai, acc in enumerate(accs):
        for vi in range(nvals):
            cid = "%d:%d:%d" % (d["id"], ai, vi)
            if acc[0] == "fn":
                _, name, mode, n = acc
                call = "v.%s()" % name
                if d["derive"] == "IsVariant":
                    body = 'let v = val(%d); format!("B:{}", %s)' % (vi, call)
                elif d["derive"] == "Unwrap":
                    if mode == "owned":
                        body = ('let v = val(%d); match catch_unwind(AssertUnwindSafe(move || %s)) { Ok(t) => %s, '
                                'Err(e) => format!("P:{}", pmsg(e)) }' % (vi, call, fmt_owned(n)))
                    else:
                        mut = "mut " if mode == "mut" else ""
                        body = ('let %sv = val(%d); let fa = field_addrs(&v); '
                                'match catch_unwind(AssertUnwindSafe(|| { let t = %s; %s })) { '
                                'Ok(a) => format!("A:{}", idx(&fa, &a)), Err(e) => format!("P:{}", pmsg(e)) }'
                                % (mut, vi, call, addrs(n, mode)))
                else:
                    if mode == "owned":
                        body = ('let v = val(%d); let orig = v.clone(); match %s { Ok(t) => %s, '
                                'Err(e) => format!("E:{}:{}", e.input == orig, e) }' % (vi, call, fmt_owned(n)))
                    elif mode == "ref":
                        body = ('let v = val(%d); let fa = field_addrs(&v); match %s { '
                                'Ok(t) => { let a = %s; format!("A:{}", idx(&fa, &a)) }, '
                                'Err(e) => format!("E:{}:{}", std::ptr::eq(e.input, &v), e) }' % (vi, call, addrs(n, mode)))
                    else:
                        body = ('let mut v = val(%d); let orig = v.clone(); let fa = field_addrs(&v); let p = &v as *const EC as usize; '
                                'match %s { Ok(t) => { let a = %s; format!("A:{}", idx(&fa, &a)) }, '
                                'Err(e) => { let same = (&*e.input as *const EC as usize) == p && *e.input == orig; '
                                'format!("E:{}:{}", same, e) } }' % (vi, call, addrs(n, mode)))
            else:
                _, mode, tys = acc
                n = len(tys)
                tt = tuple_ty(tys, mode)
                if mode == "owned":
                    body = ('let v = val(%d); let orig = v.clone(); match <%s as TryFrom<EC>>::try_from(v) { Ok(t) => %s, '
                            'Err(e) => format!("E:{}:{}", e.input == orig, e) }' % (vi, tt, fmt_owned(n)))
                elif mode == "ref":
                    body = ('let v = val(%d); let fa = field_addrs(&v); match <%s as TryFrom<&EC>>::try_from(&v) { '
                            'Ok(t) => { let a = %s; format!("A:{}", idx(&fa, &a)) }, '
                            'Err(e) => format!("E:{}:{}", std::ptr::eq(e.input, &v), e) }' % (vi, tt, addrs(n, mode)))
                else:
                    body = ('let mut v = val(%d); let orig = v.clone(); let fa = field_addrs(&v); let p = &v as *const EC as usize; '
                            'match <%s as TryFrom<&mut EC>>::try_from(&mut v) { '
                            'Ok(t) => { let a = %s; format!("A:{}", idx(&fa, &a)) }, '
                            'Err(e) => { let same = (&*e.input as *const EC as usize) == p && *e.input == orig; '
                            'format!("E:{}:{}", same, e) } }' % (vi, tt, addrs(n, mode)))
            L.append('        guard("%s", || { %s });' % (cid, body))
    L.append("    }")
    L.append("}")
    return "\n".join(L)


def debug_map(d):
    """per variant: Debug rendering of field j -> j"""
    c = 0
    out = []
    for v in d["variants"]:
        m = {}
        for j, f in enumerate(v["fields"]):
            c += 1
            m[TYPES[f["ty"]][3](c)] = j
        out.append(m)
    return out


def parse_obs(d, vi, s, dmap):
    """one printed observation -> canonical tuple"""
    k, _, rest = s.partition(":")
    if k == "B":
        return ("B", rest == "true")
    if k == "R":
        if rest == "":
            return ("R", [])
        return ("R", [dmap[vi].get(x, -1) for x in rest.split(SEP)])
    if k == "A":
        return ("A", [int(x) for x in rest.split(",")] if rest else [])
    if k == "P":
        return ("P", rest)
    if k == "E":
        same, _, msg = rest.partition(":")
        return ("E", same == "true", msg)
    return ("X", s)


NBINS = 8


def build_and_run(chk, cases, tag):
    """cases: [(decl, accs)] -> {case id: observation string}; compile errors are reported and the offending
    modules dropped (one retry)"""
    name = "c11rt_%s" % tag
    for attempt in range(3):
        bins = [[] for _ in range(NBINS)]
        for k, (d, accs) in enumerate(cases):
            bins[k % NBINS].append((d, accs))
        files = {"shared.rs": SHARED_RS}
        line_owner = {}
        for b, items in enumerate(bins):
            src = ["#![allow(warnings)]", '#[path = "../shared.rs"]', "mod shared;"]
            for d, accs in items:
                ms = module_src(d, accs)
                start = sum(x.count("\n") + 1 for x in src) + 1
                src.append(ms)
                end = start + ms.count("\n")
                line_owner[(b, start, end)] = d["id"]
            src.append("fn main() {\n    shared::quiet();")
            for d, accs in items:
                src.append("    m%d::run();" % d["id"])
            src.append("}")
            files["bin/p%d.rs" % b] = "\n".join(src) + "\n"
        dname = common.make_crate(name, "fn main() {}\n", extra_files=files)
        rc, out = common.cargo(dname, ["build", "--quiet", "--bins", "--message-format=json"], timeout=1500)
        if rc == 0:
            break
        bad = {}
        for line in out.splitlines():
            if not line.startswith("{"):
                continue
            try:
                m = json.loads(line)
            except Exception:
                continue
            msg = m.get("message")
            if m.get("reason") != "compiler-message" or not msg or msg.get("level") != "error":
                continue
            for sp in msg.get("spans", []):
                mm = re.search(r"bin/p(\d+)\.rs$", sp.get("file_name", ""))
                if not mm:
                    continue
                b = int(mm.group(1))
                for (bb, s, e), did in line_owner.items():
                    if bb == b and s <= sp["line_start"] <= e:
                        bad.setdefault(did, msg.get("rendered", msg.get("message", ""))[:1500])
        if not bad:
            raise common.BuildError("generated crate %s does not build and no module could be blamed:\n%s" % (name, out[-3000:]))
        for d, accs in cases:
            if d["id"] in bad:
                chk.violation(compile_class(d, bad[d["id"]]), {"decl": d, "source": decl_src(d, for_crate=True), "rustc": bad[d["id"]]},
                              "the expansion of #[derive(%s)] on %s is rejected by rustc: %s" %
                              (d["derive"], decl_src(d).replace("\n", " "), bad[d["id"]].splitlines()[0] if bad[d["id"]] else ""))
        cases = [(d, a) for d, a in cases if d["id"] not in bad]
    else:
        raise common.BuildError("generated crate %s still does not build after dropping the blamed modules" % name)
    obs = {}
    tdir = common.rt_target_dir()
    for b in range(NBINS):
        p = subprocess.run([os.path.join(tdir, "debug", "p%d" % b)], stdout=subprocess.PIPE, stderr=subprocess.PIPE,
                           text=True, timeout=600, errors="replace")
        if p.returncode != 0:
            raise common.BuildError("generated binary p%d of %s failed (rc %s): %s" % (b, name, p.returncode, p.stderr[-1500:]))
        for line in p.stdout.splitlines():
            cid, _, o = line.partition("\t")
            obs[cid] = o.replace("\\n", "\n")
    common.cleanup_scratch(name)
    return obs, cases


def tuple_field_collision(accs):
    """two by-value impls whose Self types rustc sees as the same type: one keyed by a single tuple-typed field, the
    other by the fields spelling that tuple (KNOWN_FINDINGS try-into-tuple-field-collides)"""
    owned = set(a[2] for a in accs if a[0] == "impl" and a[1] == "owned")
    for tys in owned:
        if len(tys) == 1 and tys[0].startswith("(") and tys[0].endswith(")"):
            comps = tuple(split_top(tys[0][1:-1]))
            if len(comps) >= 2 and comps in owned:
                return (tys, comps)
    return None


def compile_class(d, msg):
    if d["derive"] == "TryInto" and "E0119" in msg:
        tys = [tuple(f["ty"] for f in v["fields"] if f["attr"] != ["ignore"]) for v in d["variants"]
               if "ignore" not in (v["attr"] or [])]
        if tuple_field_collision([("impl", "owned", t) for t in tys]):
            return "try-into-tuple-field-collides"
    if d["generics"] == "where" and ("E0277" in msg or "E0310" in msg or "E0309" in msg):
        return "user-where-clause-lost"
    return "compile-error:%s" % d["derive"]


# ------------------------------------------------------------------ classes of findings

def has_variant_ref(d):
    return d["derive"] in ("Unwrap", "TryUnwrap") and any(v["attr"] and ("ref" in v["attr"] or "ref_mut" in v["attr"]) for v in d["variants"])


# ------------------------------------------------------------------ fixed corpus (documented examples + probes)

def V(name, kind="unit", tys=(), attr=None, raw=False, fattrs=None):
    return {"name": name, "raw": raw, "kind": kind, "attr": attr,
            "fields": [{"ty": t, "attr": (fattrs or {}).get(j)} for j, t in enumerate(tys)]}


def corpus():
    C = []

    def add(derive, generics, attr, variants, style="corpus"):
        C.append({"derive": derive, "style": style, "generics": generics, "attr": attr, "variants": variants})
    # impl/doc/is_variant.md, unwrap.md, try_unwrap.md
    add("IsVariant", "T", None, [V("Just", "tuple", ["T"]), V("Nothing")])
    for dv in ("Unwrap", "TryUnwrap"):
        add(dv, "T", ["ref"], [V("Just", "tuple", ["T"]), V("Nothing")])
        add(dv, "T", ["ref", "ref_mut"], [V("Just", "tuple", ["T"]), V("Nothing"), V("Pair", "tuple", ["T", "i32", "T"])])
        # documented: `#[unwrap(ref)]` on a variant
        add(dv, "none", None, [V("A", "tuple", ["i32"], attr=["ref"]), V("B", "tuple", ["u8"])])
        add(dv, "none", ["ref"], [V("A", "tuple", ["i32"], attr=["ref_mut"]), V("B", "tuple", ["u8"])])
        add(dv, "none", None, [V("A", "tuple", ["i32", "i32", "i32"]), V("B", "tuple", ["i32", "i32", "i32"]), V("C", attr=["ignore"])])
        add(dv, "none", None, [V("fn", "tuple", ["i32"], raw=True), V("B")])
    # impl/doc/try_into.md
    add("TryInto", "none", None, [V("SmallInt", "tuple", ["i32"]), V("BigInt", "tuple", ["u64"]), V("TwoSmallInts", "tuple", ["i32", "i32"]),
                                  V("NamedSmallInts", "named", ["u64", "u64"]), V("UnsignedOne", "tuple", ["u8"]),
                                  V("UnsignedTwo", "tuple", ["u8"]), V("NotImportant", attr=["ignore"])])
    add("TryInto", "none", ["owned", "ref", "ref_mut"], [V("Int", "tuple", ["i32"]), V("String", "tuple", ["String"]), V("Unit")])
    add("TryInto", "none", ["owned", "ref", "ref_mut"],
        [V("A", "tuple", ["u8", "i32"], fattrs={0: ["ignore"]}), V("B", "named", ["i32", "u8", "u8"], fattrs={1: ["ignore"], 2: ["ignore"]}),
         V("C", "tuple", ["i32"]), V("D", "tuple", ["u8", "i32", "u8"], fattrs={1: ["ignore"]}), V("E", "tuple", ["u8", "u8"]),
         V("U1"), V("U2", "tuple", []), V("U3", "tuple", ["i32"], fattrs={0: ["ignore"]})])
    add("TryInto", "none", ["ref"], [V("A", "tuple", ["i32"], attr=[]), V("B", "tuple", ["i32"]), V("C", "tuple", ["u8"], attr=[])])
    add("TryInto", "none", ["owned", "ref"], [V("Small", "tuple", ["i32"]), V("Big", "tuple", ["u64"], attr=["ref_mut"]),
                                              V("Other", "tuple", ["u64"]), V("Skip", "tuple", ["u64"], attr=["ignore"])])
    add("TryInto", "T", ["ref_mut"], [V("A", "tuple", ["Vec<T>", "i32"], attr=["owned"]), V("B", "named", ["Vec<T>", "i32"], attr=["ref"]),
                                      V("C", "tuple", ["Vec<T>", "i32"]), V("D", attr=["ref", "owned"])])
    # raw KEYWORD variants (unit / tuple / named, ignored and not): the pattern must keep `r#`
    for dv in DERIVES:
        named = dv in ("IsVariant", "TryInto")
        add(dv, "none", ["ref", "ref_mut"] if dv != "IsVariant" else None,
            [V("type", "tuple", ["String"], raw=True), V("match", "tuple", ["u8", "u8"], raw=True), V("loop", raw=True),
             V("fn", "tuple", ["u8", "u8"], raw=True, attr=["ignore"]), V("Ident", "tuple", ["String"]),
             V("struct", "named", ["i32", "u8"], raw=True, attr=None if named else ["ignore"]),
             V("while", "named", ["i32"], raw=True, attr=["ignore"])])
    # bounds only in a where clause that the field types need, reference kinds selected
    for dv in DERIVES:
        add(dv, "where", ["owned", "ref", "ref_mut"] if dv == "TryInto" else (["ref", "ref_mut"] if dv != "IsVariant" else None),
            [V("One", "tuple", ["Tagged<T>"]), V("Other", "tuple", ["Tagged<T>"]), V("Many", "tuple", ["Cl<U>", "u8"]),
             V("Skipped", "tuple", ["Cl<U>", "u8"], attr=["ignore"]), V("Nothing")])
    # KNOWN_FINDINGS try-into-tuple-field-collides, pinned
    add("TryInto", "none", None, [V("C", "tuple", ["(i32, u8)"]), V("N", "tuple", ["i32", "u8"])])
    add("TryInto", "none", ["ref"], [V("Small", "tuple", ["i32"], attr=["owned"]), V("Big", "tuple", ["i32"])])
    add("TryInto", "none", None, [V("A", "tuple", ["u8"], attr=["owned"]), V("B", "tuple", ["u8"], attr=["ref"])])
    add("TryInto", "none", ["ref_mut"], [V("Z", "tuple", ["u8"], attr=["ignore"]), V("A", "tuple", ["u8"], attr=["owned", "ref"]),
                                         V("B", "tuple", ["u8"]), V("C", "named", ["u8"], attr=["ref"])])
    for dv in ("Unwrap", "TryUnwrap"):
        add(dv, "none", ["ref"], [V("Small", "tuple", ["i32"], attr=["owned"]), V("Big", "tuple", ["i32"])])
        add(dv, "none", ["ref", "ref_mut"], [V("A", "tuple", ["u8"], attr=["owned", "ref"]), V("B", "tuple", ["u8", "i32"]), V("C")])
    for dv in ("Unwrap", "TryUnwrap"):     # ignored variants in leading / middle position
        add(dv, "none", ["ref", "ref_mut"], [V("Hidden", "tuple", ["i32"], attr=["ignore"]), V("Circle", "tuple", ["i32"]),
                                             V("Gone", attr=["ignore"]), V("Square", "tuple", ["i32", "u8"]), V("Last")])
    add("IsVariant", "none", None, [V("Hidden", attr=["ignore"]), V("Circle", "tuple", ["i32"]), V("Gone", "named", ["u8"], attr=["ignore"]),
                                    V("Square")])
    add("TryInto", "TU", ["owned", "ref"], [V("A", "tuple", ["Vec<T>", "Option<U>"]), V("B", "named", ["Vec<T>", "Option<U>"]),
                                            V("C", "tuple", ["Option<U>", "Vec<T>"])])
    add("IsVariant", "none", None, [V("fn", "tuple", ["i32"], raw=True), V("HTTPServer"), V("Ab_Cd", "named", ["i32"]),
                                    V("X1y2", attr=["ignore"])])
    # undocumented attribute combinations (model vs code only)
    add("IsVariant", "none", None, [V("A", attr=[]), V("B")], "wild")
    add("Unwrap", "none", ["owned", "ref_mut"], [V("A", "tuple", ["i32"], attr=["owned", "ref_mut"]), V("B", "tuple", ["i32"], attr=[])], "wild")
    add("TryInto", "none", None, [V("A", "tuple", ["i32"], attr=["owned", "ref_mut"]), V("B", "tuple", ["i32"], attr=[])], "wild")
    add("TryInto", "none", ["ref"], [V("A", "tuple", ["i32"], attr=["ref_mut"]), V("B", "tuple", ["i32"], attr=[]), V("C", "tuple", ["i32"])], "wild")
    return C


def attr_matrix():
    """every enum attribute x two variant attributes from a small alphabet (expansion-level tie only)"""
    EA = [None, [], ["ignore"], ["owned"], ["ref"], ["ref_mut"], ["owned", "ref"], ["ref", "ref_mut"], ["owned", "ref", "ref_mut"]]
    VA = [None, [], ["ignore"], ["owned"], ["ref"], ["ref_mut"], ["ref", "ref_mut"], ["owned", "ref_mut"], ["ignore", "ref"]]
    out = []
    for dv in ("Unwrap", "TryInto"):
        for ea in EA:
            for a in VA:
                for b in VA:
                    out.append({"derive": dv, "style": "matrix", "generics": "none", "attr": ea,
                                "variants": [V("A", "tuple", ["i32"], attr=a), V("B", "tuple", ["i32"], attr=b), V("C", "tuple", ["u8"])]})
    for ea in [None, [], ["ignore"], ["ref"]]:
        for a in [None, [], ["ignore"], ["ref"]]:
            for b in [None, [], ["ignore"]]:
                out.append({"derive": "IsVariant", "style": "matrix", "generics": "none", "attr": ea,
                            "variants": [V("A", attr=a), V("B", "tuple", ["i32"], attr=b), V("C", "named", ["u8"])]})
    return out


def sel_matrix():
    """enum-level list x first attributed variant x second variant x a leading attribute-less / ignored variant;
    Z, A and B share the field-type tuple (i32)"""
    EA = [None, ["owned"], ["ref"], ["ref_mut"], ["owned", "ref"], ["ref", "ref_mut"]]
    FIRST = [["owned"], ["owned", "ref"], ["ref"], ["ref_mut"], ["owned", "ref_mut"], ["ref", "ref_mut"]]
    SECOND = [None, ["ignore"], ["ref"], ["owned"], ["ref_mut"]]
    out = []
    for dv in ("TryInto", "Unwrap", "TryUnwrap"):
        for ea in EA:
            for a in FIRST:
                for b in SECOND:
                    for z in (None, ["ignore"]):
                        out.append({"derive": dv, "style": "selmatrix", "generics": "none", "attr": ea,
                                    "variants": [V("Z", "tuple", ["i32"], attr=z), V("A", "tuple", ["i32"], attr=a),
                                                 V("B", "tuple", ["i32"], attr=b), V("C", "tuple", ["u8", "i32"])]})
    return out


# ------------------------------------------------------------------ the check

def run(tier, seed, replay):
    chk = common.Check("C11", tier, seed)
    rng = chk.rng
    inproc = common.build_inproc()
    st = common.check_proofs(chk, "C11")

    # ---- declarations
    if replay:
        decls = [json.load(open(replay))["replay"]["decl"]]
        matrix = []
    else:
        n_rt = 90 if tier == "quick" else 600          # per derive, compiled and executed
        decls = corpus()
        for dv in DERIVES:
            styles = {"IsVariant": ["plain"] * 6 + ["wild"] * 2,
                      "Unwrap": ["plain"] * 4 + ["vref"] * 2 + ["vsel"] * 2 + ["wild"] * 2,
                      "TryUnwrap": ["plain"] * 4 + ["vref"] * 2 + ["vsel"] * 2 + ["wild"] * 2,
                      "TryInto": ["plain"] * 4 + ["vsel"] * 3 + ["whitelist"] * 1 + ["wild"] * 2}[dv]
            for _ in range(n_rt):
                decls.append(gen_decl(rng, dv, rng.choice(styles), 0))
        sm = sel_matrix()
        rt_sel = [x for x in sm if documented(x)]
        if tier == "quick":
            rt_sel = rng.sample(rt_sel, 120)
        decls += rt_sel
        matrix = attr_matrix() + [x for x in sm if not any(x is y for y in rt_sel)]
        if tier == "quick":
            matrix = rng.sample(matrix, 520)
        for dv in DERIVES:                                # the full attribute syntax (utils.rs:813-1042), expansion level
            for _ in range(45 if tier == "quick" else 800):
                matrix.append(enrich(rng, gen_decl(rng, dv, rng.choice(["wild", "wild", "plain", "vsel" if dv != "IsVariant" else "plain"]), 0)))
        for dv in DERIVES:                                # more wild declarations for the expansion-level tie
            for _ in range(60 if tier == "quick" else 1500):
                matrix.append(gen_decl(rng, dv, "wild", 0))
    allk = decls + matrix
    for k, d in enumerate(allk):
        d["id"] = k
        d["name"] = "E%d" % k
    chk.log("%d declarations (%d for the run-time table, %d expansion-level only)" % (len(allk), len(decls), len(matrix)))

    # ---- real expansion + model, all declarations
    resps = common.run_jsonl(inproc, [{"cmd": "expand", "derive": d["derive"], "item": decl_src(d)} for d in allk])
    terms = common.coq_eval(["Verif.C11.Model"], [coq_expr(d) for d in allk], batch=120)
    rt_cases = []
    model_tabs = {}
    for d, resp, term in zip(allk, resps, terms):
        chk.bump("derive:" + d["derive"])
        chk.bump("style:" + d["style"])
        real = real_accessors(d, resp)
        model = model_table(d, term)
        model_tabs[d["id"]] = model
        src = decl_src(d)
        if real[0] in ("unparsable", "unreadable"):
            chk.violation("expansion-" + real[0] + ":" + d["derive"], {"decl": d, "source": src, "real": real[1]},
                          "the expansion of #[derive(%s)] on %s %s: %s" %
                          (d["derive"], src.replace("\n", " "),
                           "is not a sequence of Rust items" if real[0] == "unparsable" else "cannot be read", str(real[1])[:300]))
            continue
        header = real[2] if real[0] == "ok" else []
        if header:
            for cls in sorted(set(h[0] for h in header)):
                hs = [h for h in header if h[0] == cls]
                chk.violation(cls, {"decl": d, "source": src, "impls": hs},
                              "%d generated impl(s) of %s lack %s of the enum (e.g. impl %s for %s): %s" %
                              (len(hs), d["derive"], "the generic parameter" if cls == "impl-generics-lost" else "the where-clause predicate",
                               hs[0][2], hs[0][3], src.replace("\n", " ")))
        doc = documented(d)
        # tie 1: outcome and accessor set
        if real[0] != model[0]:
            # a model that panics where the real macro panics because of a raw identifier is the same outcome
            chk.violation("tie-expand-outcome", {"decl": d, "source": src, "real": real, "model": model[0]},
                          "model says %s, real expansion of %s says %s" % (model[0], src.replace("\n", " "), real[0]))
        elif real[0] == "ok":
            r_set = sorted(real[1])
            m_set = sorted(a for a, _ in model[1])
            if r_set != m_set:
                chk.violation("tie-accessor-set", {"decl": d, "source": src, "real": r_set, "model": m_set},
                              "accessors of the model %s differ from the real expansion %s on %s" % (m_set, r_set, src.replace("\n", " ")))
        chk.cov["traces_validated_against_impl"] += 1
        nontrivial = len(d["variants"]) >= 2 or any(v["attr"] is not None for v in d["variants"])
        chk.count(("expand", d["derive"], d["attr"], [(v["name"], v["kind"], v["attr"], v["fields"]) for v in d["variants"]]), nontrivial)
        # oracle: existence and names (documented declarations)
        if doc:
            chk.bump("documented")
            if real[0] != "ok":
                chk.violation("documented-input-rejected:" + d["derive"], {"decl": d, "source": src, "real": real},
                              "documented input %s is not expanded: %s" % (src.replace("\n", " "), real))
            else:
                have = set(real[1])
                missing = []
                for r in doc_required(d):
                    key = ("fn", expected_name(d, r[1], r[2]), r[2]) if r[0] == "fn" else r
                    if key not in have:
                        missing.append(key)
                exp_names = set(expected_name(d, i, m) for i in range(len(d["variants"])) for m in MODES) \
                    if d["derive"] != "TryInto" else set()
                odd = [a for a in real[1] if a[0] == "fn" and a[1] not in exp_names]
                if odd:
                    chk.violation("accessor-name", {"decl": d, "source": src, "unexpected": odd, "real": sorted(have)},
                                  "method names %s are not prefix + snake_case(variant) + suffix for %s" % (odd, src.replace("\n", " ")))
                if missing:
                    if d["derive"] == "TryInto":
                        # a missing by-value impl whose every candidate variant is a victim of the first-match owned default
                        def victims_only(k):
                            cands = [w for w in d["variants"] if not doc_ignored(d, w) and
                                     tuple(f["ty"] for f in w["fields"] if f["attr"] != ["ignore"]) == tuple(k[2])]
                            return k[1] == "owned" and cands and all(owned_default_victim(d, w) for w in cands)
                        cls = "first-match-owned-default" if all(victims_only(k) for k in missing) else "try-into-impl-missing"
                    elif has_variant_ref(d) and known_variant_ref_shape(d, missing):
                        cls = "variant-level-ref-attr"
                    else:
                        cls = "accessor-missing:" + d["derive"]
                    chk.violation(cls, {"decl": d, "source": src, "missing": missing, "real": sorted(have)},
                                  "documented accessors %s are not generated for %s (generated: %s)" %
                                  (missing, src.replace("\n", " "), sorted(have)))
                for why, a in unselected(d, real[1]):
                    cls = {"ignored": "accessor-for-ignored-variant:", "unselected": "accessor-unselected:"}[why] + d["derive"]
                    chk.violation(cls, {"decl": d, "source": src, "accessor": a, "real": sorted(have)},
                                  "%s is generated for %s although %s" %
                                  (a, src.replace("\n", " "), "the variant is ignored" if why == "ignored"
                                   else "no attribute selects this reference kind for it"))
        coll = tuple_field_collision(real[1]) if real[0] == "ok" and d["derive"] == "TryInto" else None
        if coll:
            chk.bump("try_into_tuple_field_collision")
            chk.violation("try-into-tuple-field-collides", {"decl": d, "source": src, "impls": sorted(real[1]), "colliding": coll},
                          "two impls of TryFrom<%s> for %s are generated (keys %s and %s): rustc rejects the enum with E0119: %s" %
                          (d["name"], coll[0][0], list(coll[0]), list(coll[1]), src.replace("\n", " ")))
        if d["id"] < len(decls):
            if real[0] == "ok" and real[1] and not coll and not header:
                rt_cases.append((d, real[1]))
    if replay and not rt_cases:
        return finish(chk, st)

    # ---- run-time table with the real macro
    def crate_accs(d, accs):
        out = []
        byname = {}
        if d["derive"] != "TryInto":
            for i, v in enumerate(d["variants"]):
                for m in MODES:
                    byname[(expected_name(d, i, m), m)] = i
        for a in accs:
            if a[0] == "fn":
                i = byname.get((a[1], a[2]))
                if i is None:
                    # unknown name (already reported for documented declarations): find the variant by the model's name
                    cand = [j for j, v in enumerate(d["variants"]) if a[1].startswith(PREFIX[d["derive"]] + snake(v["name"]))]
                    if not cand:
                        continue
                    i = cand[0]
                out.append(("fn", a[1], a[2], len(d["variants"][i]["fields"]), i))
            else:
                if any(t.startswith("?") for t in a[2]):
                    continue
                out.append(a)
        return out

    cases = [(d, crate_accs(d, accs)) for d, accs in rt_cases]
    cases = [(d, [a[:4] if a[0] == "fn" else a for a in accs]) for d, accs in cases if accs]
    variant_of = {}
    for d, accs in rt_cases:
        for a in crate_accs(d, accs):
            if a[0] == "fn":
                variant_of[(d["id"], a[1])] = a[4]
    chk.log("building the generated crate: %d enums, %d accessors, %d (value, accessor) pairs" % (
        len(cases), sum(len(a) for _, a in cases), sum(len(a) * len(d["variants"]) for d, a in cases)))
    obs, cases = build_and_run(chk, cases, "r" if replay else tier)
    chk.log("crate executed: %d observations" % len(obs))

    n_pairs = 0
    n_tie2 = 0
    for d, accs in cases:
        if d["derive"] == "TryInto":
            groups = {}
            for w in d["variants"]:
                if not doc_ignored(d, w):
                    groups.setdefault(tuple(f["ty"] for f in w["fields"] if f["attr"] != ["ignore"]), []).append(w["name"])
            if any(len(g) >= 2 for g in groups.values()):
                chk.bump("try_into_enums_with_shared_tuple")
        if any(f["attr"] == ["ignore"] for w in d["variants"] for f in w["fields"]) and d["derive"] == "TryInto":
            chk.bump("try_into_enums_with_ignored_field")
        if any(w["attr"] is not None and "ignore" in w["attr"] for w in d["variants"]):
            chk.bump("rt_enums_with_ignored_variant")
        if d["generics"] != "none":
            chk.bump("rt_enums_generic")
        if any(w["raw"] and not doc_ignored(d, w) for w in d["variants"]):
            chk.bump("rt_enums_with_raw_variant")     # regression for 5dcf116 (r#fn -> is_fn / unwrap_fn / try_unwrap_fn)
        dmap = debug_map(d)
        doc = documented(d)
        src = decl_src(d)
        model = model_tabs[d["id"]]
        mrows = {a: r for a, r in model[1]} if model[0] == "ok" else {}
        for ai, acc in enumerate(accs):
            key = acc[:3] if acc[0] == "fn" else acc
            for vi, v in enumerate(d["variants"]):
                cid = "%d:%d:%d" % (d["id"], ai, vi)
                if cid not in obs:
                    chk.violation("runtime-observation-missing:" + d["derive"], {"decl": d, "source": src, "accessor": key, "value_variant": v["name"]},
                                  "the generated program printed nothing for %s on a `%s` value of %s" % (key, v["name"], src.replace("\n", " ")))
                    continue
                try:
                    o = parse_obs(d, vi, obs[cid], dmap)
                except Exception as e:                       # noqa: BLE001
                    o = ("X", "unreadable observation %r (%s)" % (obs[cid][:200], e))
                n_pairs += 1
                x = variant_of.get((d["id"], acc[1])) if acc[0] == "fn" else None
                chk.count(("rt", d["derive"], d["attr"], d["generics"], [(w["name"], w["kind"], w["attr"], w["fields"]) for w in d["variants"]], key, vi),
                          nontrivial=True)
                chk.bump("obs:" + o[0])
                # tie 2: model table vs real table (messages included)
                m = mrows.get(key)
                if m is not None:
                    n_tie2 += 1
                    mo = m[vi]
                    if d["derive"] == "TryInto" and mo[0] == "E" and o[0] == "E":
                        # the spelling of a type inside the message is proc_macro's token printing: compare modulo spaces
                        mo = (mo[0], mo[1], nospace(mo[2]))
                        o_cmp = (o[0], o[1], nospace(o[2]))
                    else:
                        o_cmp = o
                    if tuple(mo) != tuple(o_cmp):
                        chk.violation("tie-table:" + d["derive"], {"decl": d, "source": src, "accessor": key, "value_variant": v["name"],
                                                                  "model": mo, "real": o},
                                      "model and real macro disagree on %s applied to a `%s` value of %s: model %s, real %s" %
                                      (key, v["name"], src.replace("\n", " "), mo, o))
                # oracle: the property text (documented declarations)
                if doc:
                    oacc = ("fn", x, acc[2]) if acc[0] == "fn" else acc
                    wants = oracle_obs(d, oacc, vi)
                    if not any(tuple(o[:len(w)] if w[0] in ("P", "E") else o) == tuple(w) for w in wants):
                        want = wants[0]
                        cls = "table:%s:%s" % (d["derive"], want[0] + "-" + o[0])
                        if d["derive"] == "TryInto" and acc[0] == "impl" and acc[1] == "owned" and want[0] == "R" \
                                and o[0] == "E" and o[1] is True and owned_default_victim(d, v):
                            cls = "first-match-owned-default"      # Err with the unchanged input, by-value default off
                        chk.violation(cls,
                                      {"decl": d, "source": src, "accessor": key, "value_variant": v["name"], "expected": wants, "observed": o},
                                      "%s applied to a `%s` value of %s: expected %s, observed %s" %
                                      (key, v["name"], src.replace("\n", " "), wants, o))
                if len(chk.cov["samples"]) < 12 and vi == 0 and ai == 0:
                    chk.sample({"enum": src, "accessor": key, "value": v["name"], "observed": o})
    chk.notes.append("owned/ref/ref_mut lists: impl/doc/try_into.md shows the list on the enum only; lists written on variants are accepted "
                     "by the macro and are read by the oracle as additional kinds for that variant, the by-value form being the default "
                     "that no attribute takes away (as on the tree and in unwrap.md). The oracle applies that reading next to an "
                     "enum-level list or when every variant carries its own attribute; a bare attribute-less variant next to "
                     "attributed ones is subject to the first-match whitelisting (known finding variant-level-ref-attr); TryInto "
                     "declarations whose first attributed variant names ref_mut with ref/owned lose the by-value default of the other "
                     "variants by the same rule: class first-match-owned-default")
    chk.bump("runtime_pairs", n_pairs)
    chk.cov["traces_validated_against_impl"] += n_tie2
    chk.cov["runtime_table"] = {"enums": len(cases), "pairs": n_pairs, "exhaustive": True,
                                "note": "every accessor of every compiled enum on one value per variant"}
    return finish(chk, st)


def finish(chk, st):
    if getattr(chk, "proof_broken", False) and not chk.violations:
        chk.violation("proof-broken", chk.proof_failure, "a C11 proof obligation no longer checks: %s" %
                      chk.proof_failure["failed"], no_input=True)
    elif getattr(chk, "proof_broken", False):
        chk.notes.append("proof obligation broken at %s; failing inputs found by the differential run" % chk.proof_failure["failed"])
    return chk.finish(
        proof=st,
        rule="enums: hand corpus (the examples of impl/doc/{is_variant,unwrap,try_unwrap,try_into}.md + probes) + random enums per derive "
             "(1-6 variants from a 26-name pool incl. acronyms/digits/underscores/raw identifiers; unit/tuple/named; 0-3 fields from 7 "
             "concrete + 6 generic types so that several variants share a field-type tuple; generics none/<T>/<T,U>/<'a,T>/<const N>; "
             "attribute styles plain(ignore)/variant-level ref/whitelist/wild) + the matrix enum-attr x variant-attr x variant-attr over a "
             "9-symbol alphabet (expansion level). Every enum goes through the Coq model and the in-process expansion (accessor set); "
             "the run-time stream is compiled with the real macro and EVERY accessor is applied to one value per variant (full table). "
             "non-trivial = >= 2 variants or an attribute (expansion level), every (value, accessor) pair (run time); distinct by "
             "declaration shape + accessor + value",
        trusted=TRUSTED)


META = {
    "level": "proof",
    "technique": "Coq proof about a model of the accessor derives (all enums, all values) + differential correspondence of the model "
                 "with the real expansion and with the real macro's run-time behaviour + independent evaluator of the property text",
    "text": "Theorems by induction over the variant list about an executable Gallina model of State::new_impl (enabled variants, "
            "owned/ref/ref_mut defaults), is_variant.rs, unwrap.rs, try_unwrap.rs, try_into.rs and of the match they emit: is_x v <-> v is X "
            "(exactly one is_* holds on an enabled variant), unwrap_x returns exactly v's fields in order (the same objects by reference "
            "for _ref/_mut) iff v is X and otherwise panics naming v's variant, try_unwrap_x errs with the unchanged input, TryFrom<Enum> for "
            "T succeeds with the non-ignored fields in order exactly for the enabled variants with that reference kind and non-ignored "
            "types T and otherwise returns the value, impl keys are pairwise distinct and cover every enabled variant, names are prefix + "
            "snake(unraw name) + suffix whether or not the variant is a raw identifier; one refutation (a variant-level #[unwrap(ref)] yields "
            "no _ref accessor and disables attribute-less siblings - known finding) next to the partial existence theorem. The model is re-tied on every run to the real expansion (accessor sets) "
            "and to the real macro compiled by rustc (full values x accessors table incl. panic/error messages), and the property text is "
            "evaluated independently on the real table (catch_unwind, ptr address equality, PartialEq on error inputs).",
    "note": "Trusted: Coq kernel/vm_compute; the hand model and its match semantics (validated against rustc each run); convert_case "
            "(Section variable; names checked against an independent snake_case); the Python renderers/evaluator; rustc 1.95.",
    "design_ref": "DESIGN.md section 2 / C11",
}
