"""C07 - enum-level format: wraps via `_variant`, otherwise is only a default."""
import re

from lib import common
from lib import fmtcheck as C
from lib import fmtitems as F
from lib import fmtrt as R


def rejection_oracle(chk, res, dres):
    """independent reading of the property text: a `_variant` placeholder with a format specifier or a non-Display trait,
    and an enum-level format on Debug, must be compile errors"""
    for r in res:
        it = r["item"]
        a = it["container"].get("fmt")
        if it["kind"] != "enum" or a is None:
            continue
        real = C.real_display(r["resp"])
        # `_variant` used directly as a placeholder name and not re-bound by an explicit `_variant = ...` argument
        rebound = any(x["alias"] == "_variant" for x in a["args"])
        bad = False
        for m in re.finditer(r"\{_variant\s*(?::([^}]*?))?\s*\}", a["lit"].replace("{{", "").replace("}}", "")):
            if m.group(1):
                bad = True
        if bad and not rebound:
            chk.bump("oracle:variant-spec")
            if real[0] != "err":
                chk.violation("variant-spec-accepted", {"item": r["src"], "derive": it["trait"]},
                              "`_variant` placeholder with a format specifier was not rejected: %s" % r["src"])
    # field-less variants without a format of their own under the non-Display derives: refused when nothing gives them a
    # text (no enum-level format), printed from the enum-level format when that is a plain default (repo fix 3d5b8b4)
    for r in res:
        it = r["item"]
        if it["kind"] != "enum" or it["trait"] == "Display" or it.get("exotic"):
            continue
        if not any(v.get("fmt") is None and not v["fields"]["list"] for v in it["variants"]):
            continue
        a = it["container"].get("fmt")
        real = C.real_display(r["resp"])
        if a is None:
            chk.bump("oracle:unit-not-covered")
            if real[0] != "err":
                chk.violation("unit-variant-without-format-accepted", {"item": r["src"], "derive": it["trait"]},
                              "a field-less variant without any format was accepted by a non-Display derive: %s" % r["src"])
        elif "_variant" not in a["lit"] and not any("_variant" in x["expr"] or x["alias"] == "_variant" for x in a["args"]):
            chk.bump("oracle:unit-covered-by-default")
            if real[0] == "err" and real[1] == 2:
                chk.violation("unit-variant-refused-despite-default", {"item": r["src"], "derive": it["trait"]},
                              "a field-less variant covered by the enum-level default format was refused: %s" % r["src"])
    for r in dres:
        it = r["item"]
        if it["kind"] == "enum" and it["container"].get("fmt") is not None:
            chk.bump("oracle:debug-enum-fmt")
            if C.real_display(r["resp"])[0] != "err":
                chk.violation("debug-enum-fmt-accepted", {"item": r["src"]},
                              "an enum-level #[debug(\"...\")] was not rejected: %s" % r["src"])


def run(tier, seed, replay):
    chk = common.Check("C07", tier, seed)
    st = common.check_proofs(chk, "C07", extra_dirs=("Fmt", "Gen", "C02", "C05"))
    n = 4000 if tier == "quick" else 24000
    res, dres = C.decision_tie(chk, n, n // 3, focus="enum")
    rejection_oracle(chk, res, dres)

    rng = chk.rng
    ncase = 1400 if tier == "quick" else 7000
    cases, derive_of, enum_of = [], {}, {}
    must_fail = []
    for k in range(ncase):
        tr = rng.choice(F.DISPLAY_TRAITS[:-1] + ["Display"] * 4)
        # with the caller's flags too: a wrapping enum-level format (a bare `_variant` placeholder of a non-Display derive
        # included, in each of its spellings) is an interpolation, so flags must leave every variant's output unchanged
        c = R.gen_enum_case(rng, k, tr, with_flags=2 if rng.random() < 0.6 else False)
        derive_of[k] = tr
        enum_of[k] = True
        chk.bump("rt:mode:" + c.meta["mode"])
        if c.meta["must_fail"]:
            must_fail.append(c)
        else:
            cases.append(c)
    # enums the documented rules leave without a text for some variant must be rejected (in-process verdict)
    inproc = common.build_inproc()
    reqs = []
    for c in must_fail:
        src = re.sub(r"#\[derive\([^)]*\)\]\s*", "", c.decl).replace("pub enum", "enum").replace("pub struct", "struct")
        reqs.append({"cmd": "expand", "derive": derive_of[c.k], "item": src, "summary": False})
    for c, resp in zip(must_fail, common.run_jsonl(inproc, reqs)):
        chk.count(("must-fail", c.decl), True)
        if "err" not in resp:
            chk.violation("multi-field-variant-without-format-accepted", {"decl": c.decl, "resp": str(resp)[:500]},
                          "a multi-field variant without any format was accepted: %s" % c.decl)
    out, err = R.build_and_run("c07_rt", cases, derive_of, enum_of, chk)
    if out is None:
        chk.violation("rt-corpus-does-not-compile", {"stderr": err[-4000:]},
                      "the run-time enum corpus (well-typed by construction) does not compile with the real macro")
    else:
        nobs = 0
        for c in cases:
            for (tag, eq, d, r) in out.get(c.k, []):
                if tag.startswith("flags-"):
                    nobs += 1
                    chk.count(("rt", c.decl, tag), True)
                    chk.bump("rt:flags:" + c.meta["mode"])
                    if not eq:
                        chk.violation("shared-format-flags",
                                      {"decl": c.decl, "obs": tag, "derived": d, "expected": r, "meta": c.meta},
                                      "enum-level format (%s) under caller's flags %s: %s prints %s, documented meaning gives %s" % (
                                          c.meta["mode"], tag, c.decl, d, r))
                    continue
                nobs += 1
                chk.count(("rt", c.decl, tag), True)
                if not eq:
                    chk.violation("shared-format-" + c.meta["mode"],
                                  {"decl": c.decl, "variant": tag, "derived": d, "expected": r, "meta": c.meta},
                                  "enum-level format (%s): %s prints %s, documented meaning gives %s" % (c.meta["mode"], c.decl, d, r))
                elif nobs % 61 == 0:
                    chk.sample({"decl": c.decl, "variant": tag, "output": d})
        chk.cov["rt_observations"] = nobs
    common.cleanup_scratch("c07_rt")
    return C.finish_with_proofs(
        chk, st,
        rule="(1) generated enums (0-3 variants: unit/tuple/named, with/without own attribute, rename_all) x enum-level literals "
             "(none, plain default, `_variant` as placeholder / positional arg / named arg / twice / with a specifier / non-Display / "
             "re-bound) x 8 Display-like traits + Debug: model vs real expander, and a regex reading of the property text for the "
             "rejections (incl. field-less variants of non-Display derives: refused without an enum-level format, printed from a plain default); (2) well-typed enums compiled with the real macro, every variant's output vs a reference built from plain "
             "format! calls following the documented meaning (own attribute, else single field, else name); non-trivial = every case "
             "(each involves an enum-level or variant-level decision); distinct by item source / (decl, variant)",
        trusted=C.FMT_TRUSTED)


META = {
    "level": "proof",
    "technique": "Coq theorems on a model of the shared-attribute logic of fmt/display.rs + differential tie + run-time oracle (plain format! reference) with the real macro",
    "text": "Proved for all enums/literals: an enum-level format that does not mention `_variant` is used for exactly the variants "
            "without an attribute of their own; one that mentions it wraps every variant with `_variant` bound to the variant's own "
            "text (own attribute / single field under the derived trait / name), multi-field variants without format are rejected; "
            "a bare `{_variant}` of the derived trait equals no attribute; a `_variant` placeholder with a specifier or non-Display "
            "trait, and an enum-level format on Debug, are rejected. Complete case analyses: shared_attr_info, the diagnostics of "
            "generate_body, of one variant and of expand_enum (first refused variant wins) as iff statements; the documented meaning as one "
            "equation; rename_all of unit variants (own, else the enum's); the literal standing for a single-field variant is the bare "
            "placeholder of the derived trait. Model tied to the expander on ~2000 generated items per run; "
            "the real macro's output for every variant is compared with a plain-format! reference at run time.",
    "note": "Trusted: Coq kernel; Fmt/Model.v tied by differential runs; semantics of `match x { _variant => write!(..) }` and "
            "format_args! capture (exercised at run time); generators; in-process harness.",
    "design_ref": "DESIGN.md section 2 / C07",
}
