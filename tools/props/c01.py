"""C01 - every supported derive input is accepted and expands to code that compiles.

proofs : coq/theories/C01  (well-formedness of the impl header every derive family builds, for every generic
         parameter list; attribute presence over the regenerated template facts Gen/ImplAttrs.v)
T-gen  : tools/lib/c01_impl_attrs.py re-extracts every `impl` template of impl/src on each run
tie    : headers of REAL in-process expansions vs `render id (header family generics)` evaluated inside Coq
oracle : generated crates `#![deny(warnings)]` with the real proc-macro, `cargo check --message-format=json`,
         diagnostics mapped back to the generated case; a warning counts only if the control twin (same item,
         derive_more's derives and helper attributes removed) does not raise the same lint
"""
import json
import os
import re
import time
from concurrent.futures import ThreadPoolExecutor

from lib import common, c01_impl_attrs
from lib import c01_cases as C
from lib.common import py_str

TRUSTED = [
    "Coq 8.16.1 kernel + vm_compute (coqc full .vo build); no axioms (Print Assumptions: closed)",
    "hand-written Gallina model coq/theories/C01/Model.v (syn's split_for_impl printing order, utils.rs generics helpers, "
    "one header per derive family), tied to the code by comparing rendered headers with real in-process expansions",
    "tools/lib/c01_impl_attrs.py (Rust lexer + extractor of `impl` templates inside quote!; cross-checked by an independent "
    "regex count, fails closed on unknown header shapes)",
    "tools/lib/c01_cases.py (case builder: which impls an attribute set produces, field types meeting the documented "
    "trait requirements, helper types sup::P / sup::Void) and the span-to-case mapping of diagnostics",
    "well-formedness of headers is only the logical part of `compiles`: rustc 1.95 (type checker, borrow checker, "
    "lints) is consulted on generated crates, not modelled",
]


def nows(t):
    return re.sub(r"\s+", "", t)


# ------------------------------------------------------------------ case selection

# past failures, run first on every tier (derive, shape, generics, naming, attribute, flavour)
CORPUS = [
    ("TryFrom", "eu", "N", "plain", "repr", "plain"),
    ("TryFrom", "em", "'a,T,N", "plain", "repr", "plain"),
    ("TryFrom", "eu", "none", "raw", "repr", "plain"),
    ("FromStr", "eu", "N", "plain", "none", "plain"),
    ("FromStr", "eu", "none", "plain", "none", "deprecated"),
    ("Add", "em", "none", "plain", "none", "deprecated"),
    ("Sub", "em", "none", "plain", "none", "deprecated"),
    ("Add", "em", "none", "assoc1", "none", "plain"),
    ("BitOr", "em", "T", "assoc4", "none", "plain"),
    ("Mul", "em", "none", "assoc1", "forward", "plain"),
    ("Not", "em", "none", "assoc1", "none", "plain"),
    ("TryFrom", "eu", "none", "assoc1", "repr", "plain"),
    ("FromStr", "eu", "none", "assoc2", "none", "plain"),
    ("Into", "t1", "none", "plain", "wrapped~ti", "plain"),
    ("Into", "t1", "none", "plain", "wrapped~ta", "plain"),
    ("Into", "n2", "'a,T,N", "plain", "wrapped-generic~ti", "plain"),
    ("Into", "n2", "none", "plain", "field-wrapped~ti", "plain"),
    ("BitAnd", "em", "none", "plain", "none", "deprecated"),
    ("BitOr", "em", "none", "plain", "none", "deprecated"),
    ("BitXor", "em", "none", "plain", "none", "deprecated"),
    ("TryInto", "em", "none", "plain", "none", "deprecated"),
    ("Error", "em", "none", "plain", "none", "deprecated"),
    ("IsVariant", "em", "none", "raw", "none", "plain"),
    ("Unwrap", "et", "none", "raw", "none", "plain"),
    ("TryUnwrap", "et", "none", "raw", "none", "plain"),
    ("Mul", "em", "none", "plain", "forward", "plain"),
    ("Display", "ew", "T", "plain", "shared-wrap", "plain"),
    ("Binary", "ew", "'a,T,N", "plain", "shared-wrap-arg", "plain"),
    ("Display", "es", "T", "plain", "shared-wrap", "plain"),
    ("Display", "ed", "T,U", "plain", "shared-default", "plain"),
    ("Error", "en", "none", "plain", "variant-ignore", "plain"),
    ("Error", "en", "'a,T,N", "plain", "variant-ignore", "plain"),
    ("Error", "em", "T", "plain", "variant-ignore", "plain"),
    ("Error", "en", "N", "plain", "variant-ignore-all-but-one", "plain"),
    ("Error", "en", "T", "plain", "none", "plain"),
    ("Display", "n2", "T where", "plain", "fmt-nogeneric", "plain"),
    ("Display", "n2", "T where Req", "plain", "fmt-assoc-const", "plain"),
    ("Binary", "n2", "N where", "plain", "fmt-const", "plain"),
    ("Display", "em", "T where Req", "plain", "lit-variants", "plain"),
    ("Debug", "n2", "'a,T,N where only", "plain", "skip-generic", "plain"),
    ("Display", "unit", "N where", "plain", "none", "plain"),
    ("Octal", "n2", "T", "raw", "fmt", "plain"),
    ("Display", "n2", "T", "raw", "fmt", "plain"),
]

def explicit_corpus(rng):
    """past failures that depend on the exact field types: items written out by hand"""
    out = []
    for derive, an, spec in (("Octal", "octal", ":o"), ("Display", "display", ""), ("LowerExp", "lower_exp", ":e")):
        ctx = C.Ctx(C.GSETS["T"], C.NAMING["raw"], rng)
        it = C.mk_struct(ctx, "named", ["T", "T"])
        it.attrs.append('#[%s("{%s} {%s}", r#fn, r#match)]' % (an, spec, spec))
        c = C.Case(derive, "n2", "T", "raw", "fmt", "plain")
        c.item = it
        c.fam_hook = ("fmt", derive)
        out.append(c)
    # a reference field next to a field of the bare parameter (found by the thorough tier): `&'a T: Debug` lands in the
    # where-clause and rustc then uses it for every `&'_ T: Debug` obligation
    for derive, attr in (("Debug", None), ("Display", '#[display("{} {}", a, b)]')):
        ctx = C.Ctx(C.GSETS["'a,T,N"], C.NAMING["plain"], rng)
        it = C.mk_struct(ctx, "named", ["&'a T", "T"])
        if attr:
            it.attrs.append(attr)
        c = C.Case(derive, "n2", "'a,T,N", "plain", "fmt" if attr else "none", "plain")
        c.item = it
        c.fam_hook = ("fmt", derive)
        out.append(c)
    return out


def enumerate_cases(tier, rng, chk):
    combos = []
    for d in C.ALL_DERIVES:
        for (shape, attr) in C.VARIANTS[d]:
            combos.append((d, shape, attr))
    sel = []
    if tier == "thorough":
        few = ["none", "T", "'a,T,N", "T,U=T,N=2 where", "Item,Err,Rhs", "N,M:bool"]
        for (d, shape, attr) in combos:
            if "~" in attr:
                # spelling variation is independent of generics / names: a few generics sets, plain names
                for gname in few[:4]:
                    sel.append((d, shape, gname, "plain", attr, "plain"))
                continue
            for gname in C.GSET_NAMES:
                for naming in ("plain", "raw"):
                    for fl in C.FLAVOURS:
                        sel.append((d, shape, gname, naming, attr, fl))
                if gname in few:
                    for naming in C.ASSOC_NAMINGS:
                        sel.append((d, shape, gname, naming, attr, "plain"))
    else:
        sel += CORPUS
        seen_dg = set()
        for (d, shape, attr) in combos:
            picks = [("plain", "plain"), ("plain", "raw"), ("deprecated", None), ("uninhabited", None),
                     ("plain", rng.choice(C.ASSOC_NAMINGS))]
            if "~" in attr:
                picks = [("plain", "plain"), ("plain", None)]
            for fl, naming in picks:
                if attr.startswith("tyform") and fl == "uninhabited":
                    continue
                pool = C.compatible_gsets(attr.partition("~")[0]) or C.GSET_NAMES
                for _try in range(6):
                    gname = rng.choice(pool)
                    nm = naming or ("raw" if rng.random() < 0.3 else "plain")
                    k = (d, shape, gname, nm, attr, fl)
                    if k not in sel:
                        sel.append(k)
                        seen_dg.add((d, gname))
                        break
        for d in C.ALL_DERIVES:
            for gname in C.GSET_NAMES:
                if (d, gname) in seen_dg:
                    continue
                shape, attr = rng.choice(C.VARIANTS[d])
                sel.append((d, shape, gname, "raw" if rng.random() < 0.3 else "plain", attr, "plain"))
    cases = [] if tier == "thorough" else explicit_corpus(rng)
    seen = set()
    for k in sel:
        if k in seen:
            continue
        seen.add(k)
        c = C.build(*k, rng=rng)
        if c is None:
            chk.bump("inexpressible_combination")
            continue
        cases.append(c)
    # every case with companions needs the companion-only twin so a failure can be attributed
    extra = []
    have = {(c.derive, c.sig()) for c in cases}
    for c in cases:
        for comp in c.companions:
            if (comp, c.sig()) in have:
                continue
            have.add((comp, c.sig()))
            import copy
            t = copy.copy(c)
            t.derive = comp
            t.companions = []
            t.families = None
            t.fam_hook = None
            t.is_companion_twin = True
            extra.append(t)
    return cases + extra


# ------------------------------------------------------------------ the tie: model headers vs real expansions

def real_headers(items):
    out = []
    for it in items:
        if it.get("kind") == "impl":
            out.append((tuple(nows(p) for p in it["params"]), None if it["trait"] is None else nows(it["trait"]),
                        nows(it["self_ty"]), tuple(nows(w) for w in it["where"])))
        elif it.get("kind") == "const_block":
            out += real_headers(it["items"])
    return out


def families_for(c, real):
    """complete the family terms whose hash-set ordered / inferred parts are inputs of the model"""
    g = c.item.g
    if c.families is not None:
        return c.families
    if c.fam_hook is None or not real:
        return None
    h = c.fam_hook
    nwhere = len(g["where"])
    params, trait, self_ty, where = real[0]
    if h[0] == "fmt":
        # inferred bounds (C04's subject) are appended after the user's predicates: taken from the expansion
        if [nows(w) for w in g["where"]] != list(where[:nwhere]):
            return ["FFmt %s []" % C.c_str(h[1])]
        extra = where[nwhere:]
        preds = C.c_list("PUser (U %s %s)" % (C.c_str(w), C.c_list(C.c_str(n) for n in free_ws(w, g))) for w in extra)
        return ["FFmt %s %s" % (C.c_str(h[1]), preds)]
    if h[0] == "mul":
        _, fam, tr, n = h
        # distinct field types in the iteration order of the deterministic-hash set: read off the expansion
        k = len(where) - nwhere
        field_tys = []
        for f in c.item.fields:
            if f.ty not in field_tys:
                field_tys.append(f.ty)
        order = []
        for w in where[:max(k, 0)]:
            m = [t for t in field_tys if w.startswith(nows(t) + ":")]
            m.sort(key=lambda t: -len(nows(t)))
            if m and m[0] not in order:
                order.append(m[0])
        if sorted(order) != sorted(field_tys):
            order = field_tys
        return ["%s %s %d %s" % (fam, C.c_str(tr), n, C.c_list(C.c_u(t, g) for t in order))]
    if h[0] == "error":
        has_ty = any(p["k"] == "ty" for p in g["params"])
        k = len(where) - nwhere - (1 if has_ty else 0)
        bounds = []
        for w in where[:max(k, 0)]:
            bounds.append(w.split(":derive_more::core::fmt::Debug")[0])
        return ["FError %s" % C.c_list("(U %s %s)" % (C.c_str(b), C.c_list(C.c_str(n) for n in free_ws(b, g)))
                                       for b in bounds)]
    return None


# ---- structured derive inputs for the model's decision layer (`families_of`)

ADDOPS = {"Add": "OAdd", "Sub": "OSub", "BitAnd": "OBitAnd", "BitOr": "OBitOr", "BitXor": "OBitXor"}
MULOPS = {"Mul": "OMul", "Div": "ODiv", "Rem": "ORem", "Shr": "OShr", "Shl": "OShl"}


def coq_derive(name):
    if name in ADDOPS:
        return "(DAddLike %s)" % ADDOPS[name]
    if name.endswith("Assign") and name[:-6] in ADDOPS:
        return "(DAddAssignLike %s)" % ADDOPS[name[:-6]]
    if name in MULOPS:
        return "(DMulLike %s)" % MULOPS[name]
    if name.endswith("Assign") and name[:-6] in MULOPS:
        return "(DMulAssignLike %s)" % MULOPS[name[:-6]]
    if name in ("Not", "Neg"):
        return "(DNotLike O%s)" % name
    if name in C.FMT_TRAITS:
        return "(DFmt O%s)" % name
    return "D" + name


def split_top(text):
    """split at top-level commas (parentheses, brackets, angle brackets nest); empty trailing item dropped"""
    out, cur, depth = [], [], 0
    for i, ch in enumerate(text):
        if ch in "([<":
            depth += 1
        elif ch in ")]" or (ch == ">" and text[i - 1:i] != "-"):
            depth -= 1
        if ch == "," and depth == 0:
            out.append("".join(cur).strip())
            cur = []
        else:
            cur.append(ch)
    last = "".join(cur).strip()
    if last:
        out.append(last)
    return [x for x in out if x]


def attr_args(attrs, name):
    """-> None (no such attribute) | [] (`#[name]`) | list of top-level arguments"""
    for a in attrs:
        m = re.match(r"#\[%s(?:\((.*)\))?\]$" % re.escape(name), a, re.S)
        if m:
            return [] if m.group(1) is None else split_top(m.group(1))
    return None


def conv_attr_term(args, g):
    if args is None:
        return "CAbsent"
    if not args:
        return "CEmpty"
    if args in (["skip"], ["ignore"]):
        return "CSkip"
    if args == ["forward"]:
        return "CForward"
    return "(CTypes %s)" % C.c_list(C.c_u(t, g) for t in args)


def conv3_term(args, nfields, g):
    """into.rs ConversionsAttribute::parse on the spellings the generator emits"""
    cv = {"owned": [False, []], "ref": [False, []], "ref_mut": [False, []]}

    def per_field(t):
        if nfields == 1:
            return [t]
        inner = t.strip()
        assert inner.startswith("(") and inner.endswith(")"), t
        return split_top(inner[1:-1])
    for a in args:
        m = re.match(r"(owned|ref_mut|ref)\s*(?:\((.*)\))?$", a, re.S)
        if m:
            if m.group(2) is None:
                cv[m.group(1)][0] = True
            else:
                cv[m.group(1)][1] += [per_field(t) for t in split_top(m.group(2))]
        else:
            cv["owned"][1].append(per_field(a))
    return "(C3 %s)" % " ".join("(Cv %s %s)" % ("true" if cv[k][0] else "false",
                                               C.c_list(C.c_list(C.c_u(t, g) for t in ts) for ts in cv[k][1]))
                                for k in ("owned", "ref", "ref_mut"))


def dinput_of(c, fams):
    """Coq `dinput` term of a case: read off the generated item for the derives whose impl set is decided by the model
    (From, Into, AsRef/AsMut, IntoIterator, TryInto), otherwise the family the case builder / expansion provided"""
    it, g, d = c.item, c.item.g, c.derive
    u = lambda t: C.c_u(t, g)
    if d == "From":
        if it.kind == "struct":
            return "IFromI (FromStruct %s %s)" % (conv_attr_term(attr_args(it.attrs, "from"), g),
                                                   C.c_list(u(f.ty) for f in it.fields))
        return "IFromI (FromEnum %s)" % C.c_list("(V %s %s)" % (C.c_list(u(f.ty) for f in v.fields),
                                                                  conv_attr_term(attr_args(v.attrs, "from"), g))
                                                  for v in it.variants)
    if d == "Into":
        fields = []
        for f in it.fields:
            a = attr_args(f.attrs, "into")
            skip = a in (["skip"], ["ignore"])
            convs = "None" if a is None or skip else ("(Some conv_default)" if not a else "(Some %s)" % conv3_term(a, 1, g))
            fields.append((f.ty, skip, convs))
        n_struct = sum(1 for f in fields if not f[1])
        a = attr_args(it.attrs, "into")
        sattr = "SAbsent" if a is None else ("SEmpty" if not a else "(SConvs %s)" % conv3_term(a, n_struct, g))
        return "IIntoI (II %s %s)" % (sattr, C.c_list("(IF %s %s %s)" % (u(t), "true" if sk else "false", cv)
                                                       for t, sk, cv in fields))
    if d in ("AsRef", "AsMut"):
        an = C.snake(d)
        a = attr_args(it.attrs, an)
        sattr = "ASNone" if a is None else ("ASForward" if a == ["forward"] else "(ASTypes %s)" % C.c_list(u(t) for t in a))
        return "IAsRefI (AR %s %s)" % (sattr, C.c_list("(%s, %s)" % (u(f.ty), conv_attr_term(attr_args(f.attrs, an), g))
                                                        for f in it.fields))
    if d == "IntoIterator":
        marks = [attr_args(f.attrs, "into_iterator") for f in it.fields]
        enabled = [i for i, m in enumerate(marks) if m is not None and m != ["ignore"]]
        if not enabled:
            enabled = [i for i, m in enumerate(marks) if m != ["ignore"]]
        fty = it.fields[enabled[0]].ty
        sel = attr_args(it.attrs, "into_iterator") or marks[enabled[0]] or []
        flags = [("true" if k in sel else "false") for k in ("owned", "ref", "ref_mut")] if sel else ["true", "false", "false"]
        return "IRefs %s %s" % (" ".join(flags), u(fty))
    if d == "TryInto":
        sel = attr_args(it.attrs, "try_into") or []
        flags = [("true" if k in sel else "false") for k in ("owned", "ref", "ref_mut")] if sel else ["true", "false", "false"]
        vs = [v for v in it.variants if attr_args(v.attrs, "try_into") != ["ignore"]]
        return "ITryIntoI %s" % C.c_list("(TV %s %s)" % (C.c_list(u(f.ty) for f in v.fields), " ".join(flags)) for v in vs)
    # one family, provided by the case builder (or completed from the expansion): wrap it
    if not fams or len(fams) != 1:
        return None
    f = fams[0]
    if f.startswith(("FInherent", "FSum")):
        return "IPlain"
    if f.startswith(("FAddLike", "FAddAssignLike")):
        return "IForward true" if (d in C.MUL or d in C.MUL_ASSIGN) else "IPlain"
    m = re.match(r"FMul(?:Assign)?Like \S+ (\d+) (.*)$", f, re.S) or re.match(r"FMul(?:Assign)?Like \(s \"\w+\"\) (\d+) (.*)$", f, re.S)
    if m:
        return "IScalar %s %s" % (m.group(1), m.group(2))
    for pre, ctor in (("FFmt ", "IFmtBounds"), ("FDeref ", "IDerefI"), ("FIndex ", "IField"), ("FError ", "IErrorI"),
                      ("FTryFrom ", "IRepr")):
        if f.startswith(pre):
            rest = f[len(pre):]
            if pre != "FError " and pre != "FTryFrom ":
                rest = re.sub(r"^\(s \"\w+\"\)\s*", "", rest)       # drop the trait name
            return "%s %s" % (ctor, rest)
    if f == "FFromStrStruct":
        return "IEnum false"
    if f == "FFromStrEnum":
        return "IEnum true"
    return None


def free_ws(text, g):
    """parameter names mentioned in a white-space free token text"""
    names = sorted((p["n"] for p in g["params"]), key=len, reverse=True)
    out = []
    for n in names:
        if re.search(r"(?<![\w'])" + re.escape(n) + r"(?!\w)", text) and n not in out:
            out.append(n)
    return out


def model_render(t):
    params, tr, self_ty, where = t
    tr = None if tr == "None" else py_str(tr[1])
    return (tuple(py_str(p) for p in params), tr, py_str(self_ty), tuple(py_str(w) for w in where))


def coq_rendered(h):
    params, tr, self_ty, where = h
    return "(%s, %s, %s, %s)" % (C.c_list(C.c_str(p) for p in params), "None" if tr is None else "Some %s" % C.c_str(tr),
                                 C.c_str(self_ty), C.c_list(C.c_str(w) for w in where))


def run_tie(chk, cases, expansions):
    """model headers vs real headers; the comparison itself runs inside Coq (`rendereds_eqb`), only mismatching cases
    (and the order-insensitive ones) are printed and compared here"""
    exprs, idx, printed = [], [], []
    fams_of = {}
    for i, c in enumerate(cases):
        r = expansions[i]
        if "ok" not in r or getattr(c, "is_companion_twin", False):
            continue
        if c.item.g["where"] and not where_kept(c, real_headers(r.get("items") or [])):
            c.where_lost = True         # names the class of the compile error the oracle will see
        if "~" in c.attr and chk.tier == "quick":
            continue        # same headers as the unspelled attribute (tied above); the thorough tier ties these too
        if c.attr.startswith("tyform") and chk.tier == "quick" and (c.naming, c.flavour) != ("plain", "plain"):
            continue        # one tie per type form in the quick tier (all of them are compiled by the oracle)
        real = real_headers(r.get("items") or [])
        fams = families_for(c, real)
        if fams is None and c.derive not in ("From", "Into", "AsRef", "AsMut", "IntoIterator", "TryInto"):
            continue
        g = C.c_generics(c.item.g)
        di = dinput_of(c, fams)
        if di is None:
            chk.bump("tie_without_decision_layer")
            model = "map (fun f => render %s (header f %s)) %s" % (C.c_str(c.item.name), g, C.c_list("(%s)" % f for f in fams))
        else:
            # the model decides which impls exist (families_of), then builds each header
            model = "map (render %s) (headers_of %s (%s) %s)" % (C.c_str(c.item.name), coq_derive(c.derive), di, g)
        fams_of[i] = (fams, real, model)
        if c.unordered:
            printed.append(i)
        else:
            exprs.append("rendereds_eqb (%s) %s" % (model, C.c_list(coq_rendered(h) for h in real)))
            idx.append(i)
    bs = min(150, max(20, (len(exprs) + 15) // 16))
    verdicts = common.coq_eval(["Verif.C01.Model"], exprs, batch=bs, tag="c01")
    printed += [i for i, v in zip(idx, verdicts) if v != "true"]
    terms = common.coq_eval(["Verif.C01.Model"], [fams_of[i][2] for i in printed], batch=60, tag="c01p")
    n = len(idx) - sum(1 for v in verdicts if v != "true")
    for i in idx:
        chk.bump("tie:" + C.group_of(cases[i].derive))
    for i, t in zip(printed, terms):
        c = cases[i]
        fams, real, _ = fams_of[i]
        model = [model_render(x) for x in (t if isinstance(t, list) else [t])]
        a, b = list(real), list(model)
        if c.unordered:
            a, b = sorted(a, key=repr), sorted(b, key=repr)
            chk.bump("tie:" + C.group_of(c.derive))
        if a != b:
            chk.violation("tie-header:" + C.group_of(c.derive),
                          {"key": c.key(), "item": c.expand_source(), "families": fams, "model": b, "real": a},
                          "Coq model of the impl header disagrees with the real expansion of derive(%s) on `%s`: model %s, real %s"
                          % (c.derive, c.expand_source()[:200], b[:2], a[:2]))
        else:
            n += 1
    chk.cov["traces_validated_against_impl"] = n
    return n


# ------------------------------------------------------------------ tie of the acceptance model (`accepts`)

VK = {"unit": ("VUnit", ""), "t0": ("(VTuple 0)", "()"), "t1": ("(VTuple 1)", "(i32)"), "t2": ("(VTuple 2)", "(i32, u8)"),
      "t3": ("(VTuple 3)", "(i32, u8, i64)"), "n0": ("(VNamed 0)", " {}"), "n1": ("(VNamed 1)", " { a: i32 }"),
      "n2": ("(VNamed 2)", " { a: i32, b: u8 }")}
ENUM_SHAPES = [[], ["unit"], ["t1"], ["n1"], ["t0"], ["n0"], ["t2"], ["n2"], ["unit", "unit"], ["t1", "n1"],
               ["unit", "t1"], ["t1", "t2"], ["t1", "n2", "unit"], ["t1", "t2", "unit"], ["n1", "unit"], ["t3", "t1"]]


def run_accepts_tie(chk, inproc, rng):
    """the model's `accepts d fwd shape` vs the real expander (ok / not ok) on attribute-free items of every shape"""
    reqs, exprs, meta = [], [], []
    for d in C.ALL_DERIVES:
        fwds = [False, True] if (d in C.MUL or d in C.MUL_ASSIGN) else [False]
        for fwd in fwds:
            pre = ("#[%s(forward)] " % C.snake(d)) if fwd else ""
            if d == "TryFrom":
                pre = "#[try_from(repr)] "
            for k, (term, body) in VK.items():
                src = pre + "struct S" + body + (";" if not body.endswith("}") else "")
                reqs.append({"cmd": "expand", "derive": d, "item": src, "summary": False})
                exprs.append("accepts %s %s (SStruct %s)" % (coq_derive(d), "true" if fwd else "false", term))
                meta.append((d, fwd, src))
            for vs in ENUM_SHAPES:
                src = pre + "enum S { " + ", ".join("V%d%s" % (i, VK[k][1].strip() and VK[k][1]) for i, k in enumerate(vs)) + " }"
                reqs.append({"cmd": "expand", "derive": d, "item": src, "summary": False})
                exprs.append("accepts %s %s (SEnum %s)" % (coq_derive(d), "true" if fwd else "false",
                                                           C.c_list(VK[k][0] for k in vs)))
                meta.append((d, fwd, src))
    real = common.run_jsonl(inproc, reqs)
    model = common.coq_eval(["Verif.C01.Model"], exprs, batch=max(50, (len(exprs) + 15) // 16), tag="c01acc")
    n = 0
    for (d, fwd, src), r, m in zip(meta, real, model):
        ok = "ok" in r
        n += 1
        chk.bump("accepts:" + ("accepted" if ok else "refused"))
        if ok != (m == "true"):
            chk.violation("tie-accepts:%s" % d, {"derive": d, "item": src, "model_accepts": m, "real": {k: r[k] for k in r if k != "ok"}},
                          "acceptance model disagrees with derive(%s) on `%s`: model %s, expander %s" %
                          (d, src, m, "accepts" if ok else json.dumps(r)[:200]))
    # the derive table itself: lib.rs vs `all_derives`
    names = common.coq_eval(["Verif.C01.Model"], ["map derive_name all_derives"], tag="c01names")[0]
    listed = sorted(x[0] for x in common.run_jsonl(inproc, [{"cmd": "list"}])[0]["derives"])
    if sorted(py_str(x) for x in names) != listed:
        chk.violation("tie-derive-table", {"model": sorted(py_str(x) for x in names), "lib_rs": listed},
                      "the model's derive table differs from the create_derive! table of lib.rs")
    return n


# ------------------------------------------------------------------ the oracle: real macro + rustc

def crate_source(cases):
    """-> (lib.rs text, [(first_line, last_line, kind, index)])"""
    lines = ["#![deny(warnings)]", "#![allow(clippy::all)]"]
    lines += C.SUP.strip("\n").split("\n")
    ranges = []
    ctl_ix = {}
    for k, c in enumerate(cases):
        src = c.source()
        start = len(lines) + 1
        lines.append("pub mod case_%d {" % k)
        lines += ["    " + l for l in src.split("\n")]
        lines.append("}")
        ranges.append((start, len(lines), "case", k))
        ctl = c.source(control=True)
        if ctl not in ctl_ix:
            ctl_ix[ctl] = len(ctl_ix)
            start = len(lines) + 1
            lines.append("pub mod ctl_%d {" % ctl_ix[ctl])
            lines += ["    " + l for l in ctl.split("\n")]
            lines.append("}")
            ranges.append((start, len(lines), "ctl", ctl_ix[ctl]))
        c._ctl = ctl_ix[ctl]
    return "\n".join(lines) + "\n", ranges


def span_lines(span, acc):
    if span.get("file_name", "").endswith("src/lib.rs"):
        acc.append(span["line_start"])
    exp = span.get("expansion")
    if exp and exp.get("span"):
        span_lines(exp["span"], acc)


def diag_lines(msg):
    acc = []
    prim = [s for s in msg.get("spans", []) if s.get("is_primary")] or msg.get("spans", [])
    for s in prim:
        span_lines(s, acc)
    if not acc:
        for ch in msg.get("children", []):
            for s in ch.get("spans", []):
                span_lines(s, acc)
    return acc


def check_crate(name, cases, target_dir):
    """One `cargo check`. -> (ok, {case_index: [diag]}, {ctl_index: [diag]}, [unmapped diag], raw tail)"""
    src, ranges = crate_source(cases)
    d = common.make_crate(name, src, bin=False)
    rc, out = common.cargo(d, ["check", "--message-format=json", "--quiet"], target_dir=target_dir, timeout=1500)
    per_case, per_ctl, unmapped = {}, {}, []
    for line in out.splitlines():
        if not line.startswith("{"):
            continue
        try:
            j = json.loads(line)
        except ValueError:
            continue
        if j.get("reason") != "compiler-message" or name not in j.get("package_id", ""):
            continue
        m = j["message"]
        if m["level"] not in ("error", "warning"):
            continue
        if m["message"].startswith("aborting due to") or re.match(r"\d+ warnings? emitted", m["message"]):
            continue
        code = (m.get("code") or {}).get("code")
        dg = {"level": m["level"], "code": code, "msg": m["message"], "hard": code is None or bool(re.match(r"E\d+$", code)),
              "rendered": (m.get("rendered") or "")[:1500]}
        hit = None
        for ln in diag_lines(m):
            for (a, b, kind, ix) in ranges:
                if a <= ln <= b:
                    hit = (kind, ix)
                    break
            if hit:
                break
        if hit is None:
            unmapped.append(dg)
        elif hit[0] == "case":
            per_case.setdefault(hit[1], []).append(dg)
        else:
            per_ctl.setdefault(hit[1], []).append(dg)
    return rc == 0, per_case, per_ctl, unmapped, out[-3000:]


def run_shard(k, cases, target_dir, log):
    """iterate: remove the cases with hard errors, check again, until the rest compiles (lints are all reported then)"""
    name = "c01_shard_%d" % k
    alive = list(range(len(cases)))
    result = {i: {"errors": [], "lints": []} for i in alive}
    ctl_lints = {}
    notes = []
    for rnd in range(6):
        sub = [cases[i] for i in alive]
        ok, per_case, per_ctl, unmapped, tail = check_crate(name, sub, target_dir)
        hard = {}
        for j, dgs in per_case.items():
            hs = [d for d in dgs if d["hard"]]
            if hs:
                hard[j] = hs
        ctl_hard = {j: [d for d in dgs if d["hard"]] for j, dgs in per_ctl.items() if any(d["hard"] for d in dgs)}
        if ctl_hard:
            # the generator produced an item that does not compile even without the derive: not a case
            bad_ctl = set(ctl_hard)
            for pos, i in enumerate(list(alive)):
                if sub[pos]._ctl in bad_ctl:
                    result[i]["generator_bug"] = ctl_hard[sub[pos]._ctl][0]["msg"]
            alive = [i for pos, i in enumerate(alive) if sub[pos]._ctl not in bad_ctl]
            notes.append("round %d: %d control twins do not compile" % (rnd, len(bad_ctl)))
            continue
        if hard:
            for j, hs in hard.items():
                result[alive[j]]["errors"] = hs
            alive = [i for pos, i in enumerate(alive) if pos not in hard]
            continue
        if unmapped and any(d["hard"] for d in unmapped):
            # a hard error that could not be attributed by span: bisect the shard
            notes.append("round %d: unattributed hard error, bisecting: %s" % (rnd, unmapped[0]["msg"][:200]))
            bad = bisect(name, sub, target_dir)
            for pos in bad:
                result[alive[pos]]["errors"] = [dict(unmapped[0], msg="[bisected] " + unmapped[0]["msg"])]
            alive = [i for pos, i in enumerate(alive) if pos not in bad]
            if not bad:
                notes.append("bisection found nothing; giving up on shard %d: %s" % (k, tail[-800:]))
                for i in alive:
                    result[i]["lost"] = True
                break
            continue
        # no hard error left: lint diagnostics are final
        for j, dgs in per_case.items():
            ctl = {d["code"] for d in per_ctl.get(sub[j]._ctl, [])}
            result[alive[j]]["lints"] = [d for d in dgs if d["code"] not in ctl]
            result[alive[j]]["discounted"] = [d["code"] for d in dgs if d["code"] in ctl]
        for d in unmapped:
            notes.append("unattributed lint: %s %s" % (d["code"], d["msg"][:160]))
        break
    else:
        notes.append("shard %d did not converge" % k)
        for i in alive:
            result[i]["lost"] = True
    common.cleanup_scratch(name)
    return result, notes


def bisect(name, cases, target_dir):
    """indices of cases whose presence makes the crate fail (used only when spans give no attribution)"""
    bad = set()

    def go(ixs):
        if not ixs:
            return
        ok, per_case, per_ctl, unmapped, _ = check_crate(name + "_b", [cases[i] for i in ixs], target_dir)
        if ok:
            return
        if len(ixs) == 1:
            bad.add(ixs[0])
            return
        mid = len(ixs) // 2
        go(ixs[:mid])
        go(ixs[mid:])
    go(list(range(len(cases))))
    common.cleanup_scratch(name + "_b")
    return bad


def where_kept(c, real):
    """the user's where-predicates appear, in order, in the where-clause of every generated impl (none for a type without)"""
    want = [nows(w) for w in c.item.g["where"]]
    for (_, _, _, where) in real:
        it = iter(where)
        if not all(any(w == x for x in it) for w in want):
            return False
    return True


def classify_error(c, dgs):
    g = c.item.g
    if getattr(c, "where_lost", False) and any(d["code"] == "E0277" for d in dgs):
        return "%s:user-where-clause-lost" % c.derive
    codes = sorted({d["code"] or "none" for d in dgs})
    msg = " | ".join(d["msg"] for d in dgs[:3])
    generic = bool(g["params"])
    if c.derive == "TryFrom" and generic and set(codes) & {"E0107", "E0109"}:
        return "TryFrom:generic-enum-repr-generics"
    if c.derive == "FromStr" and c.item.kind == "enum" and generic and "E0107" in codes:
        return "FromStr:generic-enum-missing-generics"
    if c.derive == "Error" and c.attr.startswith("tyform-src") and "E0599" in codes:
        return "Error:source-bound-missing:%s" % c.attr.split(":", 1)[1]
    if c.derive in ("AsRef", "AsMut") and c.attr == "tyform-asref:assoc":
        return "%s:assoc-type-path-not-generic" % c.derive
    if "E0004" in codes:
        return "%s:non-exhaustive-match:%s:%s" % (c.derive, c.shape, c.attr)
    if "proc-macro derive panicked" in msg:
        return "%s:derive-panic%s" % (c.derive, ":raw-identifier" if c.naming == "raw" else "")
    if C.group_of(c.derive) in ("fmt", "debug") and ("lifetime may not live long enough" in msg or "E0283" in codes):
        # a bound inferred on a reference type (`&'a T: Display`) next to a field of type `T`: rustc then selects that
        # where-clause for every `&'_ T: Display` obligation (C04's subject, reported apart)
        return "fmt-bound-on-reference-field"
    if C.group_of(c.derive) in ("fmt", "debug") and "E0277" in codes:
        # formatting-bound inference is C04's subject: reported, but classified apart
        if c.naming == "raw" and c.attr in ("fmt", "fmt-variant"):
            return "fmt-bound-raw-field-argument"
        return "fmt-bound-%s:%s" % (c.derive, c.attr)
    return "%s:%s:%s:%s%s" % (c.derive, "+".join(codes), c.shape, c.attr, ":raw" if c.naming == "raw" and not generic else "")


def classify_lint(c, d):
    code = d["code"]
    if code == "deprecated":
        return "%s:deprecated-%s-warning" % (c.derive, "variant" if c.item.kind == "enum" else "field")
    if code in ("unreachable_code", "unreachable_patterns"):
        return "%s:%s-warning%s" % (c.derive, code.replace("_", "-"), ":uninhabited-field" if c.flavour == "uninhabited" else "")
    return "%s:%s-warning" % (c.derive, (code or "lint").replace("_", "-"))


def slug(msg):
    m = re.sub(r"`[^`]*`", "_", msg)
    m = re.sub(r"[^A-Za-z]+", "-", m).strip("-").lower()
    return m[:60]


# ------------------------------------------------------------------ the check

def run(tier, seed, replay):
    chk = common.Check("C01", tier, seed)
    rng = chk.rng
    inproc = common.build_inproc()

    # T-gen: regenerate the template facts, then (re)check the proofs over them
    facts = c01_impl_attrs.generate()
    chk.bump("impl_templates", len(facts["templates"]))
    # only this property's generated file is scanned (other properties' Gen/*.v are theirs to answer for)
    st = common.check_proofs(chk, "C01")
    bad = common.scan_forbidden([os.path.join(common.COQ, "theories", "Gen", "ImplAttrs.v")])
    if bad:
        chk.violation("coq-forbidden", {"forbidden": bad}, "forbidden declarations in Gen/ImplAttrs.v: %s" % bad[:5], no_input=True)

    # the same closedness, evaluated in the model, so that a new offender is reported by name (the theorem only says "broken")
    new_off = common.coq_eval(["Verif.C01.Model", "Verif.Gen.ImplAttrs"],
                              ["map key (filter (fun o => negb (existsb (key_eqb (key o)) known_offender_keys)) "
                               "(offenders impl_templates))"], tag="c01off")[0]
    for o in (new_off if isinstance(new_off, list) else []):
        fname, idx, which = o
        t = [x for x in facts["templates"] if x["file"] == fname and x["idx"] == idx]
        chk.violation("attr-missing:%s:%s:%s" % (fname, idx, which), {"template": t, "missing": which},
                      "impl template %s#%s (line %s) lacks %s and is not a known offender: %s" %
                      (fname, idx, t[0]["line"] if t else "?", which, t[0]["header"] if t else ""), no_input=False)

    # ---- cases
    if replay:
        rp = json.load(open(replay))["replay"]
        key = rp.get("key")
        cases = []
        if key:
            # rebuild with the recorded sources (the random field-type choices are part of the replay)
            c = C.build(*key, rng=rng)
            if c is not None:
                c._src = rp.get("source")
                c._ctl_src = rp.get("control")
                if c._src:
                    c.source = (lambda control=False, c=c: c._ctl_src if control else c._src)
                    if rp.get("item"):
                        if c.expand_source() != rp["item"]:
                            c.families, c.fam_hook = None, None      # field types differ from the recorded ones
                        c.expand_source = (lambda c=c: rp["item"])
                cases = [c]
    else:
        cases = enumerate_cases(tier, rng, chk)
    chk.log("%d cases" % len(cases))

    # ---- pre-screen through the in-process expander (primary derive only)
    reqs = [{"cmd": "expand", "derive": c.derive, "item": c.expand_source()} for c in cases]
    exps = common.run_jsonl(inproc, reqs)
    accepted = []
    for c, r in zip(cases, exps):
        chk.bump("derive:" + c.derive)
        chk.bump("generics:" + c.gname)
        chk.bump("flavour:" + c.flavour)
        chk.bump("naming:" + c.naming)
        if "ok" in r:
            accepted.append(c)
            continue
        if getattr(c, "is_companion_twin", False):
            continue
        chk.count(c.key(), True)
        if "err" in r and c.derive in C.MUL and c.attr == "forward" and c.item.kind == "enum":
            # mul.md: "Deriving `Mul` for enums is not (yet) supported, except when you use `#[mul(forward)]`"
            what, cls = r["err"], "MulLike:forward-on-enum-rejected"
        elif "err" in r:
            what, cls = r["err"], "%s:rejected:%s" % (c.derive, slug(r["err"]))
        elif "panic" in r:
            what = "panic at %s: %s" % (r["panic"].get("loc"), r["panic"].get("msg"))
            cls = "%s:derive-panic%s" % (c.derive, ":raw-identifier" if c.naming == "raw" else "")
        else:
            what, cls = json.dumps(r)[:300], "%s:expander-%s" % (c.derive, sorted(r)[0])
        chk.violation(cls, {"key": c.key(), "item": c.expand_source(), "source": c.source(), "control": c.source(True),
                            "observed": what},
                      "derive(%s) does not accept a documented-supported input `%s`: %s" % (c.derive, c.expand_source()[:300], what))
    chk.bump("prescreen_accepted", len(accepted))
    chk.bump("prescreen_rejected", len(cases) - len(accepted))

    # ---- tie (model vs real headers)
    acc_ix = [i for i, r in enumerate(exps) if "ok" in r]
    n_tie = run_tie(chk, [cases[i] for i in acc_ix], [exps[i] for i in acc_ix])
    chk.log("tie: %d expansions compared with the model" % n_tie)
    if not replay:
        n_acc = run_accepts_tie(chk, inproc, rng)
        chk.cov["traces_validated_against_impl"] += n_acc
        chk.log("tie: %d accept/refuse decisions compared with the model" % n_acc)

    # ---- oracle
    nshards = 1 if replay else (4 if tier == "quick" else 16)
    shards = [[] for _ in range(nshards)]
    for i, c in enumerate(accepted):
        shards[i % nshards].append(c)
    base = common.rt_target_dir()

    def work(k):
        if not shards[k]:
            return {}, []
        return run_shard(k, shards[k], "%s-c01-s%d" % (base, k), chk.log)
    t0 = time.time()
    with ThreadPoolExecutor(max_workers=nshards) as ex:
        shard_res = list(ex.map(work, range(nshards)))
    chk.log("oracle: %d cases in %d shards, %.1fs" % (len(accepted), nshards, time.time() - t0))

    # outcome of every (derive, item) so that failures of a companion derive are not blamed on the derive under test
    outcome = {}
    for k in range(nshards):
        res, notes = shard_res[k]
        for n_ in notes:
            chk.notes.append("shard %d: %s" % (k, n_))
        for i, c in enumerate(shards[k]):
            outcome[(c.derive, c.sig())] = res[i]
    n_ok = 0
    for k in range(nshards):
        res, _ = shard_res[k]
        for i, c in enumerate(shards[k]):
            r = res[i]
            if getattr(c, "is_companion_twin", False):
                continue
            nontrivial = bool(c.item.g["params"]) or c.flavour != "plain" or c.naming == "raw" or c.attr != "none"
            chk.count(c.key(), nontrivial)
            if r.get("generator_bug"):
                chk.bump("generator_item_does_not_compile")
                chk.notes.append("generator: control twin of %s does not compile: %s" % (c.key(), r["generator_bug"][:200]))
                continue
            if r.get("lost"):
                chk.bump("lost_cases")
                continue
            comp_res = [outcome.get((comp, c.sig())) for comp in c.companions]
            rep = {"key": c.key(), "item": c.expand_source(), "source": c.source(), "control": c.source(True)}
            if r["errors"]:
                if any(cr and cr["errors"] for cr in comp_res):
                    chk.bump("explained_by_companion")
                    continue
                cls = classify_error(c, r["errors"])
                rep["observed"] = [d["rendered"] or d["msg"] for d in r["errors"][:4]]
                chk.violation(cls, rep, "derive(%s) on a supported input does not compile: %s  <<%s>>" %
                              (c.derive, " | ".join(d["msg"] for d in r["errors"][:2])[:300], c.source()[:300]))
                continue
            comp_codes = set()
            for cr in comp_res:
                if cr:
                    comp_codes |= {d["code"] for d in cr["lints"]}
            lints = [d for d in r["lints"] if d["code"] not in comp_codes]
            if lints:
                for d in lints[:3]:
                    rep2 = dict(rep, observed=d["rendered"] or d["msg"])
                    chk.violation(classify_lint(c, d), rep2,
                                  "derive(%s) raises a warning of its own under #![deny(warnings)]: [%s] %s  <<%s>>" %
                                  (c.derive, d["code"], d["msg"][:200], c.source()[:300]))
                continue
            n_ok += 1
            chk.sample({"derive": c.derive, "item": c.source()[:240], "verdict": "compiles, no warning"}, limit=10)
    chk.bump("compiles_without_warning", n_ok)

    if getattr(chk, "proof_broken", False) and not chk.violations:
        chk.violation("proof-broken", chk.proof_failure, "a C01 proof obligation no longer checks: %s" %
                      chk.proof_failure["failed"], no_input=True)
    elif getattr(chk, "proof_broken", False):
        chk.notes.append("proof obligation broken at %s; failing inputs found by the search" % chk.proof_failure["failed"])

    offenders = [(t["file"], t["idx"], m) for t in facts["templates"]
                 for m, bad in (("automatically_derived", not t["auto"]), ("allow(deprecated)", t["interp"] and not t["dep"]),
                                ("allow(unreachable_code)", t["interp"] and not t["unreach"])) if bad]
    return chk.finish(
        proof=st,
        rule="cases = derive (all 50) x documented (shape, attribute) variant x 16 generic parameter sets (0..3 lifetimes, "
             "bounds, defaults, where-clauses, const params with defaults, const-before-type order) x {plain, raw identifiers} x "
             "{plain, #[deprecated] field/variant, uninhabited field}; quick: 3 per variant + every (derive, generics) pair, "
             "thorough: the full product; each case pre-screened by the in-process expander, its headers compared with the Coq "
             "model, then compiled by rustc with the real macro under #![deny(warnings)] next to a control twin; non-trivial = "
             "generic, or raw-named, or attributed, or deprecated/uninhabited flavour; distinct by case key",
        trusted=TRUSTED,
        extra={"impl_templates": len(facts["templates"]), "template_offenders_syntactic": offenders,
               "try_from_tygen_on_trait": facts["try_from_on_trait"], "try_from_tygen_on_self": facts["try_from_on_self"],
               "from_str_enum_generic": facts["from_str_enum_generic"]})


META = {
    "level": "proof",
    "technique": "Coq proof of impl-header well-formedness for every derive family and every generic parameter list + "
                 "T-gen attribute-presence theorem + compile matrix with the real macro under deny(warnings)",
    "text": "Decision layer: the 50 derives (table tied to lib.rs), which impls From / Into / AsRef / AsMut / IntoIterator / "
            "TryInto emit for an attribute set (from.rs, into.rs, as/mod.rs, ref_types), and which item shapes every derive "
            "accepts, are modelled and tied on every run; C01_wf_all_derives_partial covers every header of every derive for "
            "every input, with corollaries for the two clauses of the property text (own generics only on the type; added "
            "bounds only mention parameters in scope), parameter placement for unsorted lists, TryInto key distinctness and "
            "documented-shape acceptance. "
            "Theorems (unbounded generics lists, induction): for each of the 19 header templates the derives build (from syn's "
            "split_for_impl and the utils.rs helpers) the header declares every parameter exactly once with its bounds and "
            "without default, lifetimes first, applies the type's generic arguments to the type and to nothing else, and "
            "mentions only parameters in scope, fresh names being distinct from user names under the stated `__` assumption; "
            "PARTIAL: only the logical part of `compiles` (rustc is consulted on generated crates, not modelled). The TryFrom "
            "and FromStr-on-enum headers (repaired in /repo) are proved unconditionally; the header shapes the model assumes for "
            "them are re-extracted from the source and re-checked by C01_source_headers on every run. "
            "Attribute presence: every impl template is #[automatically_derived] and allows deprecated/unreachable_code when "
            "its body interpolates, modulo an explicit list of known offender keys (vm_compute over Gen/ImplAttrs.v).",
    "note": "Trusted: Coq kernel/vm_compute; hand model tied by differential runs against real expansions; translator and case "
            "builder; rustc's verdict on the generated crates is the oracle for the property text.",
    "design_ref": "DESIGN.md section 2 / C01",
}
