"""C04 - inferred formatting bounds on generics are sufficient and not excessive."""
from lib import common
from lib import fmtcheck as C
from lib import boundsrt as B


def where_oracle(chk, results):
    """independent of the model: whatever the derive infers, the predicates the user wrote in the type's own where
    clause are the first predicates of the impl's where clause, in order"""
    from lib import fmtitems as F
    for r in results:
        it = r["item"]
        if not it.get("where"):
            continue
        real = C.real_display(r["resp"])
        if real[0] != "ok" or real[2] is None:
            continue
        want = [F.nows(p) for p in it["where"]]
        chk.bump("where-oracle:own-where-clause")
        if real[2][:len(want)] != want:
            chk.violation("own-where-clause-lost", {"item": r["src"], "derive": it["trait"], "impl_where": real[2], "own": want},
                          "the type's own where clause does not open the impl's where clause: %s" % r["src"])


def run(tier, seed, replay):
    chk = common.Check("C04", tier, seed)
    st = common.check_proofs(chk, "C04", extra_dirs=("Fmt", "Gen", "C05", "C02"))
    n = 3500 if tier == "quick" else 20000
    res, dres = C.decision_tie(chk, n, n // 2)
    where_oracle(chk, res + dres)

    # rustc oracle with the real macro: sufficiency (the derive compiles) and non-excess (impl available for NoFmt)
    rng = chk.rng
    ncase = 1400 if tier == "quick" else 8400
    shard = 700
    total_err = 0
    for s0 in range(0, ncase, shard):
        cases = (B.pinned_cases() if s0 == 0 else []) + [B.gen_case(rng, k) for k in range(min(shard, ncase - s0))]
        for idx, c in enumerate(cases):
            c.k = idx
        rc, errs, out = B.check("c04_rt", cases)
        for c in cases:
            chk.count(("rustc", c.decl), True)
            for nt in set(c.notes):
                chk.bump("rustc:" + nt.split(":")[0])
            if c.k % 97 == 0:
                chk.sample({"decl": c.decl, "formatted_params": sorted(c.formatted)})
        if rc != 0 and not errs:
            chk.violation("rustc-corpus-failed", {"output": out[-3000:]}, "the generic corpus failed to build without a located error")
        for (k, where, msg) in errs:
            total_err += 1
            c = cases[k] if k is not None else None
            if c is None:
                chk.violation("rustc-unlocated-error", {"message": msg}, "rustc error outside any case: %s" % msg)
            elif where == "decl":
                chk.violation("bound-missing", {"decl": c.decl, "trait": c.trait, "rustc": msg, "formatted_params": sorted(c.formatted)},
                              "inferred bounds are not sufficient: %s  (%s)" % (c.decl, msg))
            else:
                chk.violation("bound-excessive", {"decl": c.decl, "trait": c.trait, "rustc": msg, "formatted_params": sorted(c.formatted)},
                              "the impl is not available although only unformatted parameters lack formatting traits: %s  (%s)" % (c.decl, msg))
    chk.cov["rustc_cases"] = ncase
    common.cleanup_scratch("c04_rt")
    return C.finish_with_proofs(
        chk, st,
        rule="(1) generated Display-like/Debug items whose field types are random type trees over the type parameters (paths, "
             "qualified/associated types, references, arrays, tuples, fn pointers, trait objects, Fn(..) sugar): model vs real expander, "
             "exact where-clause (the type's OWN where clause / inline bounds first; order and multiplicity included; several bound(...) attributes per item, on enums and variants, in "
             "any order and mixed with attributes of other derives); (2) generic structs/enums (1-3 type parameters inside T, W<T>, "
             "Box<T>, Vec/Option/arrays/tuples; struct-, variant-, field-level attributes; named/positional/aliased/by-position "
             "references, expression arguments with user bound(...); own where clauses and inline bounds on tuple / named structs and enums; "
             "wrapping enum-level formats that name a field under another trait than the variant's own format) compiled by rustc with the real macro: the derive must compile and "
             "Ty<..NoFmt for every unformatted parameter..> must implement the trait; non-trivial = every case; distinct by source",
        trusted=C.FMT_TRUSTED + ["rustc's trait solver as the judge of 'sufficient'/'available' (tools/lib/boundsrt.py decides which "
                                 "parameters count as formatted from the property text, independently of the model)"])


META = {
    "level": "proof",
    "technique": "Coq theorems on the bound-inference model (bounded_types, contains_generics, generate_bounds) + differential tie on exact where-clauses + rustc as oracle with the real macro",
    "text": "Proved for all attributes/field lists: a bound FieldTy: Tr is emitted iff a placeholder under Tr denotes (by name, "
            "position or bare-identifier argument) a field whose type mentions a type parameter; user bound(...) predicates are kept "
            "unchanged; nothing else is bounded (not excessive); the placeholders are those format_args! sees (C03); Debug's per-field "
            "rules. Also proved, for every combination of own and enum-level attribute and for Debug: the where-clause bounds FieldTy: Tr "
            "iff the generated body formats a field of that generic type under Tr (write!, text bound to _variant, enum-level format, "
            "delegation) - body/bounds consistency; name resolution (_k / field identifiers) is complete and sound up to the spelling of "
            "a tuple index; all bound(...) attributes are merged. The model is tied to the expander on exact where-clauses each run, and rustc judges sufficiency and availability "
            "on a generic corpus with the real macro.",
    "note": "Trusted: Coq kernel; Fmt/Model.v tied by differential runs; rustc as judge of what a body needs (not modelled); "
            "the oracle's reading of 'formatted parameter' from the property text.",
    "design_ref": "DESIGN.md section 2 / C04",
}
